//! astwalk: for every input text, every node of the real parse tree with the results of ALL typed accessors of
//! syntax::ast (one explicit call per `ast_field!` of ast.rs: the accessors themselves are exercised, not a model of them).
//! output per text: {"errors": n, "nodes": [[kind, lo, hi, [[field, [[kind, lo, hi], ...]], ...]], ...]}
//! (nodes in document order; only kinds that have an ast struct carry fields).  A renamed / removed accessor makes this
//! file fail to compile, which the check reports as a broken tie.
use rowan::ast::AstNode;
use serde_json::{json, Value};
use syntax::ast;
use syntax::syntax_kind::SyntaxKind;
use syntax::SyntaxNode;

fn desc(n: &SyntaxNode) -> Value {
    let r = n.text_range();
    json!([format!("{:?}", n.kind()), u32::from(r.start()), u32::from(r.end())])
}

fn walk(root: &SyntaxNode) -> Vec<Value> {
    let mut out = Vec::new();
    for node in root.descendants() {
        let mut f: Vec<(&str, Vec<Value>)> = Vec::new();
        match node.kind() {
            SyntaxKind::SourceFile => {
                let n = ast::SourceFile::cast(node.clone()).expect("cast");
                let _ = &n;
                f.push(("statement_list", n.statement_list().map(|c| desc(c.syntax())).into_iter().collect()));
            }
            SyntaxKind::StatementList => {
                let n = ast::StatementList::cast(node.clone()).expect("cast");
                let _ = &n;
                f.push(("statements", n.statements().map(|c| desc(c.syntax())).collect()));
            }
            SyntaxKind::Include => {
                let n = ast::Include::cast(node.clone()).expect("cast");
                let _ = &n;
                f.push(("path", n.path().map(|c| desc(c.syntax())).into_iter().collect()));
            }
            SyntaxKind::Class => {
                let n = ast::Class::cast(node.clone()).expect("cast");
                let _ = &n;
                f.push(("name", n.name().map(|c| desc(c.syntax())).into_iter().collect()));
                f.push(("template_arg_list", n.template_arg_list().map(|c| desc(c.syntax())).into_iter().collect()));
                f.push(("record_body", n.record_body().map(|c| desc(c.syntax())).into_iter().collect()));
            }
            SyntaxKind::Def => {
                let n = ast::Def::cast(node.clone()).expect("cast");
                let _ = &n;
                f.push(("name", n.name().map(|c| desc(c.syntax())).into_iter().collect()));
                f.push(("record_body", n.record_body().map(|c| desc(c.syntax())).into_iter().collect()));
            }
            SyntaxKind::Let => {
                let n = ast::Let::cast(node.clone()).expect("cast");
                let _ = &n;
                f.push(("let_list", n.let_list().map(|c| desc(c.syntax())).into_iter().collect()));
                f.push(("statement_list", n.statement_list().map(|c| desc(c.syntax())).into_iter().collect()));
            }
            SyntaxKind::LetList => {
                let n = ast::LetList::cast(node.clone()).expect("cast");
                let _ = &n;
                f.push(("items", n.items().map(|c| desc(c.syntax())).collect()));
            }
            SyntaxKind::LetItem => {
                let n = ast::LetItem::cast(node.clone()).expect("cast");
                let _ = &n;
                f.push(("name", n.name().map(|c| desc(c.syntax())).into_iter().collect()));
                f.push(("range_list", n.range_list().map(|c| desc(c.syntax())).into_iter().collect()));
                f.push(("value", n.value().map(|c| desc(c.syntax())).into_iter().collect()));
            }
            SyntaxKind::MultiClass => {
                let n = ast::MultiClass::cast(node.clone()).expect("cast");
                let _ = &n;
                f.push(("name", n.name().map(|c| desc(c.syntax())).into_iter().collect()));
                f.push(("template_arg_list", n.template_arg_list().map(|c| desc(c.syntax())).into_iter().collect()));
                f.push(("parent_class_list", n.parent_class_list().map(|c| desc(c.syntax())).into_iter().collect()));
                f.push(("statement_list", n.statement_list().map(|c| desc(c.syntax())).into_iter().collect()));
            }
            SyntaxKind::Defm => {
                let n = ast::Defm::cast(node.clone()).expect("cast");
                let _ = &n;
                f.push(("name", n.name().map(|c| desc(c.syntax())).into_iter().collect()));
                f.push(("parent_class_list", n.parent_class_list().map(|c| desc(c.syntax())).into_iter().collect()));
            }
            SyntaxKind::Defset => {
                let n = ast::Defset::cast(node.clone()).expect("cast");
                let _ = &n;
                f.push(("type", n.r#type().map(|c| desc(c.syntax())).into_iter().collect()));
                f.push(("name", n.name().map(|c| desc(c.syntax())).into_iter().collect()));
                f.push(("statement_list", n.statement_list().map(|c| desc(c.syntax())).into_iter().collect()));
            }
            SyntaxKind::Defvar => {
                let n = ast::Defvar::cast(node.clone()).expect("cast");
                let _ = &n;
                f.push(("name", n.name().map(|c| desc(c.syntax())).into_iter().collect()));
                f.push(("value", n.value().map(|c| desc(c.syntax())).into_iter().collect()));
            }
            SyntaxKind::Dump => {
                let n = ast::Dump::cast(node.clone()).expect("cast");
                let _ = &n;
                f.push(("value", n.value().map(|c| desc(c.syntax())).into_iter().collect()));
            }
            SyntaxKind::Foreach => {
                let n = ast::Foreach::cast(node.clone()).expect("cast");
                let _ = &n;
                f.push(("iterator", n.iterator().map(|c| desc(c.syntax())).into_iter().collect()));
                f.push(("body", n.body().map(|c| desc(c.syntax())).into_iter().collect()));
            }
            SyntaxKind::ForeachIterator => {
                let n = ast::ForeachIterator::cast(node.clone()).expect("cast");
                let _ = &n;
                f.push(("name", n.name().map(|c| desc(c.syntax())).into_iter().collect()));
                f.push(("init", n.init().map(|c| desc(c.syntax())).into_iter().collect()));
            }
            SyntaxKind::If => {
                let n = ast::If::cast(node.clone()).expect("cast");
                let _ = &n;
                f.push(("condition", n.condition().map(|c| desc(c.syntax())).into_iter().collect()));
                f.push(("then_body", n.then_body().map(|c| desc(c.syntax())).into_iter().collect()));
                f.push(("else_body", n.else_body().map(|c| desc(c.syntax())).into_iter().collect()));
            }
            SyntaxKind::Assert => {
                let n = ast::Assert::cast(node.clone()).expect("cast");
                let _ = &n;
                f.push(("condition", n.condition().map(|c| desc(c.syntax())).into_iter().collect()));
                f.push(("message", n.message().map(|c| desc(c.syntax())).into_iter().collect()));
            }
            SyntaxKind::TemplateArgList => {
                let n = ast::TemplateArgList::cast(node.clone()).expect("cast");
                let _ = &n;
                f.push(("args", n.args().map(|c| desc(c.syntax())).collect()));
            }
            SyntaxKind::TemplateArgDecl => {
                let n = ast::TemplateArgDecl::cast(node.clone()).expect("cast");
                let _ = &n;
                f.push(("type", n.r#type().map(|c| desc(c.syntax())).into_iter().collect()));
                f.push(("name", n.name().map(|c| desc(c.syntax())).into_iter().collect()));
                f.push(("value", n.value().map(|c| desc(c.syntax())).into_iter().collect()));
            }
            SyntaxKind::RecordBody => {
                let n = ast::RecordBody::cast(node.clone()).expect("cast");
                let _ = &n;
                f.push(("parent_class_list", n.parent_class_list().map(|c| desc(c.syntax())).into_iter().collect()));
                f.push(("body", n.body().map(|c| desc(c.syntax())).into_iter().collect()));
            }
            SyntaxKind::ParentClassList => {
                let n = ast::ParentClassList::cast(node.clone()).expect("cast");
                let _ = &n;
                f.push(("classes", n.classes().map(|c| desc(c.syntax())).collect()));
            }
            SyntaxKind::ClassRef => {
                let n = ast::ClassRef::cast(node.clone()).expect("cast");
                let _ = &n;
                f.push(("name", n.name().map(|c| desc(c.syntax())).into_iter().collect()));
                f.push(("arg_value_list", n.arg_value_list().map(|c| desc(c.syntax())).into_iter().collect()));
            }
            SyntaxKind::ArgValueList => {
                let n = ast::ArgValueList::cast(node.clone()).expect("cast");
                let _ = &n;
                f.push(("arg_values", n.arg_values().map(|c| desc(c.syntax())).collect()));
            }
            SyntaxKind::PositionalArgValue => {
                let n = ast::PositionalArgValue::cast(node.clone()).expect("cast");
                let _ = &n;
                f.push(("value", n.value().map(|c| desc(c.syntax())).into_iter().collect()));
            }
            SyntaxKind::NamedArgValue => {
                let n = ast::NamedArgValue::cast(node.clone()).expect("cast");
                let _ = &n;
                f.push(("name", n.name().map(|c| desc(c.syntax())).into_iter().collect()));
                f.push(("value", n.value().map(|c| desc(c.syntax())).into_iter().collect()));
            }
            SyntaxKind::Body => {
                let n = ast::Body::cast(node.clone()).expect("cast");
                let _ = &n;
                f.push(("items", n.items().map(|c| desc(c.syntax())).collect()));
            }
            SyntaxKind::FieldDef => {
                let n = ast::FieldDef::cast(node.clone()).expect("cast");
                let _ = &n;
                f.push(("type", n.r#type().map(|c| desc(c.syntax())).into_iter().collect()));
                f.push(("name", n.name().map(|c| desc(c.syntax())).into_iter().collect()));
                f.push(("value", n.value().map(|c| desc(c.syntax())).into_iter().collect()));
            }
            SyntaxKind::FieldLet => {
                let n = ast::FieldLet::cast(node.clone()).expect("cast");
                let _ = &n;
                f.push(("name", n.name().map(|c| desc(c.syntax())).into_iter().collect()));
                f.push(("value", n.value().map(|c| desc(c.syntax())).into_iter().collect()));
            }
            SyntaxKind::BitType => {
                let n = ast::BitType::cast(node.clone()).expect("cast");
                let _ = &n;

            }
            SyntaxKind::IntType => {
                let n = ast::IntType::cast(node.clone()).expect("cast");
                let _ = &n;

            }
            SyntaxKind::StringType => {
                let n = ast::StringType::cast(node.clone()).expect("cast");
                let _ = &n;

            }
            SyntaxKind::DagType => {
                let n = ast::DagType::cast(node.clone()).expect("cast");
                let _ = &n;

            }
            SyntaxKind::BitsType => {
                let n = ast::BitsType::cast(node.clone()).expect("cast");
                let _ = &n;
                f.push(("length", n.length().map(|c| desc(c.syntax())).into_iter().collect()));
            }
            SyntaxKind::ListType => {
                let n = ast::ListType::cast(node.clone()).expect("cast");
                let _ = &n;
                f.push(("inner_type", n.inner_type().map(|c| desc(c.syntax())).into_iter().collect()));
            }
            SyntaxKind::CodeType => {
                let n = ast::CodeType::cast(node.clone()).expect("cast");
                let _ = &n;

            }
            SyntaxKind::ClassId => {
                let n = ast::ClassId::cast(node.clone()).expect("cast");
                let _ = &n;
                f.push(("name", n.name().map(|c| desc(c.syntax())).into_iter().collect()));
            }
            SyntaxKind::Value => {
                let n = ast::Value::cast(node.clone()).expect("cast");
                let _ = &n;
                f.push(("inner_values", n.inner_values().map(|c| desc(c.syntax())).collect()));
            }
            SyntaxKind::InnerValue => {
                let n = ast::InnerValue::cast(node.clone()).expect("cast");
                let _ = &n;
                f.push(("simple_value", n.simple_value().map(|c| desc(c.syntax())).into_iter().collect()));
                f.push(("suffixes", n.suffixes().map(|c| desc(c.syntax())).collect()));
            }
            SyntaxKind::RangeSuffix => {
                let n = ast::RangeSuffix::cast(node.clone()).expect("cast");
                let _ = &n;
                f.push(("range_list", n.range_list().map(|c| desc(c.syntax())).into_iter().collect()));
            }
            SyntaxKind::RangeList => {
                let n = ast::RangeList::cast(node.clone()).expect("cast");
                let _ = &n;
                f.push(("pieces", n.pieces().map(|c| desc(c.syntax())).collect()));
            }
            SyntaxKind::RangePiece => {
                let n = ast::RangePiece::cast(node.clone()).expect("cast");
                let _ = &n;
                f.push(("start", n.start().map(|c| desc(c.syntax())).into_iter().collect()));
                f.push(("end", n.end().map(|c| desc(c.syntax())).into_iter().collect()));
            }
            SyntaxKind::SliceSuffix => {
                let n = ast::SliceSuffix::cast(node.clone()).expect("cast");
                let _ = &n;
                f.push(("element_list", n.element_list().map(|c| desc(c.syntax())).into_iter().collect()));
            }
            SyntaxKind::SliceElements => {
                let n = ast::SliceElements::cast(node.clone()).expect("cast");
                let _ = &n;
                f.push(("elements", n.elements().map(|c| desc(c.syntax())).collect()));
            }
            SyntaxKind::SliceElement => {
                let n = ast::SliceElement::cast(node.clone()).expect("cast");
                let _ = &n;
                f.push(("start", n.start().map(|c| desc(c.syntax())).into_iter().collect()));
                f.push(("end", n.end().map(|c| desc(c.syntax())).into_iter().collect()));
            }
            SyntaxKind::FieldSuffix => {
                let n = ast::FieldSuffix::cast(node.clone()).expect("cast");
                let _ = &n;
                f.push(("name", n.name().map(|c| desc(c.syntax())).into_iter().collect()));
            }
            SyntaxKind::Integer => {
                let n = ast::Integer::cast(node.clone()).expect("cast");
                let _ = &n;

            }
            SyntaxKind::String => {
                let n = ast::String::cast(node.clone()).expect("cast");
                let _ = &n;

            }
            SyntaxKind::Code => {
                let n = ast::Code::cast(node.clone()).expect("cast");
                let _ = &n;

            }
            SyntaxKind::Boolean => {
                let n = ast::Boolean::cast(node.clone()).expect("cast");
                let _ = &n;

            }
            SyntaxKind::Uninitialized => {
                let n = ast::Uninitialized::cast(node.clone()).expect("cast");
                let _ = &n;

            }
            SyntaxKind::Bits => {
                let n = ast::Bits::cast(node.clone()).expect("cast");
                let _ = &n;
                f.push(("value_list", n.value_list().map(|c| desc(c.syntax())).into_iter().collect()));
            }
            SyntaxKind::List => {
                let n = ast::List::cast(node.clone()).expect("cast");
                let _ = &n;
                f.push(("value_list", n.value_list().map(|c| desc(c.syntax())).into_iter().collect()));
            }
            SyntaxKind::ValueList => {
                let n = ast::ValueList::cast(node.clone()).expect("cast");
                let _ = &n;
                f.push(("values", n.values().map(|c| desc(c.syntax())).collect()));
            }
            SyntaxKind::Dag => {
                let n = ast::Dag::cast(node.clone()).expect("cast");
                let _ = &n;
                f.push(("operator", n.operator().map(|c| desc(c.syntax())).into_iter().collect()));
                f.push(("arg_list", n.arg_list().map(|c| desc(c.syntax())).into_iter().collect()));
            }
            SyntaxKind::DagArgList => {
                let n = ast::DagArgList::cast(node.clone()).expect("cast");
                let _ = &n;
                f.push(("args", n.args().map(|c| desc(c.syntax())).collect()));
            }
            SyntaxKind::DagArg => {
                let n = ast::DagArg::cast(node.clone()).expect("cast");
                let _ = &n;
                f.push(("value", n.value().map(|c| desc(c.syntax())).into_iter().collect()));
                f.push(("var_name", n.var_name().map(|c| desc(c.syntax())).into_iter().collect()));
            }
            SyntaxKind::VarName => {
                let n = ast::VarName::cast(node.clone()).expect("cast");
                let _ = &n;

            }
            SyntaxKind::Identifier => {
                let n = ast::Identifier::cast(node.clone()).expect("cast");
                let _ = &n;

            }
            SyntaxKind::ClassValue => {
                let n = ast::ClassValue::cast(node.clone()).expect("cast");
                let _ = &n;
                f.push(("name", n.name().map(|c| desc(c.syntax())).into_iter().collect()));
                f.push(("arg_value_list", n.arg_value_list().map(|c| desc(c.syntax())).into_iter().collect()));
            }
            SyntaxKind::BangOperator => {
                let n = ast::BangOperator::cast(node.clone()).expect("cast");
                let _ = &n;
                f.push(("type", n.r#type().map(|c| desc(c.syntax())).into_iter().collect()));
                f.push(("values", n.values().map(|c| desc(c.syntax())).collect()));
            }
            SyntaxKind::CondOperator => {
                let n = ast::CondOperator::cast(node.clone()).expect("cast");
                let _ = &n;
                f.push(("clauses", n.clauses().map(|c| desc(c.syntax())).collect()));
            }
            SyntaxKind::CondClause => {
                let n = ast::CondClause::cast(node.clone()).expect("cast");
                let _ = &n;
                f.push(("condition", n.condition().map(|c| desc(c.syntax())).into_iter().collect()));
                f.push(("value", n.value().map(|c| desc(c.syntax())).into_iter().collect()));
            }
            _ => {}
        }
        let r = node.text_range();
        let fields: Vec<Value> = f.into_iter().map(|(k, v)| json!([k, v])).collect();
        out.push(json!([format!("{:?}", node.kind()), u32::from(r.start()), u32::from(r.end()), fields]));
    }
    out
}

fn main() {
    vharness::quiet_panics();
    let cases = vharness::read_cases();
    let mut out = Vec::new();
    for text in cases {
        let t2 = text.clone();
        let h = std::thread::Builder::new()
            .stack_size(16 * 1024 * 1024)
            .spawn(move || {
                vharness::guarded(move || {
                    let p = syntax::parse(&t2);
                    let root = p.syntax_node();
                    json!({"errors": p.errors().len(), "nodes": walk(&root)})
                })
            })
            .unwrap();
        match h.join() {
            Ok(Ok(v)) => out.push(v),
            Ok(Err(m)) => out.push(json!({"panic": m})),
            Err(_) => out.push(json!({"panic": "thread"})),
        }
    }
    println!("{}", Value::Array(out));
}
