//! hostdrive (C16, C07, C12): memfs mode of hostcommon/mod.rs (protocol documented there): the real
//! `collect_sources` / salsa inputs / handlers / `AnalysisHost` over the in-memory `vharness::memfs::MemFs`.
//! Depends on the `ide` crate only.  The vfs mode (real `lsp::vfs::Vfs`) is the bin `vfsdrive`.
#[path = "hostcommon/mod.rs"]
mod hostcommon;

use ide::file_system::{FileId, FilePath, FileSystem};
use vharness::memfs::MemFs;

/// placeholder for the "real" file system: the vfs mode is not available in this bin
struct NoReal(MemFs);

impl FileSystem for NoReal {
    fn assign_or_get_file_id(&mut self, path: FilePath) -> FileId {
        self.0.assign_or_get_file_id(path)
    }
    fn path_for_file(&self, file_id: &FileId) -> &FilePath {
        self.0.path_for_file(file_id)
    }
    fn read_content(&self, file_path: &FilePath) -> Option<String> {
        self.0.read_content(file_path)
    }
}

impl hostcommon::RealFs for NoReal {
    fn new_real() -> Self {
        panic!("vfs mode: use the bin vfsdrive")
    }
    fn open_document(&mut self, _path: FilePath, _text: String) {}
}

fn main() {
    hostcommon::main_with::<NoReal>();
}
