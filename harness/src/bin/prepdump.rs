//! prepdump: preprocessed token stream `[[kind, start, end, err|null], ...]` of
//! PreProcessor<Lexer>, taking the pending error for every Error token exactly as
//! ParserBase::save does; plus the final macro set (sorted).
use syntax::lexer::Lexer;
use syntax::preprocessor::PreProcessor;
use syntax::token_kind::TokenKind;
use syntax::token_stream::TokenStream;

fn main() {
    vharness::quiet_panics();
    let cases = vharness::read_cases();
    let mut out = Vec::new();
    for text in cases {
        let r = vharness::guarded(|| {
            let mut p = PreProcessor::new(Lexer::new(&text));
            let mut toks = Vec::new();
            loop {
                let s = p.cursor();
                let k = p.eat();
                let e = p.cursor();
                let err = if k == TokenKind::Error { Some(p.take_error().map(|x| x.to_string())) } else { None };
                toks.push(serde_json::json!([format!("{:?}", k), s, e, err]));
                if k == TokenKind::Eof || toks.len() > text.len() + 4 {
                    break;
                }
            }
            let mut macros: Vec<String> = p.macros().iter().map(|m| m.to_string()).collect();
            macros.sort();
            serde_json::json!({"tokens": toks, "macros": macros})
        });
        match r {
            Ok(t) => out.push(t),
            Err(m) => out.push(serde_json::json!({"panic": m})),
        }
    }
    println!("{}", serde_json::Value::Array(out));
}
