//! idedump: runs every ide-level query on in-memory workspaces and prints canonical JSON.
//! stdin: JSON array of workspaces
//!   {"files": [[path, text], ...], "root": path,
//!    "offsets": "all" | "none" | [[path, off], ...],          (default all char-boundary offsets 0..=len)
//!    "hint_ranges": "full" | "all" | [[path, lo, hi], ...],   (default "full": one request for 0..len per file)
//!    "completion": bool (default true)}
//! stdout: JSON array, one object per workspace (or {"panic": msg}).
//! Per-offset results are run-length compressed: an entry is emitted only when it differs from the
//! previous offset's entry of the same file ("o" is the first offset of the run).
use ide::analysis::{Analysis, AnalysisHost};
use ide::file_system::{FileId, FilePosition, FileRange};
use ide::handlers::document_symbol::DocumentSymbol;
use serde_json::{json, Value};
use std::collections::BTreeMap;
use std::sync::Arc;
use syntax::parser::{TextRange, TextSize};
use vharness::memfs::MemFs;

fn sym(s: &DocumentSymbol) -> Value {
    json!({"name": s.name.to_string(), "typ": s.typ.to_string(), "kind": format!("{:?}", s.kind),
           "range": [u32::from(s.range.start()), u32::from(s.range.end())],
           "children": s.children.iter().map(sym).collect::<Vec<_>>()})
}

fn fr(fs: &MemFs, r: &FileRange) -> Value {
    json!([fs.path_str(&r.file), u32::from(r.range.start()), u32::from(r.range.end())])
}

fn run(ws: &Value) -> Value {
    let mut fs = MemFs::new();
    let files = ws["files"].as_array().expect("files");
    let mut paths: Vec<String> = Vec::new();
    for f in files {
        let p = f[0].as_str().unwrap();
        fs.set(p, f[1].as_str().unwrap());
        paths.push(p.to_string());
    }
    let root = ws["root"].as_str().expect("root");
    let mut host = AnalysisHost::new();
    let root_id = fs.id(root);
    let root_text = fs.contents.get(&MemFs::path(root)).cloned().unwrap_or_default();
    host.set_file_content(root_id, Arc::from(root_text.as_str()));
    host.set_root_file(&mut fs, root_id);
    let a: Analysis = host.analysis();

    let mut out = serde_json::Map::new();
    // diagnostics (also gives the workspace file set)
    let diags = a.diagnostics();
    let mut dj: BTreeMap<String, Vec<Value>> = BTreeMap::new();
    let mut ws_files: Vec<FileId> = diags.keys().copied().collect();
    ws_files.sort();
    for (fid, ds) in &diags {
        let mut v: Vec<(u32, u32, String)> = ds
            .iter()
            .map(|d| (u32::from(d.location.range.start()), u32::from(d.location.range.end()), d.message.clone()))
            .collect();
        v.sort();
        dj.insert(fs.path_str(fid), v.into_iter().map(|(a, b, m)| json!([a, b, m])).collect());
    }
    out.insert("diagnostics".into(), json!(dj));
    out.insert("workspace".into(), json!(ws_files.iter().map(|f| fs.path_str(f)).collect::<Vec<_>>()));

    let do_completion = ws.get("completion").and_then(|v| v.as_bool()).unwrap_or(true);
    let mut symbols = serde_json::Map::new();
    let mut folding = serde_json::Map::new();
    let mut links = serde_json::Map::new();
    let mut at = serde_json::Map::new();
    let mut hints = serde_json::Map::new();
    let mut texts = serde_json::Map::new();
    for fid in &ws_files {
        let p = fs.path_str(fid);
        let text: String = fs.contents.get(&MemFs::path(&p)).cloned().unwrap_or_default();
        let text = if *fid == root_id { root_text.clone() } else { text };
        texts.insert(p.clone(), json!(text.len()));
        symbols.insert(p.clone(), match a.document_symbol(*fid) {
            Some(v) => Value::Array(v.iter().map(sym).collect()),
            None => Value::Null,
        });
        folding.insert(p.clone(), match a.folding_range(*fid) {
            Some(v) => Value::Array(v.iter().map(|r| json!([u32::from(r.range.start()), u32::from(r.range.end())])).collect()),
            None => Value::Null,
        });
        links.insert(p.clone(), match a.document_link(*fid) {
            Some(v) => Value::Array(v.iter().map(|l| json!([u32::from(l.range.start()), u32::from(l.range.end()), fs.path_str(&l.target)])).collect()),
            None => Value::Null,
        });
        // offsets
        let offs: Vec<u32> = match ws.get("offsets") {
            Some(Value::String(s)) if s == "none" => vec![],
            Some(Value::Array(v)) => v.iter().filter(|x| x[0].as_str() == Some(p.as_str())).map(|x| x[1].as_u64().unwrap() as u32).collect(),
            _ => (0..=text.len()).filter(|i| text.is_char_boundary(*i)).map(|i| i as u32).collect(),
        };
        let mut runs: Vec<Value> = Vec::new();
        let mut prev: Option<Value> = None;
        for o in offs {
            let pos = FilePosition::new(*fid, TextSize::from(o));
            let def = a.goto_definition(pos).map(|r| fr(&fs, &r));
            let refs = a.references(pos).map(|v| Value::Array(v.iter().map(|r| fr(&fs, r)).collect()));
            let hov = a.hover(pos).map(|h| json!({"sig": h.signature, "doc": h.document}));
            let mut e = json!({"def": def, "refs": refs, "hover": hov});
            if do_completion {
                let c0 = a.completion(pos, None).map(|v| {
                    Value::Array(v.iter().map(|i| json!([i.label, i.insert_text_snippet, format!("{:?}", i.kind)])).collect())
                });
                let c1 = a.completion(pos, Some("!".to_string())).map(|v| {
                    Value::Array(v.iter().map(|i| json!([i.label, i.insert_text_snippet, format!("{:?}", i.kind)])).collect())
                });
                e["comp"] = json!(c0);
                e["compbang"] = json!(c1);
            }
            if prev.as_ref() != Some(&e) {
                let mut r = e.clone();
                r["o"] = json!(o);
                runs.push(r);
                prev = Some(e);
            }
        }
        at.insert(p.clone(), Value::Array(runs));
        // inlay hints
        let ranges: Vec<(u32, u32)> = match ws.get("hint_ranges") {
            Some(Value::String(s)) if s == "all" => {
                let b: Vec<u32> = (0..=text.len()).filter(|i| text.is_char_boundary(*i)).map(|i| i as u32).collect();
                let mut v = Vec::new();
                for (i, lo) in b.iter().enumerate() {
                    for hi in &b[i..] {
                        v.push((*lo, *hi));
                    }
                }
                v
            }
            Some(Value::Array(v)) => v.iter().filter(|x| x[0].as_str() == Some(p.as_str())).map(|x| (x[1].as_u64().unwrap() as u32, x[2].as_u64().unwrap() as u32)).collect(),
            _ => vec![(0, text.len() as u32)],
        };
        let mut hv: Vec<Value> = Vec::new();
        for (lo, hi) in ranges {
            let r = FileRange::new(*fid, TextRange::new(TextSize::from(lo), TextSize::from(hi)));
            let h = a.inlay_hint(r).map(|v| {
                Value::Array(v.iter().map(|h| json!([u32::from(h.position), h.label, format!("{:?}", h.kind)])).collect())
            });
            hv.push(json!([lo, hi, h]));
        }
        hints.insert(p.clone(), Value::Array(hv));
    }
    out.insert("len".into(), Value::Object(texts));
    out.insert("symbols".into(), Value::Object(symbols));
    out.insert("folding".into(), Value::Object(folding));
    out.insert("links".into(), Value::Object(links));
    out.insert("at".into(), Value::Object(at));
    out.insert("hints".into(), Value::Object(hints));
    Value::Object(out)
}

fn main() {
    vharness::quiet_panics();
    let input: Value = serde_json::from_str(&vharness::read_stdin()).expect("json");
    let mut res = Vec::new();
    for ws in input.as_array().expect("array") {
        let w = ws.clone();
        // 2 MiB stack like a tokio worker; a stack overflow aborts the process (the driver bisects)
        let h = std::thread::Builder::new()
            .stack_size(2 * 1024 * 1024)
            .spawn(move || vharness::guarded(move || run(&w)))
            .unwrap();
        match h.join() {
            Ok(Ok(v)) => res.push(v),
            Ok(Err(m)) => res.push(json!({"panic": m})),
            Err(_) => res.push(json!({"panic": "thread"})),
        }
    }
    println!("{}", Value::Array(res));
}
