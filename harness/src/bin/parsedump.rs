//! parsedump: for every input text prints the rowan tree and the syntax errors of syntax::parse.
//! node = ["N", kind, lo, hi, [children]], token = ["T", kind, lo, hi];
//! output object: {"tree": node, "errors": [[lo, hi, msg], ...], "text_ok": tree.text()==input, "parse_us": wall time of syntax::parse}
//! `--timeout-ms N` (default 20000): per-case watchdog, see main.
//! with `--stats`: {"nodes": n, "nleaves": n, "nerrors": n, "parse_us": t} only.
//! with `--flat`: {"leaves": [[kind, lo, hi], ...], "nodes": n, "errors": ..., "text_ok": ..}
use serde_json::{json, Value};
use syntax::{SyntaxElement, SyntaxNode};

fn node(n: &SyntaxNode) -> Value {
    let r = n.text_range();
    let kids: Vec<Value> = n
        .children_with_tokens()
        .map(|c| match c {
            SyntaxElement::Node(m) => node(&m),
            SyntaxElement::Token(t) => {
                let r = t.text_range();
                json!(["T", format!("{:?}", t.kind()), u32::from(r.start()), u32::from(r.end())])
            }
        })
        .collect();
    json!(["N", format!("{:?}", n.kind()), u32::from(r.start()), u32::from(r.end()), kids])
}

fn main() {
    vharness::quiet_panics();
    let args: Vec<String> = std::env::args().collect();
    let flat = args.iter().any(|a| a == "--flat");
    // --stats: only counts and the parse time (for large scaling inputs)
    let stats = args.iter().any(|a| a == "--stats");
    // per-case watchdog: a parse that does not return within the limit is reported as {"timeout": ms} and the
    // process stops there (the runaway thread cannot be cancelled); the caller resumes with the remaining cases.
    let timeout_ms: u64 = args
        .iter()
        .position(|a| a == "--timeout-ms")
        .and_then(|i| args.get(i + 1))
        .and_then(|v| v.parse().ok())
        .unwrap_or(20_000);
    let cases = vharness::read_cases();
    let mut out = Vec::new();
    for text in cases {
        let t2 = text.clone();
        let (tx, rx) = std::sync::mpsc::channel();
        let h = std::thread::Builder::new()
            .stack_size(8 * 1024 * 1024)
            .spawn(move || {
                let r = vharness::guarded(move || {
                    let started = std::time::Instant::now();
                    let p = syntax::parse(&t2);
                    let parse_us = started.elapsed().as_micros() as u64;
                    let root = p.syntax_node();
                    if stats {
                        let mut nodes = 0u64;
                        let mut leaves = 0u64;
                        for e in root.descendants_with_tokens() {
                            match e {
                                SyntaxElement::Node(_) => nodes += 1,
                                SyntaxElement::Token(_) => leaves += 1,
                            }
                        }
                        return json!({"nodes": nodes, "nleaves": leaves, "nerrors": p.errors().len(), "parse_us": parse_us});
                    }
                    let errors: Vec<Value> = p
                        .errors()
                        .iter()
                        .map(|e| json!([u32::from(e.range.start()), u32::from(e.range.end()), e.message]))
                        .collect();
                    let text_ok = root.text().to_string() == t2;
                    if flat {
                        let mut leaves = Vec::new();
                        let mut nodes = 0u32;
                        for e in root.descendants_with_tokens() {
                            match e {
                                SyntaxElement::Node(_) => nodes += 1,
                                SyntaxElement::Token(t) => {
                                    let r = t.text_range();
                                    leaves.push(json!([format!("{:?}", t.kind()), u32::from(r.start()), u32::from(r.end())]));
                                }
                            }
                        }
                        json!({"leaves": leaves, "nodes": nodes, "errors": errors, "text_ok": text_ok, "parse_us": parse_us})
                    } else {
                        json!({"tree": node(&root), "errors": errors, "text_ok": text_ok, "parse_us": parse_us})
                    }
                });
                let _ = tx.send(r);
            })
            .unwrap();
        match rx.recv_timeout(std::time::Duration::from_millis(timeout_ms)) {
            Ok(Ok(v)) => {
                let _ = h.join();
                out.push(v)
            }
            Ok(Err(m)) => {
                let _ = h.join();
                out.push(json!({"panic": m}))
            }
            Err(std::sync::mpsc::RecvTimeoutError::Timeout) => {
                out.push(json!({"timeout": timeout_ms}));
                println!("{}", Value::Array(out));
                use std::io::Write;
                let _ = std::io::stdout().flush();
                std::process::exit(0);
            }
            Err(_) => {
                // the thread died without sending (stack overflow aborts the whole process before this point)
                let _ = h.join();
                out.push(json!({"panic": "thread"}))
            }
        }
    }
    println!("{}", Value::Array(out));
}
