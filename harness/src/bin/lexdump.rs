//! lexdump: for every input text prints the raw lexer token stream
//! `[[kind, start, end, err|null], ...]` (TokenStream API of syntax::lexer::Lexer).
use syntax::lexer::Lexer;
use syntax::token_kind::TokenKind;
use syntax::token_stream::TokenStream;

fn main() {
    vharness::quiet_panics();
    let cases = vharness::read_cases();
    let mut out = Vec::new();
    for text in cases {
        let r = vharness::guarded(|| {
            let mut l = Lexer::new(&text);
            let mut toks = Vec::new();
            loop {
                let s = l.cursor();
                let k = l.eat();
                let e = l.cursor();
                let err = if k == TokenKind::Error { l.take_error().map(|x| x.to_string()) } else { None };
                toks.push(serde_json::json!([format!("{:?}", k), s, e, err]));
                if k == TokenKind::Eof || toks.len() > text.len() + 2 {
                    break;
                }
            }
            toks
        });
        match r {
            Ok(t) => out.push(serde_json::json!({"tokens": t})),
            Err(m) => out.push(serde_json::json!({"panic": m})),
        }
    }
    println!("{}", serde_json::Value::Array(out));
}
