//! unidump: range tables of the two non-ASCII predicates the lexer uses, taken from the
//! `std` the repository is compiled with.
fn ranges(p: impl Fn(char) -> bool) -> Vec<(u32, u32)> {
    let mut out = Vec::new();
    let mut cur: Option<(u32, u32)> = None;
    for cp in 0u32..=0x10FFFF {
        let ok = char::from_u32(cp).map(|c| p(c)).unwrap_or(false);
        match (ok, cur) {
            (true, None) => cur = Some((cp, cp)),
            (true, Some((a, _))) => cur = Some((a, cp)),
            (false, Some(r)) => {
                out.push(r);
                cur = None;
            }
            (false, None) => {}
        }
    }
    if let Some(r) = cur {
        out.push(r);
    }
    out
}
fn main() {
    let ws = ranges(|c| c.is_whitespace());
    let al = ranges(|c| c.is_alphabetic());
    println!("{}", serde_json::json!({"whitespace": ws, "alphabetic": al}));
}
