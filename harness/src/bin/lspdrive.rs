//! lspdrive: drives the REAL `lsp::server::Server` in-process over an in-memory duplex transport
//! (same tower layer stack as crates/lsp/src/main.rs) and prints an ordered JSON log of everything
//! the server sent.  A hang is an observation (`timeout` entries), never a harness hang: every wait
//! has a watchdog, the whole session has a hard wall-clock limit, and the process leaves through
//! `process::exit` so that threads parked in a deadlock cannot keep it alive.
//!
//! stdin: one JSON session script
//!   {"files_on_disk": [[relpath, text], ...],          written under a per-run temp dir (removed at exit)
//!    "workspace_subdir": "w #1",                       the workspace root is <temp dir>/<this> (any characters; default: the temp dir)
//!    "raw_uris": true,                                 URIs are reported verbatim instead of as workspace-relative paths
//!    "mode": "settled" | "burst",                      settled = wait until idle after every step
//!    "steps": [{"open": relpath, "text": t} | {"change": relpath, "text": t}
//!              | {"request": kind, "path": relpath, "line": l, "character": c}
//!              | {"request": "inlayHint", "path": relpath, "range": [l0, c0, l1, c1]}
//!              | {"change": relpath, "texts": [t1, t2, ..]}   ONE didChange with several full-text contentChanges entries
//!              | {"change_empty": relpath}                 didChange with contentChanges: [] (schema-legal; no diagnostics follow)
//!              | {"close": relpath}                        didClose (an "open" of the same path afterwards restarts its version at 1)
//!              | {"write_disk": relpath, "text": t}        (rewrites a file of the temp workspace; no message is sent)
//!              | {"wait_idle": true} | {"sleep_ms": n}],
//!    "watchdog_ms": 10000, "quiet_ms": 300, "hard_ms": 120000,
//!    "holds": [{"point": p, "until": q, "max_ms": 400,    (only with hook H2 compiled in) a thread reaching hook
//!               "arm_after_step": i, "skip": k, "count": n}]}   (the first k armed occurrences pass freely)         point p is parked until point q is reached by anybody
//!                                                          or max_ms elapse; armed once step i has been sent
//!                                                          (default: from the start); at most n times (default: always)
//!   kinds: definition references hover completion documentSymbol foldingRange documentLink inlayHint
//! stdout: {"hooks": bool, "root": <absolute workspace root>, "log": [...], "timed_out": bool, "unanswered": [ids], "server_exited": bool}
//!   log entries: {"ev":"sent","step":i,...} {"ev":"response","id":..,"kind":..,"elapsed_ms":..,"result"|"error":..}
//!   {"ev":"publish","path":rel,"version":v,"diagnostics":[{"range":[l0,c0,l1,c1],"message":m}]}
//!   {"ev":"timeout","waiting_for":{...}} {"ev":"idle"} {"ev":"sync","thread":n,"point":p} (hooks)
//! Idle (no hooks): every request answered, a publication with the version of the last notification seen,
//! and nothing received or sent for quiet_ms (heuristic).  Idle (hooks): every request answered, no live
//! snapshot task, every notification's diagnostics task spawned, then a marker notification pushed through the
//! server's own ClientSocket (FIFO with the publications) has come back (exact, independent of what is published).
use std::collections::{BTreeMap, HashMap};
use std::io::Read;
use std::path::{Path, PathBuf};
use std::sync::{Arc, Mutex};
use std::time::{Duration, Instant};

use async_lsp::client_monitor::ClientProcessMonitorLayer;
use async_lsp::concurrency::ConcurrencyLayer;
use async_lsp::lsp_types::Url;
use async_lsp::server::LifecycleLayer;
use async_lsp::tracing::TracingLayer;
use serde_json::{json, Value};
use tokio::io::{AsyncReadExt, AsyncWriteExt};
use tokio_util::compat::{TokioAsyncReadCompatExt, TokioAsyncWriteCompatExt};
use tower::ServiceBuilder;

use lsp::server::Server;

struct Shared {
    t0: Instant,
    log: Mutex<Vec<Value>>,
    root: PathBuf,
    run_dir: PathBuf,
    raw_uris: bool,
    done: Mutex<bool>,
}

impl Shared {
    fn push(&self, mut v: Value) {
        v["t_ms"] = json!(self.t0.elapsed().as_millis() as u64);
        self.log.lock().unwrap().push(v);
    }
}

#[cfg(tablegen_lsp_verif)]
mod hooks {
    use super::*;
    use std::sync::Condvar;

    pub struct Hold {
        pub point: String,
        pub until: String,
        pub max_ms: u64,
        pub arm_after_step: i64,
        pub count: i64,
        pub used: std::sync::atomic::AtomicI64,
        pub skip: i64,
        pub seen: std::sync::atomic::AtomicI64,
    }

    #[derive(Default)]
    pub struct HookState {
        pub counts: HashMap<&'static str, u64>,
        pub threads: HashMap<std::thread::ThreadId, u64>,
        pub live: i64,
        pub in_update: bool,
        pub diag_spawned: i64,
    }

    pub struct Hooks {
        pub st: Mutex<HookState>,
        pub cv: Condvar,
        pub holds: Vec<Hold>,
        pub shared: Arc<Shared>,
        pub step: std::sync::atomic::AtomicI64,
    }

    impl Hooks {
        pub fn on_point(&self, point: &'static str) {
            let mut st = self.st.lock().unwrap();
            let n = st.threads.len() as u64;
            let tid = *st.threads.entry(std::thread::current().id()).or_insert(n);
            *st.counts.entry(point).or_insert(0) += 1;
            match point {
                "main.update_diagnostics" => st.in_update = true,
                "main.spawn" => {
                    st.live += 1;
                    if st.in_update {
                        st.in_update = false;
                        st.diag_spawned += 1;
                    }
                }
                "task.end" => st.live -= 1,
                _ => {}
            }
            self.shared.push(json!({"ev": "sync", "thread": tid, "point": point}));
            self.cv.notify_all();
            use std::sync::atomic::Ordering::SeqCst;
            for h in &self.holds {
                if h.point == point
                    && self.step.load(SeqCst) >= h.arm_after_step
                    && h.seen.fetch_add(1, SeqCst) >= h.skip
                    && (h.count < 0 || h.used.fetch_add(1, SeqCst) < h.count)
                {
                    let base = st.counts.get(h.until.as_str()).copied().unwrap_or(0);
                    let deadline = Instant::now() + Duration::from_millis(h.max_ms);
                    self.shared.push(json!({"ev": "held", "thread": tid, "point": point, "until": h.until}));
                    let mut by_event = false;
                    loop {
                        if st.counts.get(h.until.as_str()).copied().unwrap_or(0) > base {
                            by_event = true;
                            break;
                        }
                        let now = Instant::now();
                        if now >= deadline {
                            break;
                        }
                        let (g, _) = self.cv.wait_timeout(st, deadline - now).unwrap();
                        st = g;
                    }
                    self.shared.push(json!({"ev": "released", "thread": tid, "point": point,
                                            "by": if by_event { "event" } else { "timeout" }}));
                }
            }
        }
        pub fn quiescent(&self, notifs_sent: i64) -> bool {
            let st = self.st.lock().unwrap();
            st.live == 0 && st.diag_spawned == notifs_sent && !st.in_update
        }
    }

    pub fn install(shared: Arc<Shared>, script: &Value) -> Arc<Hooks> {
        let mut holds = Vec::new();
        if let Some(hs) = script.get("holds").and_then(|h| h.as_array()) {
            for h in hs {
                holds.push(Hold {
                    point: h["point"].as_str().unwrap_or("").to_string(),
                    until: h["until"].as_str().unwrap_or("").to_string(),
                    max_ms: h["max_ms"].as_u64().unwrap_or(400),
                    arm_after_step: h["arm_after_step"].as_i64().unwrap_or(-1),
                    count: h["count"].as_i64().unwrap_or(-1),
                    used: std::sync::atomic::AtomicI64::new(0),
                    skip: h["skip"].as_i64().unwrap_or(0),
                    seen: std::sync::atomic::AtomicI64::new(0),
                });
            }
        }
        let hooks = Arc::new(Hooks { st: Mutex::new(HookState::default()), cv: Condvar::new(), holds, shared,
                                     step: std::sync::atomic::AtomicI64::new(-1) });
        let h2 = Arc::clone(&hooks);
        lsp::server::verif::set_callback(Box::new(move |p| h2.on_point(p)));
        hooks
    }
}

fn frame(v: &Value) -> Vec<u8> {
    let body = serde_json::to_string(v).unwrap();
    let mut out = format!("Content-Length: {}\r\n\r\n", body.len()).into_bytes();
    out.extend_from_slice(body.as_bytes());
    out
}

async fn read_frame<R: AsyncReadExt + Unpin>(r: &mut R) -> Option<Value> {
    // header
    let mut header = Vec::new();
    loop {
        let mut b = [0u8; 1];
        match r.read_exact(&mut b).await {
            Ok(_) => header.push(b[0]),
            Err(_) => return None,
        }
        if header.ends_with(b"\r\n\r\n") {
            break;
        }
    }
    let h = String::from_utf8_lossy(&header).to_string();
    let mut len = 0usize;
    for line in h.split("\r\n") {
        if let Some(v) = line.to_ascii_lowercase().strip_prefix("content-length:") {
            len = v.trim().parse().ok()?;
        }
    }
    let mut buf = vec![0u8; len];
    r.read_exact(&mut buf).await.ok()?;
    serde_json::from_slice(&buf).ok()
}

static RAW_URIS: std::sync::atomic::AtomicBool = std::sync::atomic::AtomicBool::new(false);

fn rel_of(root: &Path, uri: &str) -> String {
    if RAW_URIS.load(std::sync::atomic::Ordering::SeqCst) {
        return uri.to_string();
    }
    if let Ok(u) = Url::parse(uri) {
        if let Ok(p) = u.to_file_path() {
            if let Ok(r) = p.strip_prefix(root) {
                return r.to_string_lossy().to_string();
            }
            return format!("!outside:{}", p.to_string_lossy());
        }
    }
    format!("!uri:{uri}")
}

/// Rewrites every "uri"/"target" string of a JSON value into a workspace-relative path.
fn relativise(root: &Path, v: &mut Value) {
    match v {
        Value::Object(m) => {
            for (k, x) in m.iter_mut() {
                if (k == "uri" || k == "target") && x.is_string() {
                    let s = x.as_str().unwrap().to_string();
                    *x = json!(rel_of(root, &s));
                } else {
                    relativise(root, x);
                }
            }
        }
        Value::Array(a) => a.iter_mut().for_each(|x| relativise(root, x)),
        _ => {}
    }
}

struct Driver {
    shared: Arc<Shared>,
    rx: tokio::sync::mpsc::UnboundedReceiver<Value>,
    tx_io: tokio::io::WriteHalf<tokio::io::DuplexStream>,
    pending: BTreeMap<i64, (String, Instant, i64)>,
    notifs_sent: i64,
    max_version: i64,
    last_activity: Instant,
    watchdog: Duration,
    quiet: Duration,
    markers_seen: i64,
    markers_sent: i64,
    needs_quiet: bool,
    server_exited: bool,
    timed_out: bool,
    mainloop: tokio::task::JoinHandle<String>,
    #[allow(dead_code)]
    client: async_lsp::ClientSocket,
    #[cfg(tablegen_lsp_verif)]
    hooks: Arc<hooks::Hooks>,
}

impl Driver {
    async fn send(&mut self, v: Value) {
        let _ = self.tx_io.write_all(&frame(&v)).await;
        let _ = self.tx_io.flush().await;
        self.last_activity = Instant::now();
    }

    fn uri(&self, rel: &str) -> String {
        Url::from_file_path(self.shared.root.join(rel)).expect("url").to_string()
    }

    fn handle(&mut self, mut msg: Value) {
        self.last_activity = Instant::now();
        let root = self.shared.root.clone();
        if msg.get("method").is_none() && msg.get("id").is_some() {
            let id = msg["id"].as_i64().unwrap_or(-1);
            let (kind, sent, step) = self.pending.remove(&id).unwrap_or(("?".into(), self.shared.t0, -1));
            let mut e = json!({"ev": "response", "id": id, "kind": kind, "step": step,
                               "elapsed_ms": sent.elapsed().as_millis() as u64});
            if let Some(err) = msg.get("error") {
                e["error"] = err.clone();
            } else {
                let mut r = msg.get_mut("result").map(|r| r.take()).unwrap_or(Value::Null);
                relativise(&root, &mut r);
                e["result"] = r;
            }
            self.shared.push(e);
            return;
        }
        match msg["method"].as_str() {
            Some("textDocument/publishDiagnostics") => {
                let p = &msg["params"];
                let version = p["version"].as_i64().unwrap_or(-1);
                if version > self.max_version {
                    self.max_version = version;
                }
                let diags: Vec<Value> = p["diagnostics"]
                    .as_array()
                    .map(|a| {
                        a.iter()
                            .map(|d| {
                                let r = &d["range"];
                                json!({"range": [r["start"]["line"], r["start"]["character"], r["end"]["line"], r["end"]["character"]],
                                       "message": d["message"]})
                            })
                            .collect()
                    })
                    .unwrap_or_default();
                self.shared.push(json!({"ev": "publish", "path": rel_of(&root, p["uri"].as_str().unwrap_or("")),
                                        "version": p["version"], "diagnostics": diags}));
            }
            Some("window/logMessage") if msg["params"]["message"].as_str().map(|m| m.starts_with("verif-marker")).unwrap_or(false) => {
                self.markers_seen += 1;
            }
            _ => {
                relativise(&root, &mut msg);
                self.shared.push(json!({"ev": "other", "message": msg}));
            }
        }
    }

    /// Processes incoming messages for at most `d`.
    async fn pump(&mut self, d: Duration) {
        let deadline = tokio::time::Instant::now() + d;
        loop {
            match tokio::time::timeout_at(deadline, self.rx.recv()).await {
                Ok(Some(m)) => self.handle(m),
                Ok(None) => {
                    self.server_exited = true;
                    tokio::time::sleep_until(deadline).await;
                    return;
                }
                Err(_) => return,
            }
        }
    }

    fn base_conditions(&self) -> bool {
        self.pending.is_empty() && (self.notifs_sent == 0 || self.max_version >= self.notifs_sent - 1)
    }

    #[cfg(not(tablegen_lsp_verif))]
    async fn settled(&mut self) -> bool {
        // a quiet period is only needed while the diagnostics task of a notification may still be publishing
        self.base_conditions() && (!self.needs_quiet || self.last_activity.elapsed() >= self.quiet)
    }

    #[cfg(tablegen_lsp_verif)]
    async fn settled(&mut self) -> bool {
        use async_lsp::lsp_types::{notification::LogMessage, LogMessageParams, MessageType};
        // exact: every request answered, every notification's diagnostics task spawned, no live task
        // (no assumption on WHAT a task publishes)
        if !(self.pending.is_empty() && self.hooks.quiescent(self.notifs_sent)) {
            return false;
        }
        // everything the tasks published is already queued in the main loop's channel: a marker sent
        // through the same channel comes out after it
        self.markers_sent += 1;
        let _ = self.client.notify::<LogMessage>(LogMessageParams {
            typ: MessageType::LOG,
            message: format!("verif-marker-{}", self.markers_sent),
        });
        let deadline = Instant::now() + self.watchdog;
        while self.markers_seen < self.markers_sent && Instant::now() < deadline {
            self.pump(Duration::from_millis(5)).await;
        }
        self.markers_seen >= self.markers_sent && self.pending.is_empty()
    }

    /// Waits until the server is idle or the watchdog expires; false = timeout (logged).
    async fn wait_idle(&mut self) -> bool {
        let start = Instant::now();
        loop {
            self.pump(Duration::from_millis(10)).await;
            if self.mainloop.is_finished() {
                self.server_exited = true;
            }
            if self.settled().await {
                self.needs_quiet = false;
                self.shared.push(json!({"ev": "idle"}));
                return true;
            }
            let oldest = self.pending.values().map(|(_, t, _)| t.elapsed()).max().unwrap_or_default();
            if start.elapsed() >= self.watchdog || oldest >= self.watchdog || (self.server_exited && start.elapsed() >= Duration::from_millis(500)) {
                let unanswered: Vec<Value> = self.pending.iter().map(|(id, (k, _, s))| json!({"id": id, "kind": k, "step": s})).collect();
                self.shared.push(json!({"ev": "timeout", "waiting_for": {
                    "responses": unanswered,
                    "publish_version": if self.notifs_sent > 0 && self.max_version < self.notifs_sent - 1 { json!(self.notifs_sent - 1) } else { Value::Null },
                    "server_exited": self.server_exited}}));
                self.timed_out = true;
                return false;
            }
        }
    }
}

fn cleanup(root: &Path) {
    let _ = std::fs::remove_dir_all(root);
}

fn emit_and_exit(shared: &Shared, extra: Value, code: i32) -> ! {
    {
        let mut done = shared.done.lock().unwrap();
        if *done {
            // another thread is already printing
            drop(done);
            std::thread::sleep(Duration::from_secs(5));
            std::process::exit(code);
        }
        *done = true;
    }
    let log = shared.log.lock().unwrap().clone();
    let mut out = json!({"hooks": cfg!(tablegen_lsp_verif), "log": log, "root": shared.root.to_string_lossy()});
    if let Value::Object(m) = extra {
        for (k, v) in m {
            out[k] = v;
        }
    }
    cleanup(&shared.run_dir);
    println!("{}", out);
    use std::io::Write;
    let _ = std::io::stdout().flush();
    std::process::exit(code);
}

fn main() {
    let mut input = String::new();
    std::io::stdin().read_to_string(&mut input).expect("stdin");
    let script: Value = serde_json::from_str(&input).expect("json script");
    let cache = std::env::var("LSPDRIVE_TMP").unwrap_or_else(|_| "/verif/.cache/lspdrive".to_string());
    let nanos = std::time::SystemTime::now().duration_since(std::time::UNIX_EPOCH).unwrap().as_nanos();
    let root = PathBuf::from(cache).join(format!("run-{}-{}", std::process::id(), nanos));
    std::fs::create_dir_all(&root).expect("temp dir");
    let run_dir = root.canonicalize().expect("canonical");
    let root = match script.get("workspace_subdir").and_then(|v| v.as_str()) {
        Some(sub) if !sub.is_empty() => {
            let r = run_dir.join(sub);
            std::fs::create_dir_all(&r).expect("workspace dir");
            r
        }
        _ => run_dir.clone(),
    };
    let raw_uris = script.get("raw_uris").and_then(|v| v.as_bool()).unwrap_or(false);
    RAW_URIS.store(raw_uris, std::sync::atomic::Ordering::SeqCst);
    if let Some(fs) = script.get("files_on_disk").and_then(|f| f.as_array()) {
        for f in fs {
            let p = root.join(f[0].as_str().expect("relpath"));
            if let Some(d) = p.parent() {
                std::fs::create_dir_all(d).expect("mkdir");
            }
            std::fs::write(&p, f[1].as_str().expect("text")).expect("write");
        }
    }
    let shared = Arc::new(Shared { t0: Instant::now(), log: Mutex::new(Vec::new()), root: root.clone(), run_dir: run_dir.clone(), raw_uris, done: Mutex::new(false) });

    // a panicking task must not print to stderr endlessly, but is recorded
    {
        let sh = Arc::clone(&shared);
        std::panic::set_hook(Box::new(move |info| {
            let msg = info.to_string();
            sh.push(json!({"ev": "panic", "message": msg.chars().take(300).collect::<String>()}));
        }));
    }

    // hard wall-clock limit
    let hard = script.get("hard_ms").and_then(|v| v.as_u64()).unwrap_or(120_000);
    {
        let sh = Arc::clone(&shared);
        std::thread::spawn(move || {
            std::thread::sleep(Duration::from_millis(hard));
            sh.push(json!({"ev": "hard_timeout"}));
            emit_and_exit(&sh, json!({"timed_out": true, "hard_timeout": true}), 3);
        });
    }

    let rt = tokio::runtime::Builder::new_multi_thread().enable_all().build().expect("runtime");
    let sh = Arc::clone(&shared);
    let result = rt.block_on(async move { session(sh, script).await });
    emit_and_exit(&shared, result, 0);
}

async fn session(shared: Arc<Shared>, script: Value) -> Value {
    #[cfg(tablegen_lsp_verif)]
    let hooks = hooks::install(Arc::clone(&shared), &script);

    let (client_io, server_io) = tokio::io::duplex(64 << 20);
    let (server_read, server_write) = tokio::io::split(server_io);
    let (mut client_read, client_write) = tokio::io::split(client_io);

    let (mainloop, client_socket) = async_lsp::MainLoop::new_server(|client| {
        ServiceBuilder::new()
            .layer(TracingLayer::default())
            .layer(LifecycleLayer::default())
            .layer(ConcurrencyLayer::default())
            .layer(ClientProcessMonitorLayer::new(client.clone()))
            .service(Server::new_router(client))
    });
    let mainloop = tokio::spawn(async move {
        match mainloop.run_buffered(server_read.compat(), server_write.compat_write()).await {
            Ok(()) => "ok".to_string(),
            Err(e) => format!("error: {e}"),
        }
    });

    let (tx, rx) = tokio::sync::mpsc::unbounded_channel::<Value>();
    tokio::spawn(async move {
        while let Some(v) = read_frame(&mut client_read).await {
            if tx.send(v).is_err() {
                break;
            }
        }
    });

    let mut d = Driver {
        shared: Arc::clone(&shared),
        rx,
        tx_io: client_write,
        pending: BTreeMap::new(),
        notifs_sent: 0,
        max_version: -1,
        last_activity: Instant::now(),
        watchdog: Duration::from_millis(script.get("watchdog_ms").and_then(|v| v.as_u64()).unwrap_or(10_000)),
        quiet: Duration::from_millis(script.get("quiet_ms").and_then(|v| v.as_u64()).unwrap_or(300)),
        markers_seen: 0,
        markers_sent: 0,
        needs_quiet: false,
        server_exited: false,
        timed_out: false,
        mainloop,
        client: client_socket,
        #[cfg(tablegen_lsp_verif)]
        hooks,
    };
    let settled = script.get("mode").and_then(|m| m.as_str()).unwrap_or("settled") == "settled";

    // initialize handshake (id 0)
    d.pending.insert(0, ("initialize".into(), Instant::now(), -1));
    d.send(json!({"jsonrpc": "2.0", "id": 0, "method": "initialize",
                  "params": {"processId": null, "rootUri": null, "capabilities": {}}})).await;
    let ok = {
        let start = Instant::now();
        while d.pending.contains_key(&0) && start.elapsed() < d.watchdog {
            d.pump(Duration::from_millis(5)).await;
        }
        !d.pending.contains_key(&0)
    };
    if !ok {
        shared.push(json!({"ev": "timeout", "waiting_for": {"responses": [{"id": 0, "kind": "initialize"}]}}));
        return json!({"timed_out": true, "unanswered": [0], "server_exited": d.mainloop.is_finished()});
    }
    d.send(json!({"jsonrpc": "2.0", "method": "initialized", "params": {}})).await;

    let empty = Vec::new();
    let steps = script.get("steps").and_then(|s| s.as_array()).unwrap_or(&empty);
    let mut doc_versions: HashMap<String, i64> = HashMap::new();
    for (i, st) in steps.iter().enumerate() {
        let i = i as i64;
        let mut is_io = true;
        #[cfg(tablegen_lsp_verif)]
        d.hooks.step.store(i, std::sync::atomic::Ordering::SeqCst);
        if let Some(p) = st.get("open").and_then(|p| p.as_str()) {
            let uri = d.uri(p);
            doc_versions.insert(p.to_string(), 1);
            shared.push(json!({"ev": "sent", "step": i, "what": "didOpen", "path": p}));
            d.notifs_sent += 1;
            d.needs_quiet = true;
            d.send(json!({"jsonrpc": "2.0", "method": "textDocument/didOpen", "params": {"textDocument":
                {"uri": uri, "languageId": "tablegen", "version": 1, "text": st["text"]}}})).await;
        } else if let Some(p) = st.get("change").and_then(|p| p.as_str()) {
            let uri = d.uri(p);
            let v = doc_versions.entry(p.to_string()).or_insert(1);
            *v += 1;
            let v = *v;
            shared.push(json!({"ev": "sent", "step": i, "what": "didChange", "path": p}));
            d.notifs_sent += 1;
            d.needs_quiet = true;
            // "texts": [t1, t2, ..]: ONE didChange carrying several (full-text) contentChanges entries (schema-legal)
            let changes: Vec<serde_json::Value> = match st.get("texts").and_then(|t| t.as_array()) {
                Some(ts) => ts.iter().map(|t| json!({"text": t})).collect(),
                None => vec![json!({"text": st["text"]})],
            };
            d.send(json!({"jsonrpc": "2.0", "method": "textDocument/didChange", "params": {
                "textDocument": {"uri": uri, "version": v}, "contentChanges": changes}})).await;
        } else if let Some(kind) = st.get("request").and_then(|p| p.as_str()) {
            let p = st["path"].as_str().unwrap_or("");
            let uri = d.uri(p);
            let id = i + 1;
            let pos = json!({"line": st.get("line").cloned().unwrap_or(json!(0)), "character": st.get("character").cloned().unwrap_or(json!(0))});
            let td = json!({"uri": uri});
            let (method, params) = match kind {
                "definition" => ("textDocument/definition", json!({"textDocument": td, "position": pos})),
                "hover" => ("textDocument/hover", json!({"textDocument": td, "position": pos})),
                "completion" => ("textDocument/completion", json!({"textDocument": td, "position": pos})),
                "references" => ("textDocument/references", json!({"textDocument": td, "position": pos, "context": {"includeDeclaration": true}})),
                "documentSymbol" => ("textDocument/documentSymbol", json!({"textDocument": td})),
                "foldingRange" => ("textDocument/foldingRange", json!({"textDocument": td})),
                "documentLink" => ("textDocument/documentLink", json!({"textDocument": td})),
                "inlayHint" => {
                    let r = &st["range"];
                    ("textDocument/inlayHint", json!({"textDocument": td, "range": {
                        "start": {"line": r[0], "character": r[1]}, "end": {"line": r[2], "character": r[3]}}}))
                }
                other => {
                    shared.push(json!({"ev": "bad_step", "step": i, "kind": other}));
                    continue;
                }
            };
            shared.push(json!({"ev": "sent", "step": i, "what": "request", "kind": kind, "id": id, "path": p}));
            d.pending.insert(id, (kind.to_string(), Instant::now(), i));
            d.send(json!({"jsonrpc": "2.0", "id": id, "method": method, "params": params})).await;
        } else if let Some(p) = st.get("change_empty").and_then(|p| p.as_str()) {
            let uri = d.uri(p);
            let v = doc_versions.entry(p.to_string()).or_insert(1);
            *v += 1;
            let v = *v;
            shared.push(json!({"ev": "sent", "step": i, "what": "didChangeEmpty", "path": p}));
            d.send(json!({"jsonrpc": "2.0", "method": "textDocument/didChange", "params": {
                "textDocument": {"uri": uri, "version": v}, "contentChanges": []}})).await;
        } else if let Some(p) = st.get("close").and_then(|p| p.as_str()) {
            let uri = d.uri(p);
            doc_versions.remove(p);
            shared.push(json!({"ev": "sent", "step": i, "what": "didClose", "path": p}));
            d.send(json!({"jsonrpc": "2.0", "method": "textDocument/didClose", "params": {"textDocument": {"uri": uri}}})).await;
        } else if let Some(p) = st.get("write_disk").and_then(|p| p.as_str()) {
            is_io = false;
            let path = shared.root.join(p);
            if let Some(dir) = path.parent() {
                let _ = std::fs::create_dir_all(dir);
            }
            let ok = std::fs::write(&path, st["text"].as_str().unwrap_or("")).is_ok();
            shared.push(json!({"ev": "sent", "step": i, "what": "write_disk", "path": p, "ok": ok}));
        } else if st.get("wait_idle").is_some() {
            is_io = false;
            if !d.wait_idle().await {
                break;
            }
        } else if let Some(ms) = st.get("sleep_ms").and_then(|v| v.as_u64()) {
            is_io = false;
            d.pump(Duration::from_millis(ms)).await;
        } else {
            is_io = false;
            shared.push(json!({"ev": "bad_step", "step": i}));
        }
        if settled && is_io && !d.wait_idle().await {
            break;
        }
    }
    if !d.timed_out {
        d.wait_idle().await;
    }
    let unanswered: Vec<i64> = d.pending.keys().copied().collect();
    json!({"timed_out": d.timed_out, "unanswered": unanswered,
           "server_exited": d.server_exited || d.mainloop.is_finished(),
           "notifications_sent": d.notifs_sent, "max_version": d.max_version})
}
