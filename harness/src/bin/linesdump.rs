//! linesdump: observer of the real position mapping (property C10).
//! stdin: JSON array of strings, each `olo ohi llo lhi clo chi rg;TEXT` (header, first ';', then the text verbatim;
//! rg = 1: also the two range sections, rg = 0: they stay empty).
//! stdout: JSON array of strings, one per case, four sections separated by '|' (same format as
//! `lines_run impl` of the Coq model):
//!   lsp::to_proto::position   for every byte offset o in olo..=ohi (boundary or not)  -> `l:c` or `!` (panic)
//!   lsp::from_proto::position for l in llo..=lhi, c in clo..=chi                      -> `o`   or `!`
//!   lsp::to_proto::range      for a in olo..=ohi, b in a..=min(a+2, ohi)              -> `l:c-l:c` or `!`
//!   lsp::from_proto::range    for consecutive positions P[k], P[k+1] of that enumeration, both orders -> `a-b` or `!`
//! `!new` when LineIndex::new itself panics.  Every call is guarded separately (catch_unwind).
use async_lsp::lsp_types::{Position, Range};
use ide::line_index::LineIndex;
use std::fmt::Write;
use std::panic::AssertUnwindSafe;
use text_size::{TextRange, TextSize};

fn show(p: &Position) -> String {
    format!("{}:{}", p.line, p.character)
}

fn run(case: &str) -> String {
    let (hd, text) = case.split_once(';').expect("header;text");
    let h: Vec<u32> = hd.split_whitespace().map(|x| x.parse().expect("number")).collect();
    assert!(h.len() == 7, "header has seven numbers");
    let (olo, ohi, llo, lhi, clo, chi, rg) = (h[0], h[1], h[2], h[3], h[4], h[5], h[6] == 1);
    let li = match vharness::guarded(|| LineIndex::new(text)) {
        Ok(li) => li,
        Err(_) => return "!new".to_string(),
    };
    let li = AssertUnwindSafe(&li);
    let mut out = String::new();
    let mut sep = "";
    for o in olo..=ohi {
        let r = vharness::guarded(|| lsp::to_proto::position(&li, TextSize::from(o)));
        let _ = write!(out, "{}{}", sep, r.map(|p| show(&p)).unwrap_or_else(|_| "!".into()));
        sep = " ";
    }
    out.push('|');
    sep = "";
    let mut ps: Vec<Position> = Vec::new();
    if llo <= lhi && clo <= chi {
        for l in llo..=lhi {
            for c in clo..=chi {
                ps.push(Position::new(l, c));
            }
        }
    }
    for p in &ps {
        let r = vharness::guarded(|| lsp::from_proto::position(&li, *p));
        let _ = write!(out, "{}{}", sep, r.map(|o| u32::from(o).to_string()).unwrap_or_else(|_| "!".into()));
        sep = " ";
    }
    out.push('|');
    sep = "";
    for a in (olo..=ohi).filter(|_| rg) {
        for b in a..=ohi.min(a.saturating_add(2)) {
            let r = vharness::guarded(|| {
                lsp::to_proto::range(&li, TextRange::new(TextSize::from(a), TextSize::from(b)))
            });
            let _ = write!(
                out,
                "{}{}",
                sep,
                r.map(|r| format!("{}-{}", show(&r.start), show(&r.end))).unwrap_or_else(|_| "!".into())
            );
            sep = " ";
        }
    }
    out.push('|');
    sep = "";
    for w in ps.windows(2).filter(|_| rg) {
        for (x, y) in [(w[0], w[1]), (w[1], w[0])] {
            let r = vharness::guarded(|| lsp::from_proto::range(&li, Range::new(x, y)));
            let _ = write!(
                out,
                "{}{}",
                sep,
                r.map(|r| format!("{}-{}", u32::from(r.start()), u32::from(r.end()))).unwrap_or_else(|_| "!".into())
            );
            sep = " ";
        }
    }
    out
}

fn main() {
    vharness::quiet_panics();
    let cases = vharness::read_cases();
    let out: Vec<String> = cases.iter().map(|c| run(c)).collect();
    println!("{}", serde_json::to_string(&out).expect("json"));
}
