//! linesdump: observer of the real position mapping (property C10).
//! stdin: JSON array of strings, each `olo ohi llo lhi clo chi rg;TEXT` (header, first ';', then the text verbatim;
//! rg = 1: also the two range sections, rg = 0: they stay empty).
//! stdout: JSON array of strings, one per case, six sections separated by '|' (same format as
//! `lines_run impl` of the Coq model):
//!   lsp::to_proto::position   for every byte offset o in olo..=ohi (boundary or not)  -> `l:c` or `!` (panic)
//!   lsp::from_proto::position for l in llo..=lhi, c in clo..=chi                      -> `o`   or `!`
//!   lsp::to_proto::range      for a in olo..=ohi, b in a..=min(a+2, ohi)              -> `l:c-l:c` or `!`
//!   lsp::from_proto::range    for consecutive positions P[k], P[k+1] of that enumeration, both orders -> `a-b` or `!`
//!   lsp::to_proto::folding_range for the same (a, b) as to_proto::range               -> `startline-endline` or `!`
//!   wrappers for the same (a, b): `=` when to_proto::{inlay_hint, location, diagnostic, document_link,
//!   document_symbol (range, selection_range, and those of a child)} give exactly what position / range give,
//!   else the name of the first one that differs
//! `!new` when LineIndex::new itself panics.  Every call is guarded separately (catch_unwind).
use async_lsp::lsp_types::{Position, Range};
use ide::file_system::{FilePath, FileRange, FileSystem};
use ide::handlers::diagnostics::Diagnostic;
use ide::handlers::document_link::DocumentLink;
use ide::handlers::document_symbol::{DocumentSymbol, DocumentSymbolKind};
use ide::handlers::folding_range::FoldingRange;
use ide::handlers::inlay_hint::{InlayHint, InlayHintKind};
use ide::line_index::LineIndex;
use lsp::vfs::Vfs;
use std::path::PathBuf;
use std::fmt::Write;
use std::panic::AssertUnwindSafe;
use text_size::{TextRange, TextSize};

fn show(p: &Position) -> String {
    format!("{}:{}", p.line, p.character)
}

fn run(case: &str) -> String {
    let (hd, text) = case.split_once(';').expect("header;text");
    let h: Vec<u32> = hd.split_whitespace().map(|x| x.parse().expect("number")).collect();
    assert!(h.len() == 7, "header has seven numbers");
    let (olo, ohi, llo, lhi, clo, chi, rg) = (h[0], h[1], h[2], h[3], h[4], h[5], h[6] == 1);
    let li = match vharness::guarded(|| LineIndex::new(text)) {
        Ok(li) => li,
        Err(_) => return "!new".to_string(),
    };
    let li = AssertUnwindSafe(&li);
    let mut out = String::new();
    let mut sep = "";
    for o in olo..=ohi {
        let r = vharness::guarded(|| lsp::to_proto::position(&li, TextSize::from(o)));
        let _ = write!(out, "{}{}", sep, r.map(|p| show(&p)).unwrap_or_else(|_| "!".into()));
        sep = " ";
    }
    out.push('|');
    sep = "";
    let mut ps: Vec<Position> = Vec::new();
    if llo <= lhi && clo <= chi {
        for l in llo..=lhi {
            for c in clo..=chi {
                ps.push(Position::new(l, c));
            }
        }
    }
    for p in &ps {
        let r = vharness::guarded(|| lsp::from_proto::position(&li, *p));
        let _ = write!(out, "{}{}", sep, r.map(|o| u32::from(o).to_string()).unwrap_or_else(|_| "!".into()));
        sep = " ";
    }
    out.push('|');
    sep = "";
    for a in (olo..=ohi).filter(|_| rg) {
        for b in a..=ohi.min(a.saturating_add(2)) {
            let r = vharness::guarded(|| {
                lsp::to_proto::range(&li, TextRange::new(TextSize::from(a), TextSize::from(b)))
            });
            let _ = write!(
                out,
                "{}{}",
                sep,
                r.map(|r| format!("{}-{}", show(&r.start), show(&r.end))).unwrap_or_else(|_| "!".into())
            );
            sep = " ";
        }
    }
    out.push('|');
    sep = "";
    for w in ps.windows(2).filter(|_| rg) {
        for (x, y) in [(w[0], w[1]), (w[1], w[0])] {
            let r = vharness::guarded(|| lsp::from_proto::range(&li, Range::new(x, y)));
            let _ = write!(
                out,
                "{}{}",
                sep,
                r.map(|r| format!("{}-{}", u32::from(r.start()), u32::from(r.end()))).unwrap_or_else(|_| "!".into())
            );
            sep = " ";
        }
    }
    out.push('|');
    sep = "";
    // to_proto::folding_range: start_line-end_line
    let pairs: Vec<(u32, u32)> = (olo..=ohi)
        .filter(|_| rg)
        .flat_map(|a| (a..=ohi.min(a.saturating_add(2))).map(move |b| (a, b)))
        .collect();
    for &(a, b) in &pairs {
        let r = vharness::guarded(|| {
            lsp::to_proto::folding_range(
                &li,
                FoldingRange { range: TextRange::new(TextSize::from(a), TextSize::from(b)) },
            )
        });
        let _ = write!(
            out,
            "{}{}",
            sep,
            r.map(|r| format!("{}-{}", r.start_line, r.end_line)).unwrap_or_else(|_| "!".into())
        );
        sep = " ";
    }
    out.push('|');
    sep = "";
    // the other converters of to_proto.rs against position / range ("=": every one gives what position / range give)
    let mut vfs = Vfs::new();
    let fid = vfs.assign_or_get_file_id(FilePath(PathBuf::from("/verif-lines.td")));
    let vfs = AssertUnwindSafe(&vfs);
    for &(a, b) in &pairs {
        let tr = TextRange::new(TextSize::from(a), TextSize::from(b));
        let show_r = |r: Result<Range, String>| {
            r.map(|r| format!("{}-{}", show(&r.start), show(&r.end))).unwrap_or_else(|_| "!".into())
        };
        let base = show_r(vharness::guarded(|| lsp::to_proto::range(&li, tr)));
        let basep = vharness::guarded(|| lsp::to_proto::position(&li, TextSize::from(a)))
            .map(|p| show(&p))
            .unwrap_or_else(|_| "!".into());
        let hint = vharness::guarded(|| {
            lsp::to_proto::inlay_hint(
                &li,
                InlayHint { position: TextSize::from(a), label: "x".into(), kind: InlayHintKind::TemplateArg },
            )
            .position
        })
        .map(|p| show(&p))
        .unwrap_or_else(|_| "!".into());
        let loc = show_r(vharness::guarded(|| lsp::to_proto::location(&vfs, &li, FileRange::new(fid, tr)).range));
        let diag = show_r(vharness::guarded(|| {
            lsp::to_proto::diagnostic(&li, Diagnostic::new(FileRange::new(fid, tr), "m")).range
        }));
        let link = show_r(vharness::guarded(|| {
            lsp::to_proto::document_link(&vfs, &li, DocumentLink { range: tr, target: fid }).range
        }));
        let sym = vharness::guarded(|| {
            let child = DocumentSymbol {
                name: "c".into(),
                typ: "t".into(),
                range: tr,
                kind: DocumentSymbolKind::Field,
                children: vec![],
            };
            let s = lsp::to_proto::document_symbol(
                &li,
                DocumentSymbol {
                    name: "p".into(),
                    typ: "t".into(),
                    range: tr,
                    kind: DocumentSymbolKind::Class,
                    children: vec![child],
                },
            );
            let c = &s.children.as_ref().expect("one child")[0];
            (s.range, s.selection_range, c.range, c.selection_range)
        });
        let sym_ok = match &sym {
            Ok((r1, r2, r3, r4)) => [r1, r2, r3, r4].iter().all(|r| show_r(Ok(**r)) == base),
            Err(_) => base == "!",
        };
        let w = if hint != basep {
            "inlay_hint"
        } else if loc != base {
            "location"
        } else if diag != base {
            "diagnostic"
        } else if link != base {
            "document_link"
        } else if !sym_ok {
            "document_symbol"
        } else {
            "="
        };
        let _ = write!(out, "{}{}", sep, w);
        sep = " ";
    }
    out
}

fn main() {
    vharness::quiet_panics();
    let cases = vharness::read_cases();
    let out: Vec<String> = cases.iter().map(|c| run(c)).collect();
    println!("{}", serde_json::to_string(&out).expect("json"));
}
