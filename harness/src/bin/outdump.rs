//! outdump (group outline, C18/C19): runs the real analysis on in-memory workspaces and prints what the
//! symbol-table part of the C18/C19 model needs and what it is compared with:
//!   * "oplog": the symbol-map op log (hook H3; null when compiled without `--cfg tablegen_lsp_verif`),
//!   * "types": the `Display` string of the `Type` of every template argument / record field / variable / defset
//!     reachable through the public API (the op log carries no types), keyed "kind:index",
//!   * "fids", "len", "trees": file ids, byte lengths and the rowan tree of every workspace file,
//!   * "symbols": `Analysis::document_symbol` per file (with `typ`),
//!   * "at": go-to-definition and hover (signature, document) at every character offset, run-length compressed,
//!   * "hints": `Analysis::inlay_hint` for the requested ranges.
//! stdin: JSON array of workspaces {"files": [[path, text], ...], "root": path,
//!   "hint_ranges": "full" | [[path, lo, hi], ...], "offsets": "all" | "none"}
//! stdout: JSON array, one object per workspace (or {"panic": msg}).
use ide::analysis::{Analysis, AnalysisHost};
use ide::file_system::{FileId, FilePosition, FileRange};
use ide::handlers::document_symbol::DocumentSymbol;
use ide::symbol_map::symbol::{Symbol, SymbolId};
use ide::symbol_map::SymbolMap;
use serde_json::{json, Map, Value};
use std::collections::{BTreeMap, BTreeSet};
use std::sync::Arc;
use syntax::parser::{TextRange, TextSize};
use syntax::{SyntaxElement, SyntaxNode};
use vharness::memfs::MemFs;

fn sym(s: &DocumentSymbol) -> Value {
    json!({"name": s.name.to_string(), "typ": s.typ.to_string(), "kind": format!("{:?}", s.kind),
           "range": [u32::from(s.range.start()), u32::from(s.range.end())],
           "children": s.children.iter().map(sym).collect::<Vec<_>>()})
}

fn node(n: &SyntaxNode) -> Value {
    let r = n.text_range();
    let kids: Vec<Value> = n
        .children_with_tokens()
        .map(|c| match c {
            SyntaxElement::Node(m) => node(&m),
            SyntaxElement::Token(t) => {
                let r = t.text_range();
                json!(["T", format!("{:?}", t.kind()), u32::from(r.start()), u32::from(r.end())])
            }
        })
        .collect();
    json!(["N", format!("{:?}", n.kind()), u32::from(r.start()), u32::from(r.end()), kids])
}

#[cfg(tablegen_lsp_verif)]
fn take_oplog() -> Value {
    json!(ide::symbol_map::verif_take_oplog())
}
#[cfg(not(tablegen_lsp_verif))]
fn take_oplog() -> Value {
    Value::Null
}

/// records the type strings of `id` and of everything reachable from it
fn visit(sm: &SymbolMap, id: SymbolId, seen: &mut BTreeSet<SymbolId>, types: &mut BTreeMap<String, String>) {
    if !seen.insert(id) {
        return;
    }
    match sm.symbol(id) {
        Symbol::Record(r) => {
            for t in r.iter_template_arg() {
                visit(sm, t.into(), seen, types);
            }
            for f in r.iter_field() {
                visit(sm, f.into(), seen, types);
            }
            for p in &r.parent_list {
                visit(sm, (*p).into(), seen, types);
            }
        }
        Symbol::TemplateArgument(t) => {
            if let SymbolId::TemplateArgumentId(i) = id {
                types.insert(format!("template_arg:{}", i.index()), t.typ.to_string());
            }
        }
        Symbol::RecordField(f) => {
            if let SymbolId::RecordFieldId(i) = id {
                types.insert(format!("record_field:{}", i.index()), f.typ.to_string());
            }
            visit(sm, f.parent.into(), seen, types);
        }
        Symbol::Variable(v) => {
            if let SymbolId::VariableId(i) = id {
                types.insert(format!("variable:{}", i.index()), v.typ.to_string());
            }
        }
        Symbol::Defset(d) => {
            if let SymbolId::DefsetId(i) = id {
                types.insert(format!("defset:{}", i.index()), d.typ.to_string());
            }
            for r in &d.def_list {
                visit(sm, (*r).into(), seen, types);
            }
        }
        Symbol::Multiclass(m) => {
            for t in m.iter_template_arg() {
                visit(sm, t.into(), seen, types);
            }
        }
        Symbol::Defm(_) => {}
    }
}

fn run(ws: &Value) -> Value {
    let mut fs = MemFs::new();
    for f in ws["files"].as_array().expect("files") {
        fs.set(f[0].as_str().unwrap(), f[1].as_str().unwrap());
    }
    let root = ws["root"].as_str().expect("root");
    let mut host = AnalysisHost::new();
    let root_id = fs.id(root);
    let root_text = fs.contents.get(&MemFs::path(root)).cloned().unwrap_or_default();
    host.set_file_content(root_id, Arc::from(root_text.as_str()));
    host.set_root_file(&mut fs, root_id);
    let a: Analysis = host.analysis();
    let fr = |r: &FileRange| json!([fs.path_str(&r.file), u32::from(r.range.start()), u32::from(r.range.end())]);

    let _ = take_oplog();
    let index = a.index();
    let mut out = Map::new();
    out.insert("oplog".into(), take_oplog());
    let sm = index.symbol_map();

    let diags = a.diagnostics();
    let mut ws_files: Vec<FileId> = diags.keys().copied().collect();
    ws_files.sort();
    out.insert("fids".into(), json!(ws_files.iter().map(|f| (fs.path_str(f), f.0)).collect::<BTreeMap<_, _>>()));

    let mut lens = Map::new();
    let mut trees = Map::new();
    let mut symbols = Map::new();
    let mut at = Map::new();
    let mut hints = Map::new();
    let mut seen: BTreeSet<SymbolId> = BTreeSet::new();
    let mut types: BTreeMap<String, String> = BTreeMap::new();
    for fid in &ws_files {
        let p = fs.path_str(fid);
        let text: String = if *fid == root_id { root_text.clone() } else { fs.contents.get(&MemFs::path(&p)).cloned().unwrap_or_default() };
        lens.insert(p.clone(), json!(text.len()));
        trees.insert(p.clone(), node(&syntax::parse(&text).syntax_node()));
        if let Some(it) = sm.iter_symbols_in_file(*fid) {
            for id in it {
                visit(sm, id, &mut seen, &mut types);
            }
        }
        let whole = FileRange::new(*fid, TextRange::new(TextSize::from(0), TextSize::from(text.len() as u32 + 1)));
        if let Some(it) = sm.iter_symbols_in_range(whole) {
            let ids: Vec<SymbolId> = it.map(|(_, id)| id).collect();
            for id in ids {
                visit(sm, id, &mut seen, &mut types);
            }
        }
        symbols.insert(p.clone(), match a.document_symbol(*fid) {
            Some(v) => Value::Array(v.iter().map(sym).collect()),
            None => Value::Null,
        });
        let offs: Vec<u32> = match ws.get("offsets") {
            Some(Value::String(s)) if s == "none" => vec![],
            _ => (0..=text.len()).filter(|i| text.is_char_boundary(*i)).map(|i| i as u32).collect(),
        };
        let mut runs: Vec<Value> = Vec::new();
        let mut prev: Option<Value> = None;
        for o in offs {
            let pos = FilePosition::new(*fid, TextSize::from(o));
            let def = a.goto_definition(pos).map(|r| fr(&r));
            let hov = a.hover(pos).map(|h| json!({"sig": h.signature, "doc": h.document}));
            let e = json!({"def": def, "hover": hov});
            if prev.as_ref() != Some(&e) {
                let mut r = e.clone();
                r["o"] = json!(o);
                runs.push(r);
                prev = Some(e);
            }
        }
        at.insert(p.clone(), Value::Array(runs));
        let ranges: Vec<(u32, u32)> = match ws.get("hint_ranges") {
            Some(Value::Array(v)) => v.iter().filter(|x| x[0].as_str() == Some(p.as_str())).map(|x| (x[1].as_u64().unwrap() as u32, x[2].as_u64().unwrap() as u32)).collect(),
            _ => vec![(0, text.len() as u32)],
        };
        let mut hv: Vec<Value> = Vec::new();
        for (lo, hi) in ranges {
            let r = FileRange::new(*fid, TextRange::new(TextSize::from(lo), TextSize::from(hi)));
            let h = a.inlay_hint(r).map(|v| {
                Value::Array(v.iter().map(|h| json!([u32::from(h.position), h.label, format!("{:?}", h.kind)])).collect())
            });
            hv.push(json!([lo, hi, h]));
        }
        hints.insert(p.clone(), Value::Array(hv));
    }
    out.insert("types".into(), json!(types));
    out.insert("len".into(), Value::Object(lens));
    out.insert("trees".into(), Value::Object(trees));
    out.insert("symbols".into(), Value::Object(symbols));
    out.insert("at".into(), Value::Object(at));
    out.insert("hints".into(), Value::Object(hints));
    Value::Object(out)
}

fn main() {
    vharness::quiet_panics();
    let input: Value = serde_json::from_str(&vharness::read_stdin()).expect("json");
    let mut res = Vec::new();
    for ws in input.as_array().expect("array") {
        let w = ws.clone();
        let h = std::thread::Builder::new()
            .stack_size(2 * 1024 * 1024)
            .spawn(move || vharness::guarded(move || run(&w)))
            .unwrap();
        match h.join() {
            Ok(Ok(v)) => res.push(v),
            Ok(Err(m)) => res.push(json!({"panic": m})),
            Err(_) => res.push(json!({"panic": "thread"})),
        }
    }
    println!("{}", Value::Array(res));
}
