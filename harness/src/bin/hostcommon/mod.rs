//! Common part of the bins `hostdrive` (memfs mode only; depends on the `ide` crate alone) and `vfsdrive`
//! (adds the vfs mode over the real `lsp::vfs::Vfs`): generic in the "real" file system `R: RealFs`, so that
//! a change of the Vfs API can only break the build of `vfsdrive`.
//!
//! hostdrive / vfsdrive (C16, C07, C12): drives the real `collect_sources` / salsa inputs / handlers (and, in
//! parallel, the real `AnalysisHost`) through histories of `touch` operations
//! (= lsp `Server::set_file_content`) and dumps the three salsa inputs keyed by path plus the
//! include-related query results after every step.
//!
//! `hostdrive abs`   stdin: JSON array of texts; stdout: JSON array, per text the abstraction used by
//!                   the Coq model M-host: the Include / Class descendants in document order
//!                   `{"inc":[lo,hi],"path":null|[value,llo,lhi]}` / `{"decl":name}`
//!                   (same scan as file_system.rs: list_includes and document_link.rs, public AST only).
//! `hostdrive run [timeout_ms]`
//!                   stdin: JSON array of cases
//!                     {"mode":"memfs"|"vfs", "dir": base directory (vfs mode; created and removed here),
//!                      "files":[[path,text],..] (the static disk), "include_dir": null|path,
//!                      "history":[[kind,path,text],..]  kind = "touch" | "raw",
//!                      "host_only": true -> no derived query is evaluated on the own RootDatabase; diagnostics, links and
//!                      outline of the step are those of the real AnalysisHost (C07's fresh host: one case per process, so
//!                      that the index runs exactly once in a freshly started process),
//!                      "full": true -> every step also carries "queries": the full query set of the
//!                      public Analysis API of the real AnalysisHost, keyed by path (memfs mode)}
//!                   stdout: ONE LINE PER CASE, flushed: {"steps":[..]} | {"panic":msg} | {"timeout":true}.
//!                   After a timeout the process exits (the hung thread cannot be stopped) and the
//!                   driver restarts it with the remaining cases; a stack overflow aborts the process
//!                   and is seen by the driver as a missing line.
//! memfs mode: `vharness::memfs::MemFs` (touch writes the text into the MemFs: disk overlaid by editor
//! texts) + a `RootDatabase` of our own (so that the inputs can be read through the public
//! `SourceDatabase` trait) + the same operations on a real `AnalysisHost` whose query results must agree.
//! vfs mode: the real `lsp::vfs::Vfs` over real files below "dir", with the five statements of
//! `Server::set_file_content` replicated.
use ide::analysis::AnalysisHost;
use ide::db::{RootDatabase, SourceDatabase};
use ide::file_system::{self, FileId, FilePath, FileSystem};
use ide::handlers::{diagnostics, document_link, document_symbol};
use serde_json::{json, Value};
use std::io::Write;
use std::panic::AssertUnwindSafe;
use std::path::{Path, PathBuf};
use std::sync::Arc;
use syntax::ast::{self, AstNode};
use vharness::memfs::MemFs;

fn abs_of(text: &str) -> Value {
    let root = syntax::parse(text).syntax_node();
    let mut items = Vec::new();
    for node in root.descendants() {
        if let Some(inc) = ast::Include::cast(node.clone()) {
            let r = inc.syntax().text_range();
            let p = inc.path().map(|s| {
                let lr = ide::utils::range_excluding_trivia(s.syntax());
                json!([s.value().to_string(), u32::from(lr.start()), u32::from(lr.end())])
            });
            items.push(json!({"inc": [u32::from(r.start()), u32::from(r.end())], "path": p}));
        } else if let Some(c) = ast::Class::cast(node.clone()) {
            if let Some(n) = c.name().and_then(|n| n.value()) {
                items.push(json!({"decl": n.to_string()}));
            }
        }
    }
    Value::Array(items)
}

/// the "real" file system of the vfs mode (implemented for `lsp::vfs::Vfs` by vfsdrive)
pub trait RealFs: FileSystem + Sized {
    fn new_real() -> Self;
    /// `Server::set_file_content`: `vfs.set_open_document(path.clone(), text.to_string())`
    fn open_document(&mut self, path: FilePath, text: String);
}

enum Fs<R: RealFs> {
    Mem(MemFs),
    Real(R, PathBuf),
}

impl<R: RealFs> Fs<R> {
    fn full(&self, p: &str) -> FilePath {
        match self {
            Fs::Mem(_) => MemFs::path(p),
            Fs::Real(_, base) => FilePath::from(base.join(p).as_path()),
        }
    }
    fn rel(&self, p: &FilePath) -> String {
        match self {
            Fs::Mem(_) => p.0.to_string_lossy().to_string(),
            Fs::Real(_, base) => match p.0.strip_prefix(base) {
                Ok(r) => r.to_string_lossy().to_string(),
                Err(_) => p.0.to_string_lossy().to_string(),
            },
        }
    }
    fn path_of(&self, id: &FileId) -> Option<String> {
        let r = std::panic::catch_unwind(AssertUnwindSafe(|| match self {
            Fs::Mem(m) => m.path_for_file(id).clone(),
            Fs::Real(v, _) => v.path_for_file(id).clone(),
        }));
        r.ok().map(|p| self.rel(&p))
    }
    fn name(&self, id: &FileId) -> String {
        self.path_of(id).unwrap_or_else(|| format!("?{}", id.0))
    }
}

/// Server::set_file_content, statement by statement (vfs mode) / its MemFs equivalent
fn touch<R: RealFs>(fs: &mut Fs<R>, db: &mut RootDatabase, p: &str, text: &str, raw: bool) {
    let path = fs.full(p);
    let id = match fs {
        Fs::Mem(m) => {
            m.contents.insert(path.clone(), text.to_string());
            m.assign_or_get_file_id(path)
        }
        Fs::Real(v, _) => {
            v.open_document(path.clone(), text.to_string());
            v.assign_or_get_file_id(path)
        }
    };
    db.set_file_content(id, Arc::from(text));
    if raw {
        return;
    }
    let sr = match fs {
        Fs::Mem(m) => file_system::collect_sources(db, m, id),
        Fs::Real(v, _) => file_system::collect_sources(db, v, id),
    };
    db.set_source_root(Arc::new(sr));
}

fn dump<R: RealFs>(fs: &Fs<R>, db: &RootDatabase, have_root: bool, db_queries: bool) -> Value {
    let mut out = serde_json::Map::new();
    // id table: ids are allocated consecutively from 0
    let mut ids = Vec::new();
    let mut n = 0u32;
    while let Some(p) = fs.path_of(&FileId(n)) {
        ids.push((p, n));
        n += 1;
        if n > 10_000 {
            break;
        }
    }
    out.insert("ids".into(), json!(ids.iter().map(|(p, i)| json!([p, i])).collect::<Vec<_>>()));
    let mut fc = Vec::new();
    let mut rim = Vec::new();
    for (p, i) in &ids {
        let id = FileId(*i);
        let c = std::panic::catch_unwind(AssertUnwindSafe(|| db.file_content(id).to_string())).ok();
        fc.push(json!([p, c]));
        let m = std::panic::catch_unwind(AssertUnwindSafe(|| db.resolved_include_map(id))).ok();
        let mj = m.map(|m| {
            let mut v: Vec<(u32, u32, String)> = m
                .iter()
                .map(|(k, t)| {
                    let r = k.0.text_range();
                    (u32::from(r.start()), u32::from(r.end()), fs.name(t))
                })
                .collect();
            v.sort();
            v.into_iter().map(|(a, b, t)| json!([a, b, t])).collect::<Vec<_>>()
        });
        rim.push(json!([p, mj]));
    }
    out.insert("fc".into(), Value::Array(fc));
    out.insert("rim".into(), Value::Array(rim));
    if !have_root {
        out.insert("root".into(), Value::Null);
        return Value::Object(out);
    }
    let sr = db.source_root();
    out.insert("root".into(), json!(fs.name(&sr.root())));
    let mut files: Vec<FileId> = sr.iter_files().collect();
    files.sort();
    let mut names: Vec<String> = files.iter().map(|f| fs.name(f)).collect();
    names.sort();
    out.insert("files".into(), json!(names));
    if !db_queries {
        // "host_only" cases: no derived query is evaluated on this database (the index must run exactly once
        // in the process: on the AnalysisHost)
        return Value::Object(out);
    }
    // queries
    let diags = diagnostics::exec(db);
    let mut keys: Vec<String> = diags.keys().map(|f| fs.name(f)).collect();
    keys.sort();
    out.insert("diag_keys".into(), json!(keys));
    let mut dj = serde_json::Map::new();
    let mut links = serde_json::Map::new();
    let mut outline = serde_json::Map::new();
    for (f, ds) in &diags {
        let mut v: Vec<(u32, u32, String)> = ds
            .iter()
            .map(|d| (u32::from(d.location.range.start()), u32::from(d.location.range.end()), d.message.clone()))
            .collect();
        v.sort();
        dj.insert(fs.name(f), json!(v.into_iter().map(|(a, b, m)| json!([a, b, m])).collect::<Vec<_>>()));
    }
    for f in &files {
        let l = document_link::exec(db, *f).map(|v| {
            v.iter()
                .map(|l| json!([u32::from(l.range.start()), u32::from(l.range.end()), fs.name(&l.target)]))
                .collect::<Vec<_>>()
        });
        links.insert(fs.name(f), json!(l));
        let s = document_symbol::exec(db, *f)
            .map(|v| v.iter().map(|s| json!([s.name.to_string(), format!("{:?}", s.kind)])).collect::<Vec<_>>());
        outline.insert(fs.name(f), json!(s));
    }
    out.insert("diagnostics".into(), Value::Object(dj));
    out.insert("links".into(), Value::Object(links));
    out.insert("outline".into(), Value::Object(outline));
    Value::Object(out)
}

/// the same observations through the public Analysis API of a real AnalysisHost
fn dump_host(fs: &MemFs, host: &AnalysisHost) -> Value {
    let a = host.analysis();
    let diags = a.diagnostics();
    let mut files: Vec<FileId> = diags.keys().copied().collect();
    files.sort();
    let mut dj = serde_json::Map::new();
    let mut links = serde_json::Map::new();
    let mut outline = serde_json::Map::new();
    for (f, ds) in &diags {
        let mut v: Vec<(u32, u32, String)> = ds
            .iter()
            .map(|d| (u32::from(d.location.range.start()), u32::from(d.location.range.end()), d.message.clone()))
            .collect();
        v.sort();
        dj.insert(fs.path_str(f), json!(v.into_iter().map(|(a, b, m)| json!([a, b, m])).collect::<Vec<_>>()));
    }
    for f in &files {
        let l = a.document_link(*f).map(|v| {
            v.iter()
                .map(|l| json!([u32::from(l.range.start()), u32::from(l.range.end()), fs.path_str(&l.target)]))
                .collect::<Vec<_>>()
        });
        links.insert(fs.path_str(f), json!(l));
        let s = a
            .document_symbol(*f)
            .map(|v| v.iter().map(|s| json!([s.name.to_string(), format!("{:?}", s.kind)])).collect::<Vec<_>>());
        outline.insert(fs.path_str(f), json!(s));
    }
    json!({"diagnostics": dj, "links": links, "outline": outline})
}

/// the full query set of the public Analysis API of the real AnalysisHost, keyed by path (C07):
/// per workspace file: folding ranges, inlay hints over the whole file, and at every offset
/// goto_definition / references / hover (non-null answers only) and the completion labels.
fn dump_queries(fs: &MemFs, host: &AnalysisHost, texts: &std::collections::HashMap<String, String>) -> Value {
    use ide::file_system::{FilePosition, FileRange};
    use syntax::parser::{TextRange, TextSize};
    let a = host.analysis();
    let diags = a.diagnostics();
    let mut files: Vec<FileId> = diags.keys().copied().collect();
    files.sort_by_key(|f| fs.path_str(f));
    let mut out = serde_json::Map::new();
    for f in &files {
        let name = fs.path_str(f);
        let text = texts.get(&name).cloned().unwrap_or_default();
        let len = text.len() as u32;
        let mut o = serde_json::Map::new();
        let fold = std::panic::catch_unwind(AssertUnwindSafe(|| {
            a.folding_range(*f).map(|v| {
                v.iter().map(|r| json!([u32::from(r.range.start()), u32::from(r.range.end())])).collect::<Vec<_>>()
            })
        }));
        o.insert("folding".into(), fold.map(|v| json!(v)).unwrap_or(json!("panic")));
        let hints = std::panic::catch_unwind(AssertUnwindSafe(|| {
            a.inlay_hint(FileRange::new(*f, TextRange::new(TextSize::from(0), TextSize::from(len)))).map(|v| {
                v.iter()
                    .map(|h| json!([u32::from(h.position), h.label.clone(), format!("{:?}", h.kind)]))
                    .collect::<Vec<_>>()
            })
        }));
        o.insert("inlay".into(), hints.map(|v| json!(v)).unwrap_or(json!("panic")));
        let mut at = Vec::new();
        for off in 0..=len {
            if !text.is_char_boundary(off as usize) {
                continue;
            }
            let pos = FilePosition::new(*f, TextSize::from(off));
            let r = std::panic::catch_unwind(AssertUnwindSafe(|| {
                let d = a
                    .goto_definition(pos)
                    .map(|r| json!([fs.path_str(&r.file), u32::from(r.range.start()), u32::from(r.range.end())]));
                let rs = a.references(pos).map(|v| {
                    let mut w: Vec<(String, u32, u32)> = v
                        .iter()
                        .map(|r| (fs.path_str(&r.file), u32::from(r.range.start()), u32::from(r.range.end())))
                        .collect();
                    w.sort();
                    w
                });
                let h = a.hover(pos).map(|h| json!([h.signature, h.document]));
                let c = a.completion(pos, None).map(|v| {
                    let mut w: Vec<String> = v.iter().map(|c| format!("{}:{:?}", c.label, c.kind)).collect();
                    w.sort();
                    w
                });
                (d, rs, h, c)
            }));
            match r {
                Ok((d, rs, h, c)) => {
                    if d.is_some() || rs.is_some() || h.is_some() {
                        at.push(json!([off, d, rs, h]));
                    }
                    if off % 7 == 0 {
                        at.push(json!([off, "completion", c]));
                    }
                }
                Err(_) => at.push(json!([off, "panic"])),
            }
        }
        o.insert("at".into(), Value::Array(at));
        // the whole outline tree (names, types, kinds, ranges, children: generated names such as anonymous_N show here)
        fn tree(s: &ide::handlers::document_symbol::DocumentSymbol) -> Value {
            json!([s.name.to_string(), s.typ.to_string(), format!("{:?}", s.kind), u32::from(s.range.start()), u32::from(s.range.end()),
                   s.children.iter().map(tree).collect::<Vec<_>>()])
        }
        let ot = std::panic::catch_unwind(AssertUnwindSafe(|| a.document_symbol(*f).map(|v| v.iter().map(tree).collect::<Vec<_>>())));
        o.insert("outline_tree".into(), ot.map(|v| json!(v)).unwrap_or(json!("panic")));
        out.insert(name, Value::Object(o));
    }
    Value::Object(out)
}

fn run_case<R: RealFs>(case: &Value) -> Value {
    let mode = case["mode"].as_str().unwrap_or("memfs");
    let files = case["files"].as_array().expect("files");
    let mut fs: Fs<R> = if mode == "vfs" {
        let base = PathBuf::from(case["dir"].as_str().expect("dir"));
        let _ = std::fs::remove_dir_all(&base);
        std::fs::create_dir_all(&base).expect("mkdir");
        for f in files {
            let p = base.join(f[0].as_str().unwrap());
            if let Some(d) = p.parent() {
                std::fs::create_dir_all(d).expect("mkdir");
            }
            std::fs::write(&p, f[1].as_str().unwrap()).expect("write");
        }
        Fs::Real(R::new_real(), base)
    } else {
        let mut m = MemFs::new();
        for f in files {
            m.set(f[0].as_str().unwrap(), f[1].as_str().unwrap());
        }
        Fs::Mem(m)
    };
    // the parallel AnalysisHost (memfs mode only)
    let mut fs2 = MemFs::new();
    for f in files {
        fs2.set(f[0].as_str().unwrap(), f[1].as_str().unwrap());
    }
    let mut host = AnalysisHost::new();
    let mut db = RootDatabase::default();
    let mut steps = Vec::new();
    let mut have_root = false;
    for op in case["history"].as_array().expect("history") {
        let raw = op[0].as_str() == Some("raw");
        let p = op[1].as_str().unwrap();
        let text = op[2].as_str().unwrap();
        if let Fs::Mem(m) = &fs {
            m.reads.borrow_mut().clear();
        }
        touch(&mut fs, &mut db, p, text, raw);
        have_root = have_root || !raw;
        let host_only = case["host_only"].as_bool() == Some(true);
        let mut d = dump(&fs, &db, have_root, !host_only);
        if let Fs::Mem(m) = &fs {
            d["reads"] = json!(m.reads.borrow().clone());
            // same operation on the AnalysisHost
            fs2.set(p, text);
            let id = fs2.id(p);
            host.set_file_content(id, Arc::from(text));
            if !raw {
                host.set_root_file(&mut fs2, id);
            }
            if have_root {
                let h = dump_host(&fs2, &host);
                if host_only {
                    let mut keys: Vec<String> = h["diagnostics"].as_object().unwrap().keys().cloned().collect();
                    keys.sort();
                    d["diag_keys"] = json!(keys);
                    d["diagnostics"] = h["diagnostics"].clone();
                    d["links"] = h["links"].clone();
                    d["outline"] = h["outline"].clone();
                } else {
                    let same = h["diagnostics"] == d["diagnostics"] && h["links"] == d["links"] && h["outline"] == d["outline"];
                    d["host_agrees"] = json!(same);
                    if !same {
                        d["host"] = h;
                    }
                }
                if case["full"].as_bool() == Some(true) {
                    let texts: std::collections::HashMap<String, String> = fs2
                        .contents
                        .iter()
                        .map(|(k, v)| (k.0.to_string_lossy().to_string(), v.clone()))
                        .collect();
                    d["queries"] = dump_queries(&fs2, &host, &texts);
                }
            }
        }
        steps.push(d);
    }
    if let Fs::Real(_, base) = &fs {
        let _ = std::fs::remove_dir_all(base);
    }
    json!({ "steps": steps })
}

pub fn main_with<R: RealFs>() {
    vharness::quiet_panics();
    let args: Vec<String> = std::env::args().collect();
    let cmd = args.get(1).map(|s| s.as_str()).unwrap_or("run");
    let input: Value = serde_json::from_str(&vharness::read_stdin()).expect("json");
    let stdout = std::io::stdout();
    if cmd == "abs" {
        let res: Vec<Value> = input.as_array().expect("array").iter().map(|t| abs_of(t.as_str().expect("text"))).collect();
        println!("{}", Value::Array(res));
        return;
    }
    let timeout_ms: u64 = args.get(2).and_then(|s| s.parse().ok()).unwrap_or(5000);
    for case in input.as_array().expect("array") {
        // INCLUDE_DIR is read by collect_sources from the process environment: cases run one at a time
        match case.get("include_dir").and_then(|v| v.as_str()) {
            Some(d) => {
                let full = if case["mode"].as_str() == Some("vfs") {
                    Path::new(case["dir"].as_str().expect("dir")).join(d).to_string_lossy().to_string()
                } else {
                    d.to_string()
                };
                std::env::set_var("INCLUDE_DIR", full)
            }
            None => std::env::remove_var("INCLUDE_DIR"),
        }
        let c = case.clone();
        let (tx, rx) = std::sync::mpsc::channel();
        // 2 MiB stack like a tokio worker thread
        std::thread::Builder::new()
            .stack_size(2 * 1024 * 1024)
            .spawn(move || {
                let r = vharness::guarded(move || run_case::<R>(&c));
                let _ = tx.send(r);
            })
            .unwrap();
        let line = match rx.recv_timeout(std::time::Duration::from_millis(timeout_ms)) {
            Ok(Ok(v)) => v,
            Ok(Err(m)) => json!({ "panic": m }),
            Err(std::sync::mpsc::RecvTimeoutError::Timeout) => {
                let mut o = stdout.lock();
                writeln!(o, "{}", json!({"timeout": true})).unwrap();
                o.flush().unwrap();
                if let (Some("vfs"), Some(d)) = (case["mode"].as_str(), case["dir"].as_str()) {
                    let _ = std::fs::remove_dir_all(d);
                }
                std::process::exit(0);
            }
            Err(_) => json!({"panic": "worker thread died"}),
        };
        let mut o = stdout.lock();
        writeln!(o, "{}", line).unwrap();
        o.flush().unwrap();
    }
}
