//! Shared helpers of the verification harness (observers / canonicalisers).
use std::io::Read;

pub fn read_stdin() -> String {
    let mut s = String::new();
    std::io::stdin().read_to_string(&mut s).expect("stdin must be UTF-8");
    s
}

/// Input convention shared by the batch tools: a JSON array of strings on stdin.
pub fn read_cases() -> Vec<String> {
    let v: serde_json::Value = serde_json::from_str(&read_stdin()).expect("json");
    v.as_array()
        .expect("array")
        .iter()
        .map(|x| x.as_str().expect("string").to_string())
        .collect()
}

/// Runs `f` catching panics; returns Err(message) on panic.
pub fn guarded<T>(f: impl FnOnce() -> T + std::panic::UnwindSafe) -> Result<T, String> {
    match std::panic::catch_unwind(f) {
        Ok(v) => Ok(v),
        Err(e) => {
            let msg = if let Some(s) = e.downcast_ref::<&str>() {
                s.to_string()
            } else if let Some(s) = e.downcast_ref::<String>() {
                s.clone()
            } else {
                "panic".to_string()
            };
            Err(msg)
        }
    }
}

pub fn quiet_panics() {
    std::panic::set_hook(Box::new(|_| {}));
}

// ---------------------------------------------------------------------------------------------
// In-memory workspace (implements ide::file_system::FileSystem) shared by the ide-level observers.
pub mod memfs {
    use ide::file_system::{FileId, FilePath, FileSet, FileSystem};
    use std::collections::HashMap;
    use std::path::Path;

    #[derive(Default)]
    pub struct MemFs {
        pub contents: HashMap<FilePath, String>,
        pub file_set: FileSet,
        pub next_id: u32,
        pub reads: std::cell::RefCell<Vec<String>>,
    }

    impl MemFs {
        pub fn new() -> Self {
            Self::default()
        }
        pub fn path(p: &str) -> FilePath {
            FilePath::from(Path::new(p))
        }
        pub fn set(&mut self, p: &str, text: &str) {
            self.contents.insert(Self::path(p), text.to_string());
        }
        pub fn remove(&mut self, p: &str) {
            self.contents.remove(&Self::path(p));
        }
        pub fn id(&mut self, p: &str) -> FileId {
            self.assign_or_get_file_id(Self::path(p))
        }
        pub fn path_str(&self, id: &FileId) -> String {
            self.file_set.path_for_file(id).0.to_string_lossy().to_string()
        }
        pub fn known_id(&self, p: &str) -> Option<FileId> {
            self.file_set.file_for_path(&Self::path(p))
        }
    }

    impl FileSystem for MemFs {
        fn assign_or_get_file_id(&mut self, path: FilePath) -> FileId {
            match self.file_set.file_for_path(&path) {
                Some(id) => id,
                None => {
                    let id = FileId(self.next_id);
                    self.next_id += 1;
                    self.file_set.insert(id, path);
                    id
                }
            }
        }
        fn path_for_file(&self, file_id: &FileId) -> &FilePath {
            self.file_set.path_for_file(file_id)
        }
        fn read_content(&self, file_path: &FilePath) -> Option<String> {
            self.reads.borrow_mut().push(file_path.0.to_string_lossy().to_string());
            self.contents.get(file_path).cloned()
        }
    }
}
