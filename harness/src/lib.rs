//! Shared helpers of the verification harness (observers / canonicalisers).
use std::io::Read;

pub fn read_stdin() -> String {
    let mut s = String::new();
    std::io::stdin().read_to_string(&mut s).expect("stdin must be UTF-8");
    s
}

/// Input convention shared by the batch tools: a JSON array of strings on stdin.
pub fn read_cases() -> Vec<String> {
    let v: serde_json::Value = serde_json::from_str(&read_stdin()).expect("json");
    v.as_array()
        .expect("array")
        .iter()
        .map(|x| x.as_str().expect("string").to_string())
        .collect()
}

/// Runs `f` catching panics; returns Err(message) on panic.
pub fn guarded<T>(f: impl FnOnce() -> T + std::panic::UnwindSafe) -> Result<T, String> {
    match std::panic::catch_unwind(f) {
        Ok(v) => Ok(v),
        Err(e) => {
            let msg = if let Some(s) = e.downcast_ref::<&str>() {
                s.to_string()
            } else if let Some(s) = e.downcast_ref::<String>() {
                s.clone()
            } else {
                "panic".to_string()
            };
            Err(msg)
        }
    }
}

pub fn quiet_panics() {
    std::panic::set_hook(Box::new(|_| {}));
}
