"""Reference lexer for TableGen, written FROM THE LANGUAGE REFERENCE (not from crates/syntax/src/lexer.rs).

Source: LLVM "TableGen Programmer's Reference", section "Lexical Analysis" (quoted):

    TokInteger     ::=  DecimalInteger | HexInteger | BinInteger
    DecimalInteger ::=  ["+" | "-"] ("0"..."9")+
    HexInteger     ::=  "0x" ("0"..."9" | "a"..."f" | "A"..."F")+
    BinInteger     ::=  "0b" ("0" | "1")+
    ualpha         ::=  "a"..."z" | "A"..."Z" | "_"
    TokIdentifier  ::=  ("0"..."9")* ualpha (ualpha | "0"..."9")*
    TokVarName     ::=  "$" ualpha (ualpha |  "0"..."9")*
    TokString      ::=  '"' (non-'"' characters and escapes) '"'
    TokCode        ::=  "[{" (shortest sequence of characters that ends with "}]")

    "TableGen allows TokIdentifier to begin with an integer. In case of ambiguity, a token is interpreted
     as a numeric literal rather than an identifier."
    "TableGen has the following reserved keywords, which cannot be used as identifiers":
        assert bit bits class code dag def dump else false foreach defm defset defvar field if in include
        int let list multiclass string then true
    "The following punctuation tokens":  - + [ ] { } ( ) < > : ; , . ... = ? #
    BangOperator ::= one of  !add !and !cast !con !dag !div !empty !eq !exists !filter !find !foldl !foreach !ge
        !getdagarg !getdagname !getdagop !gt !head !if !initialized !interleave !isa !le !listconcat
        !listflatten !listremove !listsplat !logtwo !lt !mul !ne !not !or !range !repr !setdagarg !setdagname
        !setdagop !shl !size !sra !srl !strconcat !sub !subst !substr !tail !tolower !toupper !xor
    CondOperator ::= !cond
    Escapes in strings: \\\\ \\' \\" \\t \\n.  "TableGen supports BCPL-style comments (// ...) and nestable
    C-style comments (/* ... */)."  White space: blank, tab, line feed, carriage return, form feed
    ("Formfeed characters may be used freely in files to produce page breaks").
    Integers must fit 64 bits (llvm-tblgen: "Integer value is out of range"): an unsigned or '+' decimal, a hex
    and a binary literal is < 2^64, a '-' decimal is >= -2^63.
    Preprocessing directives (section "Preprocessing Facilities"): #define #ifdef #ifndef #else #endif.

Structure (deliberately unlike lexer.rs, which dispatches on the first character into hand-written scanner
loops): a TABLE of token classes, each with a matcher that is the reference production itself (a regular
expression transcribed from the grammar above; the nestable comment is the only hand-written matcher), and a
driver that takes the LONGEST match over all classes at the current position.  The two places where the
reference departs from plain longest match are explicit rules:
  R1 (ambiguity rule) a word that begins with a complete radix literal `0x<hexdigit>` / `0b<bindigit>` is the
     integer (as long as its digits go) followed by the rest, even though TokIdentifier would match more
     (`0x1g` = `0x1`, `g`; llvm-tblgen does the same).  Other digit-leading words that contain a ualpha are
     identifiers: `4x`, `0_foo`, `12x3`, and also `0b`, `0x`, `0xg`, `0b2`, `0b_` (no digit of that base
     follows the prefix, so there is no numeric literal to prefer).
  R2 a construct that has BEGUN but cannot be completed makes the whole text "not a sequence of valid tokens"
     (result None): `"` without a well-formed end, `[{` without `}]`, `/*` without its matching `*/`, `$`
     without a name, `!` + letters that is no operator, `..` that is not `...`, an integer out of range, `#`
     directly followed by a directive word that is not a cleanly delimited directive, any other character.
When the result is None nothing is demanded of the implementation.

Kind names are the server's TokenKind names; the spelling tables below are written out by hand from the
reference and CHECKED against the Coq specification's lists (LexSpec.v keywords / bangs / puncts / directives)
by checks/C14.py through the extraction unit `lexspec` (`lexspec_run tables`).
`!logtwo` is the reference spelling of the operator the server calls XLog2 (`!log2` is not an operator)."""
import re

# ---------------------------------------------------------------------- spelling -> kind tables (by hand)

KEYWORDS = {
    "assert": "Assert", "bit": "Bit", "bits": "Bits", "class": "Class", "code": "Code", "dag": "Dag",
    "def": "Def", "dump": "Dump", "else": "ElseKw", "false": "FalseVal", "foreach": "Foreach", "defm": "Defm",
    "defset": "Defset", "defvar": "Defvar", "field": "Field", "if": "If", "in": "In", "include": "Include",
    "int": "Int", "let": "Let", "list": "List", "multiclass": "MultiClass", "string": "String", "then": "Then",
    "true": "TrueVal",
}

BANGS = {
    "!add": "XAdd", "!and": "XAnd", "!cast": "XCast", "!con": "XCon", "!dag": "XDag", "!div": "XDiv",
    "!empty": "XEmpty", "!eq": "XEq", "!exists": "XExists", "!filter": "XFilter", "!find": "XFind",
    "!foldl": "XFoldl", "!foreach": "XForEach", "!ge": "XGe", "!getdagarg": "XGetDagArg",
    "!getdagname": "XGetDagName", "!getdagop": "XGetDagOp", "!gt": "XGt", "!head": "XHead", "!if": "XIf",
    "!initialized": "XInitialized", "!interleave": "XInterleave", "!isa": "XIsA", "!le": "XLe",
    "!listconcat": "XListConcat", "!listflatten": "XListFlatten", "!listremove": "XListRemove",
    "!listsplat": "XListSplat", "!logtwo": "XLog2", "!lt": "XLt", "!mul": "XMul", "!ne": "XNe", "!not": "XNot",
    "!or": "XOr", "!range": "XRange", "!repr": "XRepr", "!setdagarg": "XSetDagArg", "!setdagname": "XSetDagName",
    "!setdagop": "XSetDagOp", "!shl": "XShl", "!size": "XSize", "!sra": "XSra", "!srl": "XSrl",
    "!strconcat": "XStrConcat", "!sub": "XSub", "!subst": "XSubst", "!substr": "XSubstr", "!tail": "XTail",
    "!tolower": "XToLower", "!toupper": "XToUpper", "!xor": "XXor", "!cond": "XCond",
}

PUNCTS = {
    "-": "Minus", "+": "Plus", "[": "LSquare", "]": "RSquare", "{": "LBrace", "}": "RBrace", "(": "LParen",
    ")": "RParen", "<": "Less", ">": "Greater", ":": "Colon", ";": "Semi", ",": "Comma", ".": "Dot",
    "...": "DotDotDot", "=": "Equal", "?": "Question", "#": "Paste",
}

DIRECTIVES = {"#define": "Define", "#ifdef": "Ifdef", "#ifndef": "Ifndef", "#else": "Else", "#endif": "Endif"}
DIRECTIVE_WORDS = ["define", "ifdef", "ifndef", "else", "endif"]

KEYWORD_KINDS = set(KEYWORDS.values())
BANG_KINDS = set(BANGS.values())
PUNCT_KINDS = set(PUNCTS.values())
DIRECTIVE_KINDS = set(DIRECTIVES.values())
SEP_KINDS = {"Whitespace", "LineComment", "BlockComment"}
WORDLIKE_KINDS = {"Id", "IntVal", "BinaryIntVal", "VarName"} | KEYWORD_KINDS

WS_CHARS = " \t\n\r\f"
TWO64 = 1 << 64
TWO63 = 1 << 63

# ---------------------------------------------------------------------- the productions

_DIGIT = "0-9"
_UALPHA = "a-zA-Z_"
RE_WS = re.compile("[ \t\n\r\f]+")
RE_LINE = re.compile("//[^\n\r]*")
RE_DEC = re.compile("[+-]?[%s]+" % _DIGIT)
RE_HEX = re.compile("0x[0-9a-fA-F]+")
RE_BIN = re.compile("0b[01]+")
RE_IDENT = re.compile("[%s]*[%s][%s%s]*" % (_DIGIT, _UALPHA, _UALPHA, _DIGIT))
RE_VAR = re.compile("\\$[%s][%s%s]*" % (_UALPHA, _UALPHA, _DIGIT))
RE_STRING = re.compile('"(?:[^"\\\\\n\r]|\\\\[\\\\\'"tn])*"')
RE_CODE = re.compile("\\[\\{.*?\\}\\]", re.S)
RE_BANG = re.compile("![a-zA-Z]+")
RE_LETTERS = re.compile("[a-zA-Z]+")
PUNCT_BY_LENGTH = sorted(PUNCTS, key=len, reverse=True)

BAD = object()      # R2: the construct began here but is not well formed


def m_ws(s, i):
    m = RE_WS.match(s, i)
    return (m.end(), "Whitespace") if m else None


def m_line_comment(s, i):
    m = RE_LINE.match(s, i)
    return (m.end(), "LineComment") if m else None


def m_block_comment(s, i):
    """nestable: "/*" opens, "*/" closes the innermost open comment; the token ends where the outermost closes"""
    if not s.startswith("/*", i):
        return None
    open_count, j, n = 1, i + 2, len(s)
    while j < n:
        two = s[j:j + 2]
        if two == "/*":
            open_count, j = open_count + 1, j + 2
        elif two == "*/":
            open_count, j = open_count - 1, j + 2
            if open_count == 0:
                return (j, "BlockComment")
        else:
            j += 1
    return BAD


def m_integer(s, i):
    """DecimalInteger | HexInteger | BinInteger, with the 64-bit range condition"""
    best = None
    for rx, kind, base, skip in ((RE_HEX, "IntVal", 16, 2), (RE_BIN, "BinaryIntVal", 2, 2), (RE_DEC, "IntVal", 10, 0)):
        m = rx.match(s, i)
        if not m:
            continue
        if best is not None and m.end() <= best[0]:
            continue
        lexeme = m.group(0)
        if base == 10:
            v = int(lexeme)
            ok = (-TWO63 <= v) if lexeme[0] == "-" else (v < TWO64)
        else:
            ok = int(lexeme[skip:], base) < TWO64
        best = (m.end(), kind, ok, base)
    return best


def m_identifier(s, i):
    m = RE_IDENT.match(s, i)
    if not m:
        return None
    return (m.end(), KEYWORDS.get(m.group(0), "Id"))


def m_var(s, i):
    if not s.startswith("$", i):
        return None
    m = RE_VAR.match(s, i)
    return (m.end(), "VarName") if m else BAD


def m_string(s, i):
    if not s.startswith('"', i):
        return None
    m = RE_STRING.match(s, i)
    return (m.end(), "StrVal") if m else BAD


def m_code(s, i):
    if not s.startswith("[{", i):
        return None
    m = RE_CODE.match(s, i)
    return (m.end(), "CodeFragment") if m else BAD


def m_bang(s, i):
    if not s.startswith("!", i):
        return None
    m = RE_BANG.match(s, i)
    if not m or m.group(0) not in BANGS:
        return BAD
    return (m.end(), BANGS[m.group(0)])


def m_directive(s, i):
    """`#` + directive word.  A directive is delimited by white space, a comment or the end of the text; `#`
    directly followed by a directive word in any other context is left unspecified (BAD)."""
    if not s.startswith("#", i):
        return None
    for w in DIRECTIVE_WORDS:
        if s.startswith(w, i + 1):
            m = RE_LETTERS.match(s, i + 1)
            j = i + 1 + len(w)
            if m.group(0) in DIRECTIVE_WORDS and (m.end() == len(s) or s[m.end()] in WS_CHARS or s[m.end()] == "/"):
                return (m.end(), DIRECTIVES["#" + m.group(0)])
            return BAD
    return None


def m_punct(s, i):
    for p in PUNCT_BY_LENGTH:
        if s.startswith(p, i):
            if p == "." and s.startswith("..", i):
                return BAD                       # `..` is neither `.` `.` nor `...`
            return (i + len(p), PUNCTS[p])
    return None


CLASS_TABLE = [m_ws, m_line_comment, m_block_comment, m_identifier, m_var, m_string, m_code, m_bang,
               m_directive, m_punct]


def next_token(s, i):
    """(end, kind) of the token that starts at i, or None when there is none (R2 or no class matches)"""
    num = m_integer(s, i)
    if num is not None and num[3] != 10:
        # R1: a complete radix literal at the start of a word is the numeric literal
        return (num[0], num[1]) if num[2] else None
    best = None
    if num is not None:
        best = (num[0], num[1], num[2])
    for matcher in CLASS_TABLE:
        r = matcher(s, i)
        if r is BAD:
            return None
        if r is not None and (best is None or r[0] > best[0]):
            best = (r[0], r[1], True)
    if best is None or not best[2]:
        return None
    return best[0], best[1]


def ref_lex(s):
    """s: str.  [(kind, start, end)] in code point offsets, without the final Eof; None = not a sequence of
    valid tokens (nothing is specified)."""
    out, i, n = [], 0, len(s)
    while i < n:
        r = next_token(s, i)
        if r is None:
            return None
        out.append((r[1], i, r[0]))
        i = r[0]
    return out


def u8len(c):
    c = ord(c)
    return 1 if c < 0x80 else 2 if c < 0x800 else 3 if c < 0x10000 else 4


def byte_offsets(s):
    """code point index -> byte offset (length len(s)+1)"""
    offs, o = [0], 0
    for c in s:
        o += u8len(c)
        offs.append(o)
    return offs


def ref_lex_bytes(s):
    """[[kind, start byte, end byte], ..., ["Eof", len, len]] or None"""
    toks = ref_lex(s)
    if toks is None:
        return None
    offs = byte_offsets(s)
    return [[k, offs[a], offs[b]] for k, a, b in toks] + [["Eof", offs[-1], offs[-1]]]


# ---------------------------------------------------------------------- when may a token be followed directly by text r?

def follow_ok(kind, r):
    """Maximal munch does not merge the token of this kind with the text r that follows it directly:
    a word-like token (identifier, keyword, integer, $name) is not followed by a letter, digit or `_`; a bang
    operator not by a letter; `+` `-` not by a digit (signed integer); `.` not by `.`; `[` not by `{` (code);
    `#` not by a directive word; a white-space run is maximal; a line comment runs to the end of its line."""
    c = r[:1]
    if kind in WORDLIKE_KINDS:
        return not (c != "" and (c in "_" or "0" <= c <= "9" or "a" <= c <= "z" or "A" <= c <= "Z"))
    if kind in BANG_KINDS:
        return not (c != "" and ("a" <= c <= "z" or "A" <= c <= "Z"))
    if kind in DIRECTIVE_KINDS:
        return not (c != "" and ("a" <= c <= "z" or "A" <= c <= "Z" or ord(c) >= 128))
    if kind in ("Plus", "Minus"):
        return not (c != "" and "0" <= c <= "9")
    if kind == "Dot":
        return c != "."
    if kind == "LSquare":
        return c != "{"
    if kind == "Paste":
        return not any(r.startswith(w) for w in DIRECTIVE_WORDS)
    if kind == "Whitespace":
        return not (c != "" and c in WS_CHARS)
    if kind == "LineComment":
        return c == "" or c in "\n\r"
    return True


def not_merged(pieces):
    """pieces: [(kind, lexeme)]"""
    rest = ""
    for kind, w in reversed(pieces):
        if not follow_ok(kind, rest):
            return False
        rest = w + rest if len(rest) < 64 else w + rest[:64]
    return True


def adjacent_ok(p, q):
    ps, qs = p[0] in SEP_KINDS, q[0] in SEP_KINDS
    if not (ps or qs):
        return False
    if p[0] == "Whitespace":
        return q[0] != "Whitespace"
    if p[0] == "LineComment":
        return q[0] == "Whitespace" and q[1][:1] in ("\n", "\r") and q[1] != ""
    return True


def separated(pieces):
    return all(adjacent_ok(pieces[i], pieces[i + 1]) for i in range(len(pieces) - 1))


# ---------------------------------------------------------------------- validity of a single instance (reference view)

def is_instance(kind, w):
    """lexeme w is an instance of the class the server names `kind` (tokens, separators, directives)"""
    if w == "":
        return False
    if kind == "Whitespace":
        return RE_WS.fullmatch(w) is not None
    if kind == "LineComment":
        return RE_LINE.fullmatch(w) is not None
    if kind == "BlockComment":
        r = m_block_comment(w, 0)
        return r is not None and r is not BAD and r[0] == len(w)
    if kind == "IntVal":
        for rx, base in ((RE_DEC, 10), (RE_HEX, 16)):
            if rx.fullmatch(w):
                if base == 16:
                    return int(w[2:], 16) < TWO64
                v = int(w)
                return (-TWO63 <= v) if w[0] == "-" else (v < TWO64)
        return False
    if kind == "BinaryIntVal":
        return RE_BIN.fullmatch(w) is not None and int(w[2:], 2) < TWO64
    if kind == "Id":
        return (RE_IDENT.fullmatch(w) is not None and w not in KEYWORDS
                and not (RE_HEX.match(w) or RE_BIN.match(w)))
    if kind == "VarName":
        return RE_VAR.fullmatch(w) is not None
    if kind == "StrVal":
        return RE_STRING.fullmatch(w) is not None
    if kind == "CodeFragment":
        m = RE_CODE.match(w)
        return m is not None and m.end() == len(w)
    if kind in KEYWORD_KINDS:
        return KEYWORDS.get(w) == kind
    if kind in BANG_KINDS:
        return BANGS.get(w) == kind
    if kind in PUNCT_KINDS:
        return PUNCTS.get(w) == kind
    if kind in DIRECTIVE_KINDS:
        return DIRECTIVES.get(w) == kind
    return False
