"""Group "bridge": the typed-AST layer and the end-to-end pipeline INSIDE the Coq model.

  coq/model/AstToCore.v   core_of_tree : parse tree -> CoreAst, through the accessor table gen/GenAst.v that
                          tools/translate/t_ast.py regenerates from crates/syntax/src/ast.rs
  coq/model/Pipeline.v    analyze : texts -> parse (model parser) -> include resolution (Includes.v / Host.v)
                          -> core_of_tree -> Indexer.v -> diagnostics / goto_definition / references
  coq/extract/bridge_run  `core` and `analyze` (driver coq/extract/bridge_driver.ml)

This library is NOT a property check.  It provides the two correspondences that let the ide-level checks
(C05, C13, C06, ...) take their model input from the Coq bridge instead of harness/src/bin/coreast.rs:

  check_bridge(ctx, workspaces)    bridge_run core / analyze  ==  harness coreast   (real tree, real accessors):
                                   the CoreAst serialisation character by character, the "noncore" reason, the
                                   workspace file list and the parse errors
  check_pipeline(ctx, workspaces)  bridge_run analyze  ==  harness idedump  (real Analysis): goto_definition and
                                   references at every offset of every file, diagnostics by (file, range, class)

A workspace is {"files": {path: text}, "root": path} (as in lib/scopelib.py).
"""
import json
import os
import re
import subprocess

import vlib
import scopelib as sl

BINS = ["coreast", "idedump"]

BOPS = set("""XAdd XAnd XMul XOr XXor XDiv XSub XSrl XSra XShl XCast XCon XDag XEmpty XEq XNe XExists XFilter XFind
XFoldl XForEach XGe XGt XLe XLt XGetDagArg XGetDagName XGetDagOp XHead XIf XInitialized XInterleave XIsA XListConcat
XListFlatten XListRemove XListSplat XLog2 XNot XRange XRepr XSetDagArg XSetDagName XSetDagOp XSize XStrConcat XSubst
XSubstr XTail XToLower XToUpper""".split())
NO_ARM = "bang operator without an arm"


def cps(s):
    return " ".join(str(ord(c)) for c in s)


def norm_path(p):
    """std::path::PathBuf compares by components: empty and '.' components vanish"""
    return "/" + "/".join(x for x in p.split("/") if x not in ("", "."))


def build():
    """(bindir of the harness observers, path of bridge_run); raises vlib.BuildError"""
    bindir = vlib.build_harness(False, bins=BINS)
    exe = vlib.build_model("bridge")
    return bindir, exe


def _run_lines(exe, cmd, lines, timeout=3600):
    if not lines:
        return []
    out = sl._run([exe, cmd], "\n".join(lines) + "\n", timeout=timeout, unlimited_stack=True)
    res = []
    for line in out.split("\n")[:len(lines)]:
        try:
            res.append(json.loads(line))
        except ValueError:
            res.append({"error": "unreadable driver output: " + line[:200]})
    while len(res) < len(lines):
        res.append({"error": "driver produced no output"})
    return res


def bridge_core(exe, items):
    """items: [(file number, [(lo, hi, target)], text)] -> list of bridge_run core objects"""
    lines = ["%d ; %s ; %s" % (f, " ".join("%d %d %d" % l for l in links), cps(text)) for f, links, text in items]
    return _run_lines(exe, "core", lines)


def bridge_analyze(exe, wss, cmd="analyze"):
    """list of workspaces -> list of bridge_run analyze objects.  Paths and texts must not contain what the line
    protocol uses as separators (they are code point lists, so anything goes)."""
    lines = []
    for w in wss:
        lines.append(" ; ".join([cps(w["root"])] + ["%s | %s" % (cps(p), cps(t)) for p, t in w["files"].items()]))
    return _run_lines(exe, cmd, lines)


def core_via_bridge(exe, wss):
    """DROP-IN replacement of scopelib.core(bindir, wss): the CoreAst serialisation of each workspace computed by
    the Coq bridge (model parser + generated accessor table + modelled include resolution) instead of
    harness/src/bin/coreast.rs.  Objects have the keys scopelib.model / scopelib.correspond read:
    "files" (paths, position = file number), "ast" ("(ws ..)" | None), "noncore" (reason | None),
    "parse_errors" {path: [[lo, hi, msg], ..]} (+ "lens", "shape_ok", "noncore_file").
    The paths are the workspace's own spelling when it has one that is equal up to '.' / empty components."""
    out = []
    for w, a in zip(wss, bridge_analyze(exe, wss, cmd="corews")):
        if a.get("error"):
            out.append({"panic": a["error"]})
            continue
        spell = {norm_path(p): p for p in w["files"]}
        files = [spell.get(f, f) for f in a["files"]]
        o = dict(a)
        o["files"] = files
        o["parse_errors"] = {spell.get(f, f): v for f, v in a["parse_errors"].items()}
        if a.get("noncore") is not None:
            o["noncore"] = "%s: %s" % (files[a["noncore_file"]], a["noncore"])
        out.append(o)
    return out


def split_files(ws_sexp):
    """'(ws (file ..) (file ..))' -> ['(file ..)', ...]"""
    assert ws_sexp.startswith("(ws ") and ws_sexp.endswith(")"), ws_sexp[:40]
    body = ws_sexp[4:-1]
    out, depth, st = [], 0, None
    for i, ch in enumerate(body):
        if ch == "(":
            if depth == 0:
                st = i
            depth += 1
        elif ch == ")":
            depth -= 1
            if depth == 0:
                out.append(body[st:i + 1])
    return out


_BANG = re.compile(r"\(bang (\w+) ")
_INC = re.compile(r"\(include \d+ (\d+) (\d+) \(some (\d+)\)\)")


def bad_bang(sexp):
    return any(k not in BOPS for k in _BANG.findall(sexp or ""))


def _ws_text(ws, path):
    n = {norm_path(p): t for p, t in ws["files"].items()}
    return n.get(norm_path(path), "")


def compare_core(ws, cobj, aobj):
    """coreast object vs bridge_run analyze object: list of disagreement strings"""
    bad = []
    if cobj.get("panic"):
        return ["coreast panicked: %s" % str(cobj["panic"])[:200]]
    if aobj.get("error"):
        return ["bridge_run analyze: " + aobj["error"]]
    if [norm_path(p) for p in cobj["files"]] != aobj["files"]:
        return ["workspace files: implementation %r, model %r" % (cobj["files"], aobj["files"])]
    for p, q in zip(cobj["files"], aobj["files"]):
        pi = [tuple(e) for e in cobj["parse_errors"].get(p, [])]
        pm = [tuple(e) for e in aobj["parse_errors"].get(q, [])]
        if pi != pm:
            bad.append("parse errors of %s: implementation %r, model %r" % (p, pi[:3], pm[:3]))
    if not aobj.get("shape_ok", False):
        bad.append("ident_shape fails: an Identifier node of a model tree does not start with an Id token")
    ca, ma = cobj.get("ast"), aobj.get("ast")
    cn, mn = cobj.get("noncore"), aobj.get("noncore")
    if mn == NO_ARM:
        if not (cn or bad_bang(ca)):
            bad.append("model: bang operator without an arm; coreast: %s" % (ca or "")[:200])
    elif mn is not None:
        if cn is None:
            bad.append("model noncore (%s), coreast Core" % mn)
        elif cn != "%s: %s" % (cobj["files"][aobj["noncore_file"]], mn):
            bad.append("noncore reason: coreast %r, model %r in file %r" % (cn, mn, aobj["noncore_file"]))
    else:
        if cn is not None:
            bad.append("coreast noncore (%s), model Core" % cn)
        elif ca != ma:
            i = next((k for k in range(min(len(ca), len(ma))) if ca[k] != ma[k]), min(len(ca), len(ma)))
            bad.append("CoreAst differs at char %d: coreast ...%s  model ...%s" % (i, ca[max(0, i - 60):i + 60], ma[max(0, i - 60):i + 60]))
    return bad


def check_bridge(ctx, workspaces, built=None, per_file=True, chunk=60):
    """bridge (Coq: model parser + generated accessor table) == coreast (real parser + real accessors).
    Returns {"workspaces", "files", "core_workspaces", "core_files", "noncore_workspaces", "disagreements": [...],
             "tags": set of CoreAst constructor tags seen}."""
    bindir, exe = built or build()
    res = {"workspaces": 0, "files": 0, "core_workspaces": 0, "core_files": 0, "noncore_workspaces": 0,
           "disagreements": [], "tags": set()}
    for part in vlib.chunked(list(workspaces), chunk):
        C = sl.core(bindir, part)
        A = bridge_analyze(exe, part, cmd="corews")
        items, where = [], []
        for w, c, a in zip(part, C, A):
            res["workspaces"] += 1
            bad = compare_core(w, c, a)
            if c.get("panic"):
                res["disagreements"].append({"workspace": w, "what": bad})
                continue
            res["files"] += len(c["files"])
            if c.get("ast") is None:
                res["noncore_workspaces"] += 1
            else:
                res["core_workspaces"] += 1
                res["core_files"] += len(c["files"])
                res["tags"].update(re.findall(r"\((\w+)", c["ast"]))
                res["tags"].update("sl" + x for x in re.findall(r"\(sl (\d)\)", c["ast"]))
                res["tags"].update("include-" + x for x in re.findall(r"\(include \d+ \d+ \d+ \((some|none)", c["ast"]))
            if bad:
                res["disagreements"].append({"workspace": w, "what": bad})
            # the same files one by one through `bridge_run core` (links taken from the real serialisation)
            if per_file and c.get("ast") is not None and not bad_bang(c["ast"]):
                for k, (p, fs) in enumerate(zip(c["files"], split_files(c["ast"]))):
                    links = [(int(a_), int(b_), int(t_)) for a_, b_, t_ in _INC.findall(fs)]
                    items.append((k, links, _ws_text(w, p)))
                    where.append((w, p, fs, c["parse_errors"].get(p, [])))
        for (w, p, fs, pe), o in zip(where, bridge_core(exe, items)):
            if o.get("error") or o.get("parse"):
                res["disagreements"].append({"workspace": w, "what": ["bridge_run core on %s: %r" % (p, o)]})
            elif o.get("ast") != fs:
                res["disagreements"].append({"workspace": w, "what": ["bridge_run core on %s: %s  vs coreast %s" % (
                    p, (o.get("ast") or o.get("noncore"))[:300], fs[:300])]})
            elif [tuple(e) for e in o["perrs"]] != [tuple(e) for e in pe]:
                res["disagreements"].append({"workspace": w, "what": ["parse errors of %s differ (core)" % p]})
            elif not o.get("complete", True) and not o["perrs"]:
                # error-free parse of a Core file that is not locally complete (Bridge_complete_is_core's converse half)
                res.setdefault("errfree_incomplete", []).append(p)
    return res


def check_pipeline(ctx, workspaces, built=None, chunk=60):
    """END TO END: the answers computed inside the extracted Coq model from the TEXTS (bridge_run analyze) ==
    the real Analysis (harness idedump) for goto_definition + references at every offset and the diagnostics.
    Workspaces outside Core (model says noncore) are counted, not compared."""
    bindir, exe = built or build()
    res = {"workspaces": 0, "compared": 0, "noncore": 0, "queries": 0, "identifier_queries": 0, "disagreements": []}
    for part in vlib.chunked(list(workspaces), chunk):
        I = sl.impl(bindir, part)
        A = bridge_analyze(exe, part)
        for w, i, a in zip(part, I, A):
            res["workspaces"] += 1
            if i.get("panic"):
                res["disagreements"].append({"workspace": w, "what": ["implementation panicked: %s" % str(i["panic"])[:200]]})
                continue
            if a.get("error"):
                res["disagreements"].append({"workspace": w, "what": ["bridge_run analyze: " + a["error"]]})
                continue
            if a.get("noncore") is not None:
                res["noncore"] += 1
                continue
            # the model's own file list, parse errors (for the message classes) and answers
            files = a["files"]
            keys = {norm_path(p): p for p in i["len"]}
            if sorted(keys) != sorted(files):
                res["disagreements"].append({"workspace": w, "what": ["workspace files: implementation %r, model %r" % (sorted(keys), files)]})
                continue
            cobj = {"files": [keys[f] for f in files],
                    "parse_errors": {keys[f]: a["parse_errors"].get(f, []) for f in files}}
            bad = sl.correspond(w, i, cobj, a)
            res["compared"] += 1
            res["queries"] += sum(v + 1 for v in i["len"].values())
            res["identifier_queries"] += len(re.findall(r"\(id ", a["ast"]))
            if bad:
                res["disagreements"].append({"workspace": w, "what": bad[:5]})
    return res


def check_complete(ctx, workspaces, built=None):
    """Local completeness (coq/model/TreeComplete.v) on every file, parsed alone by the MODEL parser:
    (i) tree_complete => the bridge returns a Core AST (theorem Bridge_complete_is_core, re-observed);
    (ii) a parse without errors is locally complete, except for the semantic refusal "negative bits length"
         (NOT a theorem: the grammar-level half; a counterexample here is a finding about the grammar or the bridge)."""
    _bindir, exe = built or build()
    items = [(0, [], t) for w in workspaces for t in w["files"].values()]
    res = {"files": 0, "complete": 0, "error_free": 0, "violations": []}
    for (f, l, t), o in zip(items, bridge_core(exe, items)):
        if o.get("parse") or o.get("error"):
            continue
        res["files"] += 1
        res["complete"] += bool(o["complete"])
        res["error_free"] += not o["perrs"]
        if o["complete"] and o["ast"] is None:
            res["violations"].append({"text": t, "what": "complete but refused: %s" % o["noncore"]})
        if not o["perrs"] and not o["complete"] and o["noncore"] != "negative bits length":
            res["violations"].append({"text": t, "what": "error-free parse, not locally complete: %s" % o["noncore"]})
    return res
