"""Group "bridge": the typed-AST layer and the end-to-end pipeline INSIDE the Coq model.

  coq/model/AstToCore.v   core_of_tree : parse tree -> CoreAst, through the accessor table gen/GenAst.v that
                          tools/translate/t_ast.py regenerates from crates/syntax/src/ast.rs
  coq/model/Pipeline.v    analyze : texts -> parse (model parser) -> include resolution (Includes.v / Host.v)
                          -> core_of_tree -> Indexer.v -> diagnostics / goto_definition / references
  coq/extract/bridge_run  `core` and `analyze` (driver coq/extract/bridge_driver.ml)

This library is NOT a property check.  It provides the two correspondences that let the ide-level checks
(C05, C13, C06, ...) take their model input from the Coq bridge instead of harness/src/bin/coreast.rs:

  check_bridge(ctx, workspaces)    bridge_run core / analyze  ==  harness coreast   (real tree, real accessors):
                                   the CoreAst serialisation character by character, the "noncore" reason, the
                                   workspace file list and the parse errors
  check_pipeline(ctx, workspaces)  bridge_run analyze  ==  harness idedump  (real Analysis): goto_definition and
                                   references at every offset of every file, diagnostics by (file, range, class)

A workspace is {"files": {path: text}, "root": path} (as in lib/scopelib.py).
"""
import json
import os
import re
import subprocess

import vlib
import scopelib as sl

BINS = ["coreast", "idedump"]

BOPS = set("""XAdd XAnd XMul XOr XXor XDiv XSub XSrl XSra XShl XCast XCon XDag XEmpty XEq XNe XExists XFilter XFind
XFoldl XForEach XGe XGt XLe XLt XGetDagArg XGetDagName XGetDagOp XHead XIf XInitialized XInterleave XIsA XListConcat
XListFlatten XListRemove XListSplat XLog2 XNot XRange XRepr XSetDagArg XSetDagName XSetDagOp XSize XStrConcat XSubst
XSubstr XTail XToLower XToUpper""".split())
NO_ARM = "bang operator without an arm"


def cps(s):
    return " ".join(str(ord(c)) for c in s)


def norm_path(p):
    """std::path::PathBuf compares by components: empty and '.' components vanish"""
    return "/" + "/".join(x for x in p.split("/") if x not in ("", "."))


def build():
    """(bindir of the harness observers, path of bridge_run); raises vlib.BuildError"""
    bindir = vlib.build_harness(False, bins=BINS)
    exe = vlib.build_model("bridge")
    return bindir, exe


def _run_lines(exe, cmd, lines, timeout=3600):
    if not lines:
        return []
    out = sl._run([exe, cmd], "\n".join(lines) + "\n", timeout=timeout, unlimited_stack=True)
    res = []
    for line in out.split("\n")[:len(lines)]:
        try:
            res.append(json.loads(line))
        except ValueError:
            res.append({"error": "unreadable driver output: " + line[:200]})
    while len(res) < len(lines):
        res.append({"error": "driver produced no output"})
    return res


def bridge_core(exe, items):
    """items: [(file number, [(lo, hi, target)], text)] -> list of bridge_run core objects"""
    lines = ["%d ; %s ; %s" % (f, " ".join("%d %d %d" % l for l in links), cps(text)) for f, links, text in items]
    return _run_lines(exe, "core", lines)


def bridge_analyze(exe, wss, cmd="analyze"):
    """list of workspaces -> list of bridge_run analyze objects.  Paths and texts must not contain what the line
    protocol uses as separators (they are code point lists, so anything goes)."""
    lines = []
    for w in wss:
        lines.append(" ; ".join([cps(w["root"])] + ["%s | %s" % (cps(p), cps(t)) for p, t in w["files"].items()]))
    return _run_lines(exe, cmd, lines)


def core_via_bridge(exe, wss):
    """DROP-IN replacement of scopelib.core(bindir, wss): the CoreAst serialisation of each workspace computed by
    the Coq bridge (model parser + generated accessor table + modelled include resolution) instead of
    harness/src/bin/coreast.rs.  Objects have the keys scopelib.model / scopelib.correspond read:
    "files" (paths, position = file number), "ast" ("(ws ..)" | None), "noncore" (reason | None),
    "parse_errors" {path: [[lo, hi, msg], ..]} (+ "lens", "shape_ok", "noncore_file").
    The paths are the workspace's own spelling when it has one that is equal up to '.' / empty components."""
    out = []
    for w, a in zip(wss, bridge_analyze(exe, wss, cmd="corews")):
        if a.get("error"):
            out.append({"panic": a["error"]})
            continue
        spell = {norm_path(p): p for p in w["files"]}
        files = [spell.get(f, f) for f in a["files"]]
        o = dict(a)
        o["files"] = files
        o["parse_errors"] = {spell.get(f, f): v for f, v in a["parse_errors"].items()}
        if a.get("noncore") is not None:
            o["noncore"] = "%s: %s" % (files[a["noncore_file"]], a["noncore"])
        out.append(o)
    return out


def split_files(ws_sexp):
    """'(ws (file ..) (file ..))' -> ['(file ..)', ...]"""
    assert ws_sexp.startswith("(ws ") and ws_sexp.endswith(")"), ws_sexp[:40]
    body = ws_sexp[4:-1]
    out, depth, st = [], 0, None
    for i, ch in enumerate(body):
        if ch == "(":
            if depth == 0:
                st = i
            depth += 1
        elif ch == ")":
            depth -= 1
            if depth == 0:
                out.append(body[st:i + 1])
    return out


_BANG = re.compile(r"\(bang (\w+) ")
_INC = re.compile(r"\(include \d+ (\d+) (\d+) \(some (\d+)\)\)")


def bad_bang(sexp):
    return any(k not in BOPS for k in _BANG.findall(sexp or ""))


def _ws_text(ws, path):
    n = {norm_path(p): t for p, t in ws["files"].items()}
    return n.get(norm_path(path), "")


def compare_core(ws, cobj, aobj):
    """coreast object vs bridge_run analyze object: list of disagreement strings"""
    bad = []
    if cobj.get("panic"):
        return ["coreast panicked: %s" % str(cobj["panic"])[:200]]
    if aobj.get("error"):
        return ["bridge_run analyze: " + aobj["error"]]
    if [norm_path(p) for p in cobj["files"]] != aobj["files"]:
        return ["workspace files: implementation %r, model %r" % (cobj["files"], aobj["files"])]
    for p, q in zip(cobj["files"], aobj["files"]):
        pi = [tuple(e) for e in cobj["parse_errors"].get(p, [])]
        pm = [tuple(e) for e in aobj["parse_errors"].get(q, [])]
        if pi != pm:
            bad.append("parse errors of %s: implementation %r, model %r" % (p, pi[:3], pm[:3]))
    if not aobj.get("shape_ok", False):
        bad.append("ident_shape fails: an Identifier node of a model tree does not start with an Id token")
    ca, ma = cobj.get("ast"), aobj.get("ast")
    cn, mn = cobj.get("noncore"), aobj.get("noncore")
    if mn == NO_ARM:
        if not (cn or bad_bang(ca)):
            bad.append("model: bang operator without an arm; coreast: %s" % (ca or "")[:200])
    elif mn is not None:
        if cn is None:
            bad.append("model noncore (%s), coreast Core" % mn)
        elif cn != "%s: %s" % (cobj["files"][aobj["noncore_file"]], mn):
            bad.append("noncore reason: coreast %r, model %r in file %r" % (cn, mn, aobj["noncore_file"]))
    else:
        if cn is not None:
            bad.append("coreast noncore (%s), model Core" % cn)
        elif ca != ma:
            i = next((k for k in range(min(len(ca), len(ma))) if ca[k] != ma[k]), min(len(ca), len(ma)))
            bad.append("CoreAst differs at char %d: coreast ...%s  model ...%s" % (i, ca[max(0, i - 60):i + 60], ma[max(0, i - 60):i + 60]))
    return bad


def check_bridge(ctx, workspaces, built=None, per_file=True, chunk=60):
    """bridge (Coq: model parser + generated accessor table) == coreast (real parser + real accessors).
    Returns {"workspaces", "files", "core_workspaces", "core_files", "noncore_workspaces", "disagreements": [...],
             "tags": set of CoreAst constructor tags seen}."""
    bindir, exe = built or build()
    res = {"workspaces": 0, "files": 0, "core_workspaces": 0, "core_files": 0, "noncore_workspaces": 0,
           "disagreements": [], "tags": set()}
    for part in vlib.chunked(list(workspaces), chunk):
        C = sl.core(bindir, part)
        A = bridge_analyze(exe, part, cmd="corews")
        items, where = [], []
        for w, c, a in zip(part, C, A):
            res["workspaces"] += 1
            bad = compare_core(w, c, a)
            if c.get("panic"):
                res["disagreements"].append({"workspace": w, "what": bad})
                continue
            res["files"] += len(c["files"])
            if c.get("ast") is None:
                res["noncore_workspaces"] += 1
            else:
                res["core_workspaces"] += 1
                res["core_files"] += len(c["files"])
                res["tags"].update(re.findall(r"\((\w+)", c["ast"]))
                res["tags"].update("sl" + x for x in re.findall(r"\(sl (\d)\)", c["ast"]))
                res["tags"].update("include-" + x for x in re.findall(r"\(include \d+ \d+ \d+ \((some|none)", c["ast"]))
            if bad:
                res["disagreements"].append({"workspace": w, "what": bad})
            # the same files one by one through `bridge_run core` (links taken from the real serialisation)
            if per_file and c.get("ast") is not None and not bad_bang(c["ast"]):
                for k, (p, fs) in enumerate(zip(c["files"], split_files(c["ast"]))):
                    links = [(int(a_), int(b_), int(t_)) for a_, b_, t_ in _INC.findall(fs)]
                    items.append((k, links, _ws_text(w, p)))
                    where.append((w, p, fs, c["parse_errors"].get(p, [])))
        for (w, p, fs, pe), o in zip(where, bridge_core(exe, items)):
            if o.get("error") or o.get("parse"):
                res["disagreements"].append({"workspace": w, "what": ["bridge_run core on %s: %r" % (p, o)]})
            elif o.get("ast") != fs:
                res["disagreements"].append({"workspace": w, "what": ["bridge_run core on %s: %s  vs coreast %s" % (
                    p, (o.get("ast") or o.get("noncore"))[:300], fs[:300])]})
            elif [tuple(e) for e in o["perrs"]] != [tuple(e) for e in pe]:
                res["disagreements"].append({"workspace": w, "what": ["parse errors of %s differ (core)" % p]})
            elif not o.get("complete", True) and not o["perrs"]:
                # error-free parse of a Core file that is not locally complete (Bridge_complete_is_core's converse half)
                res.setdefault("errfree_incomplete", []).append(p)
    return res


def check_pipeline(ctx, workspaces, built=None, chunk=60):
    """END TO END: the answers computed inside the extracted Coq model from the TEXTS (bridge_run analyze) ==
    the real Analysis (harness idedump) for goto_definition + references at every offset and the diagnostics.
    Workspaces outside Core (model says noncore) are counted, not compared."""
    bindir, exe = built or build()
    res = {"workspaces": 0, "compared": 0, "noncore": 0, "queries": 0, "identifier_queries": 0, "disagreements": []}
    for part in vlib.chunked(list(workspaces), chunk):
        I = sl.impl(bindir, part)
        A = bridge_analyze(exe, part)
        for w, i, a in zip(part, I, A):
            res["workspaces"] += 1
            if i.get("panic"):
                res["disagreements"].append({"workspace": w, "what": ["implementation panicked: %s" % str(i["panic"])[:200]]})
                continue
            if a.get("error"):
                res["disagreements"].append({"workspace": w, "what": ["bridge_run analyze: " + a["error"]]})
                continue
            if a.get("noncore") is not None:
                res["noncore"] += 1
                continue
            # the model's own file list, parse errors (for the message classes) and answers
            files = a["files"]
            keys = {norm_path(p): p for p in i["len"]}
            if sorted(keys) != sorted(files):
                res["disagreements"].append({"workspace": w, "what": ["workspace files: implementation %r, model %r" % (sorted(keys), files)]})
                continue
            cobj = {"files": [keys[f] for f in files],
                    "parse_errors": {keys[f]: a["parse_errors"].get(f, []) for f in files}}
            bad = sl.correspond(w, i, cobj, a)
            res["compared"] += 1
            res["queries"] += sum(v + 1 for v in i["len"].values())
            res["identifier_queries"] += len(re.findall(r"\(id ", a["ast"]))
            if bad:
                res["disagreements"].append({"workspace": w, "what": bad[:5]})
    return res


def check_complete(ctx, workspaces, built=None):
    """Local completeness (coq/model/TreeComplete.v) on every file, parsed alone by the MODEL parser:
    (i) tree_complete => the bridge returns a Core AST (theorem Bridge_complete_is_core, re-observed);
    (ii) a parse without errors is locally complete, except for the semantic refusal "negative bits length"
         (NOT a theorem: the grammar-level half; a counterexample here is a finding about the grammar or the bridge)."""
    _bindir, exe = built or build()
    items = [(0, [], t) for w in workspaces for t in w["files"].values()]
    res = {"files": 0, "complete": 0, "error_free": 0, "violations": []}
    for (f, l, t), o in zip(items, bridge_core(exe, items)):
        if o.get("parse") or o.get("error"):
            continue
        res["files"] += 1
        res["complete"] += bool(o["complete"])
        res["error_free"] += not o["perrs"]
        if o["complete"] and o["ast"] is None:
            res["violations"].append({"text": t, "what": "complete but refused: %s" % o["noncore"]})
        if not o["perrs"] and not o["complete"] and o["noncore"] != "negative bits length":
            res["violations"].append({"text": t, "what": "error-free parse, not locally complete: %s" % o["noncore"]})
    return res


# ------------------------------------------------------------------ the complete analysis (all nine handlers)
def build_all():
    """(bindir of the harness observers, path of bridgeall_run)"""
    bindir = vlib.build_harness(False, bins=BINS)
    exe = vlib.build_model("bridgeall")
    return bindir, exe


def char_offsets(text):
    b = text.encode("utf-8")
    return [i for i in range(len(b) + 1) if i == len(b) or (b[i] & 0xC0) != 0x80]


def hint_sample(rng, text, k=6):
    """inlay-hint request ranges of one file: the whole file, the empty range at both ends, and k random sub-ranges
    on char boundaries"""
    offs = char_offsets(text)
    n = offs[-1]
    out = [(0, n), (0, 0), (n, n)]
    for _ in range(k):
        a, b = sorted((rng.choice(offs), rng.choice(offs)))
        out.append((a, b))
    return out


def _expand(runs, offs):
    out, j = {}, -1
    for o in offs:
        while j + 1 < len(runs) and runs[j + 1]["o"] <= o:
            j += 1
        out[o] = runs[j] if j >= 0 else None
    return out


def _canon_items(items):
    """completion items with every maximal run of Class items sorted (iter_class is a HashMap iteration)"""
    if items is None:
        return None
    out, run = [], []
    for it in items:
        if it[2] == "Class":
            run.append(it)
        else:
            out += sorted(run, key=json.dumps)
            run = []
            out.append(it)
    return out + sorted(run, key=json.dumps)


ALL_HANDLERS = ["goto_definition", "references", "diagnostics", "document_symbol", "hover", "inlay_hint",
                "folding_range", "document_link", "completion"]


def check_all(ctx, workspaces, rng, built=None, chunk=30, hint_k=6):
    """THE COMPLETE ANALYSIS END TO END: the nine answers computed inside the extracted Coq model from the TEXTS
    (bridgeall_run all = PipelineAll.analyze_all) == the real Analysis (harness idedump): goto_definition, references,
    hover and completion (no trigger and '!') at every char-boundary offset of every workspace file; document_symbol,
    folding_range, document_link and the per-file diagnostics of every file; inlay_hint for a sample of request ranges.
    A disagreement names the handler (= the model that computed the answer) and the input."""
    bindir, exe = built or build_all()
    res = {"workspaces": 0, "compared": 0, "noncore": 0, "offsets": 0, "hint_requests": 0, "files": 0,
           "by_handler": {h: 0 for h in ALL_HANDLERS}, "nonempty": {h: 0 for h in ALL_HANDLERS},
           "model_internal": 0, "disagreements": []}
    for part in vlib.chunked(list(workspaces), chunk):
        hints = [{p: hint_sample(rng, t, hint_k) for p, t in w["files"].items()} for w in part]
        inp = json.dumps([{"files": [[p, t] for p, t in w["files"].items()], "root": w["root"],
                           "hint_ranges": [[p, lo, hi] for p, hs in h.items() for lo, hi in hs]}
                          for w, h in zip(part, hints)])
        I = json.loads(sl._run([os.path.join(bindir, "idedump")], inp, timeout=3600))
        lines = [" ; ".join([cps(w["root"])] + ["%s | %s | %s" % (cps(p), cps(t), " ".join("%d %d" % x for x in h[p]))
                                                for p, t in w["files"].items()]) for w, h in zip(part, hints)]
        A = _run_lines(exe, "all", lines)
        for w, i, a in zip(part, I, A):
            res["workspaces"] += 1

            def bad(handler, what, **kw):
                res["by_handler"][handler] = res["by_handler"].get(handler, 0) + 1
                res["disagreements"].append(dict(kw, workspace=w, handler=handler, what=what))
            if i.get("panic"):
                bad("analysis", "implementation panicked: %s" % str(i["panic"])[:200])
                continue
            if a.get("error"):
                bad("analysis", "bridgeall_run: " + a["error"])
                continue
            if a.get("noncore"):
                res["noncore"] += 1
                continue
            files = a["files"]
            keys = {norm_path(p): p for p in i["len"]}
            if sorted(keys) != sorted(files):
                bad("analysis", "workspace files: implementation %r, model %r" % (sorted(keys), files))
                continue
            res["compared"] += 1
            if a["bad"] or not a["sm_ok"] or not a["closed"]:
                bad("analysis", "model: indexer flag bad=%s, joined symbol map consistent=%s, id-closed=%s" % (a["bad"], a["sm_ok"], a["closed"]))
            texts = {norm_path(p): t for p, t in w["files"].items()}
            for k, f in enumerate(files):
                p = keys[f]
                res["files"] += 1
                # diagnostics: parse messages literally, index messages by class
                md = a["diagnostics"][k]
                pm = set(m for _lo, _hi, kind, m in (md or []) if kind == "parse")
                rd = sorted([lo, hi, "parse", m] if m in pm else [lo, hi, "index", sl.msg_class(m)]
                            for lo, hi, m in i["diagnostics"].get(p, []))
                if md is None or sorted(md) != rd:
                    bad("diagnostics", "file %s: implementation %r, model %r" % (f, rd[:6], md if md is None else sorted(md)[:6]))
                res["nonempty"]["diagnostics"] += bool(rd)
                # whole-file handlers
                if a["symbols"][k] != i["symbols"][p]:
                    bad("document_symbol", "file %s: implementation %s, model %s" % (
                        f, json.dumps(i["symbols"][p])[:400], json.dumps(a["symbols"][k])[:400]))
                res["nonempty"]["document_symbol"] += bool(i["symbols"][p])
                if a["folding"][k] != i["folding"][p]:
                    bad("folding_range", "file %s: implementation %r, model %r" % (f, i["folding"][p], a["folding"][k]))
                res["nonempty"]["folding_range"] += bool(i["folding"][p])
                ml = a["links"][k]
                ml = None if ml is None else [[lo, hi, files[t]] for lo, hi, t in ml]
                rl = i["links"][p]
                rl = None if rl is None else [[lo, hi, norm_path(t)] for lo, hi, t in rl]
                if ml != rl:
                    bad("document_link", "file %s: implementation %r, model %r" % (f, rl, ml))
                res["nonempty"]["document_link"] += bool(rl)
                # per-offset handlers
                offs = char_offsets(texts.get(f, ""))
                re_, me = _expand(i["at"][p], offs), _expand(a["at"][k], offs)
                res["offsets"] += len(offs)
                seen = set()
                last = {}
                for o in offs:
                    r, m = re_[o], me[o]
                    if r is last.get("r") and m is last.get("m"):
                        continue
                    last = {"r": r, "m": m}
                    if r is None or m is None:
                        bad("analysis", "file %s offset %d: no entry (implementation %r, model %r)" % (f, o, r, m))
                        break

                    def mfr(x):
                        return None if x is None else [files[x[0]], x[1], x[2]]

                    def rfr(x):
                        return None if x is None else [norm_path(x[0]), x[1], x[2]]
                    cmp = [("goto_definition", rfr(r["def"]), mfr(m["def"])),
                           ("references", None if r["refs"] is None else [rfr(x) for x in r["refs"]],
                            None if m["refs"] is None else [mfr(x) for x in m["refs"]]),
                           ("hover", r["hover"], m["hover"]),
                           ("completion", [_canon_items(r["comp"]), _canon_items(r["compbang"])],
                            [_canon_items(m["comp"]), _canon_items(m["compbang"])])]
                    for h, x, y in cmp:
                        if x not in (None, [None, None]):
                            res["nonempty"][h] += 1
                        if x != y and h not in seen:
                            seen.add(h)
                            bad(h, "file %s offset %d: implementation %s, model %s" % (f, o, json.dumps(x)[:400], json.dumps(y)[:400]))
                    # the symbol-map model on the joined state against the indexer model's own answers
                    if (m["def_sm"] != m["def"] or m["refs_sm"] != m["refs"]) and "internal" not in seen:
                        seen.add("internal")
                        res["model_internal"] += 1
                        bad("model-internal", "file %s offset %d: Scope.v answers def %r refs %r, SymbolMap.v on the joined state def %r refs %r" % (
                            f, o, m["def"], m["refs"], m["def_sm"], m["refs_sm"]))
            # inlay hints
            mh = {(files[x[0]], x[1], x[2]): x[3] for x in a["hints"]}
            reported = False
            for p, hs in i["hints"].items():
                for lo, hi, rh in hs:
                    res["hint_requests"] += 1
                    res["nonempty"]["inlay_hint"] += bool(rh)
                    y = mh.get((norm_path(p), lo, hi), "missing")
                    if y != rh and not reported:
                        reported = True
                        bad("inlay_hint", "file %s range [%d,%d): implementation %r, model %r" % (norm_path(p), lo, hi, rh, y))
    return res
