"""tdgen: scope-tracking generator of well-formed multi-file TableGen programs of the Core fragment
(DESIGN Appendix D), with the expected use -> declaration map KNOWN BY CONSTRUCTION, and a single-fault
seeder (C13).  Independent of the Coq model and of ScopeSpec: the generator keeps its own lexical
environment while it emits text and records, for every identifier it writes, whether it is a declaration
or a use and, for a use, which declaration it refers to.

Scoping rules applied by the generator (the property statement of C05):
  * classes, defs, multiclasses, top-level defvars are global and visible after their declaration
    (file order, includes expanded in place);
  * template arguments and fields are visible inside their record and its heirs; a `let f = v;` body item
    is a use of the field and re-declares it for the rest of the record (and its heirs / field accesses);
  * defvar / foreach / !foreach / !filter / !foldl variables are visible inside their block (file, record
    body, foreach body, if branch, let body, defset body, multiclass body, operator argument);
  * the innermost declaration wins.

The generator only shadows a name with a declaration of the same type, so that `llvm-tblgen` (whose lookup
order between kinds of declarations differs from "innermost wins") accepts the programs regardless.
"""
import os
import random

BIT, INT, STRING, CODE, DAG = ("bit",), ("int",), ("string",), ("code",), ("dag",)


def BITS(n):
    return ("bits", n)


def LIST(t):
    return ("list", t)


def CLASS(n):
    return ("class", n)


def ty_text(t):
    if t[0] == "bits":
        return "bits<%d>" % t[1]
    if t[0] == "list":
        return "list<%s>" % ty_text(t[1])
    if t[0] == "class":
        return t[1]
    return t[0]


LLVM14_MISSING = {"include-in-block", "field-access-list-element", "empty-list-no-context", "binary-literal-operand", "pasted-def-use", "body-defvar-reads-field", "repeated-include", "named-args", "uninitialised-field", "untyped-question", "!exists", "!div", "!tolower", "!toupper", "!range", "!getdagarg", "!getdagname", "!setdagarg",
                  "!setdagname", "!listremove", "!logtwo", "!listflatten", "!repr", "!initialized", "dump"}


def has_class(t):
    return t[0] in ("class", "defrec") or (t[0] == "list" and has_class(t[1]))


class Sym:
    def __init__(self, key, ty, kind):
        self.key, self.ty, self.kind = key, ty, kind
        # the inferred type of a variable is the type of its value, which for records may be narrower than
        # the type the generator asked for; such identifiers are not used where the exact type matters
        self.exact = not (kind in ("defvar", "foreach", "opvar", "def") and has_class(ty))


class Cls:
    def __init__(self, name, key):
        self.name, self.key = name, key
        self.targs = []          # [(name, ty, has_default)]
        self.fields = {}         # name -> Sym   (flattened: own and inherited, current re-declaration)
        self.ancestors = set()   # names, transitive
        self.file = None
        self.complete = True
        self.own = set()         # field names declared or re-declared in this body


class Prog:
    """result of one generation"""

    def __init__(self):
        self.files = {}          # path -> text
        self.root = None
        self.decls = {}          # key -> (path, lo, hi)
        self.decl_kind = {}      # key -> kind
        self.uses = []           # (path, lo, hi, key)
        self.notfound = []       # (path, lo, hi)  expected "not found" (out-of-scope probes)
        self.sites = []          # fault sites: dict(kind, path, lo, hi, ...)
        self.features = set()
        self.order = []          # paths in the order they are indexed
        self.parent = {}         # path -> including file

    def workspace(self):
        return {"files": dict(self.files), "root": self.root}


class Gen:
    def __init__(self, rng, size=8, nfiles=None, probe=False, feats=None):
        self.r = rng
        self.size = size
        self.probe = probe
        self.probed = False
        self.p = Prog()
        self.bufs = {}           # path -> [parts]
        self.pos = {}            # path -> byte offset
        self.cur = None
        self.nfiles = nfiles if nfiles is not None else rng.choice([1, 1, 2, 3])
        self.n = 0
        self.frames = [{}]       # innermost last; name -> Sym
        self.classes = {}        # name -> Cls
        self.defs = {}           # name -> (Sym(key, CLASS-like), Cls-like record info)
        self.mcs = {}            # name -> Cls (targs only)
        self.globals = set()
        self.record_fields = None  # names that may not be shadowed by operator variables in the current record
        self.feats = feats or {}
        # includes inside block bodies (off unless asked for: feats or TDGEN_INC_BLOCK=1)
        self.inc_in_block = self.feats.get("include-in-block", os.environ.get("TDGEN_INC_BLOCK") == "1")
        self.pending = []        # the not yet placed includes of the files being written, innermost last
        self.dead = []           # names whose declaring construct has ended: (name, key)
        self.hide = set()        # names not to be used right now (no self reference in an initialiser)
        self.pasted = set()
        self.field_init = False  # writing the initialiser of a typed field (an empty list literal has a type there)
        self.loop_vars = []      # (name, type) of the enclosing foreach statements
        self.in_mc = 0           # inside a multiclass body: defs are prototypes, not referable by name

    # ------------------------------------------------------------------ emission
    def w(self, s):
        if s.startswith("{") and self.bufs[self.cur] and self.bufs[self.cur][-1].endswith("["):
            s = " " + s          # `[{` would start a code literal
        self.bufs[self.cur].append(s)
        self.pos[self.cur] += len(s.encode("utf-8"))

    def here(self):
        return self.pos[self.cur]

    def sp(self):
        self.w(self.r.choice([" ", " ", " ", "\n", "  ", " /* c */ ", "\t"]))

    def nl(self):
        self.w(self.r.choice(["\n", "\n", "\n\n", " ", "\n// é comment\n"]))

    def decl(self, name, kind):
        lo = self.here()
        self.w(name)
        key = "%s:%s@%s:%d" % (kind, name, self.cur, lo)
        self.p.decls[key] = (self.cur, lo, self.here())
        self.p.decl_kind[key] = kind
        return key

    def use(self, name, key, site=None):
        lo = self.here()
        self.w(name)
        self.p.uses.append((self.cur, lo, self.here(), key))
        if key in self.pasted:
            self.feat("pasted-def-use")      # the indexer names the def by the first component; llvm by the pasted name
        if site:
            d = {"kind": site, "path": self.cur, "lo": lo, "hi": self.here(), "name": name, "key": key}
            self.p.sites.append(d)
            return d
        return None

    def fresh(self, prefix):
        self.n += 1
        return "%s%d%s" % (prefix, self.n, self.r.choice(["", "", "", "x", "_long_name", "Abc9_", "_"]))

    def feat(self, f):
        self.p.features.add(f)

    # ------------------------------------------------------------------ environment
    def push(self):
        self.frames.append({})

    def pop(self):
        fr = self.frames.pop()
        for name, s in fr.items():
            if s.kind in ("defvar", "foreach", "opvar", "targ"):
                self.dead.append((name, s.key))

    def bind(self, name, sym):
        self.frames[-1][name] = sym

    def visible(self):
        """name -> Sym for every local name, innermost declaration winning"""
        out = {}
        for fr in self.frames:
            out.update(fr)
        return out

    def lookup(self, name):
        for fr in reversed(self.frames):
            if name in fr:
                return fr[name]
        if name in self.defs:
            return self.defs[name][0]
        return None

    def local_name(self, prefix, ty):
        """a name for a new local declaration: fresh, or (sometimes) shadowing a visible local of the same
        type that is not declared in the current frame and is not a field of the current record"""
        if self.r.random() < 0.3:
            cands = [n for n, s in self.visible().items()
                     if s.ty == ty and n not in self.frames[-1] and s.kind in ("defvar", "foreach", "opvar", "targ")
                     and n not in (self.record_fields or ())]
            if cands:
                self.feat("shadow")
                return self.r.choice(sorted(cands))
        return self.fresh(prefix)

    # ------------------------------------------------------------------ types
    def rand_type(self, depth=0, allow_class=True):
        opts = [INT, INT, STRING, BIT, BITS(self.r.choice([1, 2, 4, 8])), DAG, CODE]
        if depth < 2:
            opts.append(LIST(self.rand_type(depth + 1, allow_class)))
        if allow_class and self.classes:
            opts.append(CLASS(self.r.choice(sorted(self.classes))))
            opts.append(CLASS(self.r.choice(sorted(self.classes))))
        return self.r.choice(opts)

    def emit_type(self, t):
        """type text; a class name in a type position is a use"""
        if t[0] == "list":
            self.w("list<")
            self.emit_type(t[1])
            self.w(">")
        elif t[0] == "class":
            self.use(t[1], self.classes[t[1]].key, site="class-type")
        else:
            self.w(ty_text(t))

    def is_sub(self, cname, anc):
        return cname == anc or anc in self.classes[cname].ancestors

    def compatible(self, src, dst):
        """source type usable where dst is expected without any conversion doubt"""
        if src == dst:
            return True
        if dst == INT and src[0] in ("bit", "bits"):
            return True
        if src[0] == "class" and dst[0] == "class":
            return self.is_sub(src[1], dst[1]) if src[1] in self.classes else False
        if src[0] == "defrec" and dst[0] == "class":
            return dst[1] in src[2]
        if src[0] == "list" and dst[0] == "list":
            return self.compatible(src[1], dst[1])
        return False

    def fields_of(self, t):
        """flattened field table of a record-typed value"""
        if t[0] == "class":
            return self.classes[t[1]].fields
        if t[0] == "defrec":
            return self.defs[t[1]][1].fields
        return {}

    # ------------------------------------------------------------------ values
    def idents_of(self, ty):
        out = []
        vis = self.visible()
        for n, s in vis.items():
            if self.compatible(s.ty, ty) and n not in self.hide:
                out.append((n, s))
        for n, (s, _info) in self.defs.items():
            if n not in vis and self.compatible(s.ty, ty) and n not in self.hide:
                out.append((n, s))
        return sorted(out, key=lambda x: x[0])

    def record_values(self):
        """(name, Sym) of visible record-typed identifiers"""
        out = []
        vis = self.visible()
        for n, s in vis.items():
            if s.ty[0] in ("class", "defrec") and self.fields_of(s.ty) and n not in self.hide and s.exact:
                # (a variable whose inferred record type may be narrower than its declared one is not used:
                #  a `let` in the narrower record re-declares the field)
                if s.ty[0] == "class" and not self.classes[s.ty[1]].complete:
                    continue
                out.append((n, s))
        for n, (s, _i) in self.defs.items():
            if n not in vis and self.fields_of(s.ty) and n not in self.hide:
                out.append((n, s))
        return sorted(out, key=lambda x: x[0])

    def literal(self, t, depth=0):
        r = self.r
        k = t[0]
        if k == "int":
            lit = r.choice(["0", "1", "7", "42", "-3", "0x1F", "0b101", "+5"])
            if lit == "0b101" and depth >= 1:
                self.feat("binary-literal-operand")    # llvm-tblgen: bits<3>, not accepted where an int operand is required
            self.w(lit)
        elif k == "bit":
            self.w(r.choice(["0", "1", "true", "false"]))
        elif k == "string":
            self.w(r.choice(['"s"', '"a b"', '""', '"x\\n"', '"q\\"r"']))
        elif k == "code":
            self.w(r.choice(["[{ code }]", '"c"', "[{}]"]))
        elif k == "bits":
            if r.random() < 0.5:
                self.w(str(r.randrange(0, 1 << t[1])))
            else:
                self.w("{" + ", ".join(r.choice(["0", "1"]) for _ in range(t[1])) + "}")
        elif k == "list":
            self.w("[")
            n = r.choice([0, 1, 2, 3] if (depth <= 1 and self.field_init) else [1, 2, 3])   # llvm: `[]` needs a context type
            for i in range(n):
                if i:
                    self.w(", ")
                self.literal(t[1], depth + 1)
            self.w("]")
        elif k == "dag":
            ops = [n for n in self.defs if n not in self.visible()]
            if ops:
                op = r.choice(sorted(ops))
                self.w("(")
                self.use(op, self.defs[op][0].key)
                self.w(r.choice(["", " 1", ' 1, "s"', " 2:$a", " $b"]))
                self.w(")")
            else:
                self.w("?")
                self.feat("untyped-question")
        elif k == "class":
            self.record_literal(t, depth)
        else:
            raise AssertionError(t)

    def record_literal(self, t, depth=0):
        """a def deriving from the class, or a class value; `?` when neither exists"""
        cname = t[1]
        vis = self.visible()
        ds = [n for n, (s, _i) in self.defs.items() if n not in vis and cname in s.ty[2]]
        subs = [c for c in sorted(self.classes) if self.is_sub(c, cname) and self.can_instantiate(c)]
        if ds and (not subs or self.r.random() < 0.6):
            d = self.r.choice(sorted(ds))
            self.use(d, self.defs[d][0].key, site="ident")
        elif subs and depth < 6:
            self.class_value(self.r.choice(subs), max(depth, 3))
        else:
            self.w("?")
            if depth > 1 or not self.field_init:
                self.feat("untyped-question")

    def can_instantiate(self, cname):
        return self.classes[cname].complete

    def class_value(self, cname, depth=3):
        c = self.classes[cname]
        lo = self.here()
        site = self.use(cname, c.key, site="class-value")
        self.feat("class-value")
        self.args(c.targs, depth, angle_optional=False, owner=site)

    def args(self, targs, depth, angle_optional=True, owner=None):
        """template-argument list for a reference to something with [targs]"""
        r = self.r
        req = [a for a in targs if not a[2]]
        k = len(req)
        # how many of the defaulted arguments are given positionally
        extra = 0
        while k + extra < len(targs) and r.random() < 0.4:
            extra += 1
        given = targs[:k + extra]          # defaulted arguments are trailing (template_args)
        if not given and angle_optional and r.random() < 0.7:
            if owner is not None:
                owner["args"] = {"open": None, "n": 0, "targs": targs}
            return
        self.w("<")
        info = {"open": self.here(), "n": len(given), "targs": targs, "spans": []}
        named_from = len(given)
        if given and self.feats.get("named_args", True) and r.random() < 0.25:
            named_from = r.randrange(0, len(given))
            self.feat("named-args")
        for i, (an, at, _d) in enumerate(given):
            if i:
                self.w(", ")
            lo = self.here()
            if i >= named_from:
                self.w(an + " = ")
            vlo = self.here()
            self.value(at, depth + 1, top_arg=True)
            info["spans"].append((lo, self.here(), vlo, at))
        info["close"] = self.here()
        self.w(">")
        if owner is not None:
            owner["args"] = info

    def value(self, t, depth=0, top_arg=False):
        """emit a value of type t (well typed, every identifier in scope); records uses"""
        r = self.r
        forms = []
        if depth < 3 and (t[0] in ("int", "string", "bit") or (t[0] == "list" and t[1][0] in ("int", "string"))):
            forms += ["cond"]
        ids = self.idents_of(t)
        if ids:
            forms += ["ident"] * 4
        if depth < 3:
            if t[0] in ("int", "string", "bit", "list", "dag", "class"):
                forms += ["op"] * 3
            if self.field_sources(t):
                forms += ["field"] * 2
            forms += ["if"]
        forms += ["lit"] * 3
        f = r.choice(forms)
        if f == "ident":
            n, s = r.choice(ids)
            self.use(n, s.key, site="ident")
        elif f == "field":
            self.field_access(t, depth)
        elif f == "if":
            self.feat("!if")
            self.w("!if(")
            self.value(BIT, depth + 1)
            self.w(", ")
            self.value_same_shape(t, depth + 1)
            self.w(", ")
            self.value_same_shape(t, depth + 1)
            self.w(")")
        elif f == "op":
            self.operator(t, depth)
        elif f == "cond":
            self.feat("!cond")
            self.w("!cond(")
            for i in range(r.choice([1, 2])):
                self.value(BIT, depth + 1)
                self.w(": ")
                self.value(t, depth + 1)
                self.w(", ")
            self.w("true: ")
            self.value(t, depth + 1)
            self.w(")")
        else:
            self.literal(t, depth)

    def empty_list(self, depth):
        """`[]` as an operand whose inferred type (list<any>) other operands are compared with"""
        self.w("[]")
        self.feat("empty-list-operand")
        if depth > 1 or not self.field_init:
            self.feat("empty-list-no-context")     # llvm-tblgen-14: `[]` needs a context type

    def value_same_shape(self, t, depth):
        """for the two branches of !if: values whose inferred types are mutually convertible"""
        if t[0] == "list" and self.r.random() < 0.25:
            self.empty_list(depth)
            return
        if t[0] in ("class", "list"):
            ids = [(n, s) for n, s in self.idents_of(t) if s.ty == t and s.exact]
            if ids and self.r.random() < 0.5:
                n, s = self.r.choice(ids)
                self.use(n, s.key, site="ident")
            elif t[0] == "class" and self.can_instantiate(t[1]):
                self.class_value(t[1], depth)
            elif t[0] == "list":
                self.w("[")
                for i in range(self.r.choice([1, 2])):
                    if i:
                        self.w(", ")
                    self.value_same_shape(t[1], depth + 1)
                self.w("]")
            else:
                self.w("?")
                self.feat("untyped-question")
        elif t[0] == "bits":
            self.literal(t) if self.r.random() < 0.5 else self.w("{" + ", ".join("1" for _ in range(t[1])) + "}")
        elif t[0] == "dag":
            self.literal(t)
        else:
            self.value_exact(t, depth)

    def value_exact(self, t, depth, empty_ok=False):
        """a value whose inferred type is exactly t (no bit/int mixing)"""
        if empty_ok and t[0] == "list" and self.r.random() < 0.3:
            self.empty_list(depth)
            return
        ids = [(n, s) for n, s in self.idents_of(t) if s.ty == t and s.exact]
        if ids and self.r.random() < 0.5:
            n, s = self.r.choice(ids)
            self.use(n, s.key, site="ident")
        elif t[0] == "class":
            self.class_value(t[1], depth) if self.can_instantiate(t[1]) else (self.w("?"), self.feat("untyped-question"))
        elif t[0] == "list":
            self.w("[")
            for i in range(self.r.choice([1, 2])):
                if i:
                    self.w(", ")
                self.value_exact(t[1], depth + 1)
            self.w("]")
        elif t == BIT:
            self.w(self.r.choice(["true", "false"]))
        elif t == INT:
            self.w(self.r.choice(["0", "1", "9"]))
        else:
            self.literal(t, depth)

    def field_sources(self, t, plain_only=True):
        """(base name, base Sym, [(field name, field Sym), ..], text between the base and the first `.`)"""
        out = []
        for n, s in self.record_values():
            for fn, fs in self.fields_of(s.ty).items():
                if fn in self.hide:
                    continue
                if self.compatible(fs.ty, t):
                    out.append((n, s, [(fn, fs)], ""))
                # chained access `v.f.g` through a field DECLARED with a class type
                if not plain_only and fs.ty[0] == "class" and fs.ty[1] in self.classes and self.classes[fs.ty[1]].complete:
                    for gn, gs in self.fields_of(fs.ty).items():
                        if self.compatible(gs.ty, t) and gn not in self.hide:
                            out.append((n, s, [(fn, fs), (gn, gs)], ""))
        if not plain_only:
            # an element of a list DECLARED with a class element type: `l[0].f`
            for n, s in sorted(self.visible().items(), key=lambda x: x[0]):
                if (s.ty[0] == "list" and s.ty[1][0] == "class" and s.exact and n not in self.hide
                        and s.ty[1][1] in self.classes and self.classes[s.ty[1][1]].complete):
                    for fn, fs in self.fields_of(s.ty[1]).items():
                        if self.compatible(fs.ty, t) and fn not in self.hide:
                            out.append((n, s, [(fn, fs)], "[0]"))
        return out

    def field_access(self, t, depth):
        src = self.field_sources(t, plain_only=False)
        rich = [x for x in src if len(x[2]) > 1 or x[3] or x[1].kind == "foreach"]
        n, s, path, idx = self.r.choice(rich if rich and self.r.random() < 0.5 else src)
        self.feat("field-access")
        if len(path) > 1:
            self.feat("field-access-chained")
        if idx:
            self.feat("field-access-list-element")
        if s.kind == "foreach":
            self.feat("field-access-foreach-var")
        self.use(n, s.key, site="ident")
        self.w(idx)
        for fn, fs in path:
            self.w(".")
            self.use(fn, fs.key, site="field-suffix")

    def opvar(self, prefix, ty):
        """declare an operator variable; returns (name, Sym)"""
        name = self.local_name(prefix, ty)
        key = self.decl(name, "opvar")
        return name, Sym(key, ty, "opvar")

    def list_source(self, depth):
        """emit a list-typed value, return its element type"""
        et = self.r.choice([INT, INT, STRING, BIT])
        cands = [(n, s) for n, s in self.visible().items()
                 if s.ty[0] == "list" and s.ty[1][0] in ("int", "string", "bit", "class") and n not in self.hide]
        if cands and self.r.random() < 0.5:
            n, s = self.r.choice(sorted(cands, key=lambda x: x[0]))
            self.use(n, s.key, site="ident")
            return s.ty[1]
        self.w("[")
        for i in range(self.r.choice([1, 2, 3])):
            if i:
                self.w(", ")
            self.value_exact(et, depth + 1)
        self.w("]")
        return et

    def operator(self, t, depth):
        r = self.r
        k = t[0]
        d = depth + 1
        site = {"kind": "bang", "path": self.cur, "lo": self.here()}

        def call(name, parts, annot=None):
            """parts: list of callables emitting one operand each"""
            self.feat(name)
            self.w(name)
            if annot is not None:
                self.w("<")
                self.emit_type(annot)
                self.w(">")
            self.w("(")
            spans = []
            for i, p in enumerate(parts):
                if i:
                    self.w(", ")
                lo = self.here()
                p()
                spans.append((lo, self.here()))
            self.w(")")
            site.update({"hi": self.here(), "op": name, "spans": spans, "nargs": len(parts)})
            self.p.sites.append(site)

        V = lambda ty: (lambda: self.value(ty, d))
        X = lambda ty: (lambda: self.value_exact(ty, d))
        X0 = lambda ty: (lambda: self.value_exact(ty, d, empty_ok=True))    # `[]` allowed in every position
        if k == "int":
            c = r.choice(["arith", "arith2", "size", "find", "foldl", "head", "logtwo", "cast"])
            if c == "arith":
                call(r.choice(["!add", "!mul", "!and", "!or", "!xor"]), [V(INT) for _ in range(r.choice([2, 2, 3]))])
            elif c == "arith2":
                call(r.choice(["!sub", "!shl", "!sra", "!srl", "!div"]), [V(INT), V(INT)])
            elif c == "size":
                call("!size", [r.choice([V(LIST(INT)), V(STRING), V(LIST(STRING))])])
            elif c == "find":
                call("!find", [V(STRING), V(STRING)] + ([V(INT)] if r.random() < 0.4 else []))
            elif c == "logtwo":
                call("!logtwo", [V(INT)])
            elif c == "head":
                call("!head", [V(LIST(INT))])
            elif c == "cast":
                call("!cast", [V(r.choice([BIT, BITS(4)]))], annot=INT)
            else:
                self.foldl(INT, d, call)
        elif k == "string":
            c = r.choice(["strconcat", "paste", "subst", "substr", "interleave", "case", "cast", "repr", "head",
                          "getdagname"])
            if c == "strconcat":
                call("!strconcat", [V(STRING) for _ in range(r.choice([2, 3]))])
            elif c == "paste":
                self.feat("paste")
                self.value_exact(STRING, d)
                self.w(" # ")
                self.value_exact(STRING, d)
            elif c == "subst":
                call("!subst", [V(STRING), V(STRING), V(STRING)])
            elif c == "substr":
                call("!substr", [V(STRING), V(INT)] + ([V(INT)] if r.random() < 0.5 else []))
            elif c == "interleave":
                # the element type must be inferable for the indexer (an !foreach with an untyped body is not)
                call("!interleave", [V(LIST(r.choice([STRING, INT]))), V(STRING)])
            elif c == "case":
                call(r.choice(["!tolower", "!toupper"]), [V(STRING)])
            elif c == "cast":
                call("!cast", [V(INT)], annot=STRING)
            elif c == "repr":
                call("!repr", [V(r.choice([INT, STRING]))])
            elif c == "getdagname":
                call("!getdagname", [V(DAG), V(INT)])
            else:
                call("!head", [V(LIST(STRING))])
        elif k == "bit":
            c = r.choice(["eq", "cmp", "not", "empty", "isa", "initialized"])
            if c == "eq":
                ty = r.choice([INT, STRING, BIT])
                call(r.choice(["!eq", "!ne"]), [V(ty), V(ty)])
            elif c == "cmp":
                ty = r.choice([INT, STRING])
                call(r.choice(["!lt", "!le", "!gt", "!ge"]), [V(ty), V(ty)])
            elif c == "not":
                call("!not", [V(INT)])
            elif c == "empty":
                call("!empty", [r.choice([V(LIST(INT)), V(STRING)])])
            elif c == "isa" and self.classes and self.record_values():
                n, s = r.choice(self.record_values())
                cn = r.choice(sorted(self.classes))
                call("!isa", [lambda: self.use(n, s.key, site="ident")], annot=CLASS(cn))
            else:
                call("!initialized", [V(INT)])
        elif k == "list":
            et = t[1]
            c = r.choice(["concat", "splat", "foreach", "filter", "tail", "range", "remove", "flatten"])
            if c == "concat":
                call("!listconcat", [X0(t), X0(t)] + ([X0(t)] if r.random() < 0.3 else []))
            elif c == "splat":
                call("!listsplat", [X(et), V(INT)])
            elif c == "foreach":
                self.feat("!foreach")
                self.w("!foreach(")
                lo = self.here()
                src_holder = {}
                # the variable is written first but its type comes from the sequence: choose the source first
                src = self.pick_list_source()
                name, sym = self.opvar("v", src[1])
                self.w(", ")
                self.emit_list_source(src, d)
                self.w(", ")
                self.push()
                self.bind(name, sym)
                if et[0] in ("int", "string", "bit") and r.random() < 0.35:
                    # a body whose type the indexer cannot infer
                    self.feat("!foreach-untyped-body")
                    self.w("!cond(")
                    self.value(BIT, d + 1)
                    self.w(": ")
                    self.value(et, d + 1)
                    self.w(", true: ")
                    self.value(et, d + 1)
                    self.w(")")
                else:
                    self.value(et, d)
                self.pop()
                self.w(")")
            elif c == "filter":
                self.feat("!filter")
                self.w("!filter(")
                name, sym = self.opvar("v", et)
                self.w(", ")
                self.value_exact(t, d)
                self.w(", ")
                self.push()
                self.bind(name, sym)
                self.value(BIT, d)
                self.pop()
                self.w(")")
            elif c == "tail":
                call("!tail", [X(t)])
            elif c == "range" and et == INT:
                call("!range", [V(INT)] + ([V(INT)] if r.random() < 0.5 else []))
            elif c == "remove":
                call("!listremove", [X0(t), X0(t)])
            elif c == "flatten" and et[0] != "list":
                call("!listflatten", [X(LIST(t))])
            else:
                call("!listconcat", [X0(t), X0(t)])
        elif k == "dag":
            c = r.choice(["con", "setop", "lit"])
            if c == "con":
                call("!con", [V(DAG), V(DAG)])
            elif c == "setop" and [n for n in self.defs if n not in self.visible()]:
                op = r.choice(sorted(n for n in self.defs if n not in self.visible()))
                call("!setdagop", [V(DAG), lambda: self.use(op, self.defs[op][0].key, site="ident")])
            else:
                self.literal(t)
        elif k == "class":
            vis = self.visible()
            ds = [n for n, (s, _i) in self.defs.items() if n not in vis and t[1] in s.ty[2]]
            if ds and r.random() < 0.5:
                dn = r.choice(sorted(ds))
                call("!cast", [lambda: self.w('"%s"' % dn)], annot=t)
            else:
                self.record_literal(t, depth)
        else:
            self.literal(t, depth)

    def pick_list_source(self):
        cands = [(n, s) for n, s in self.visible().items()
                 if s.ty[0] == "list" and s.ty[1][0] in ("int", "string", "bit") and n not in self.hide]
        if cands and self.r.random() < 0.5:
            n, s = self.r.choice(sorted(cands, key=lambda x: x[0]))
            return ("id", s.ty[1], n, s)
        return ("lit", self.r.choice([INT, INT, STRING, BIT]))

    def emit_list_source(self, src, depth):
        if src[0] == "id":
            self.use(src[2], src[3].key, site="ident")
        else:
            self.w("[")
            for i in range(self.r.choice([1, 2, 3])):
                if i:
                    self.w(", ")
                self.value_exact(src[1], depth + 1)
            self.w("]")

    def foldl(self, t, d, call):
        self.feat("!foldl")
        self.w("!foldl(")
        self.value_exact(t, d)
        self.w(", ")
        src = self.pick_list_source()
        self.emit_list_source(src, d)
        self.w(", ")
        an, asym = self.opvar("acc", t)
        self.w(", ")
        while True:
            vn = self.local_name("v", src[1])
            if vn != an:
                break
        vkey = self.decl(vn, "opvar")
        vsym = Sym(vkey, src[1], "opvar")
        self.w(", ")
        self.push()
        self.bind(an, asym)
        self.bind(vn, vsym)
        self.value(t, d)
        self.pop()
        self.w(")")

    # ------------------------------------------------------------------ records
    def template_args(self, owner):
        """`<T a, T b = v>`; binds the arguments in the current frame"""
        r = self.r
        n = r.choice([1, 1, 2, 3])
        self.w("<")
        seen_default = False
        for i in range(n):
            if i:
                self.w(", ")
            t = self.rand_type()
            self.emit_type(t)
            self.w(" ")
            name = self.local_name("a", t)
            while name in self.frames[-1]:
                name = self.fresh("a")
            key = self.decl(name, "targ")
            has_default = seen_default or r.random() < 0.35
            sym = Sym(key, t, "targ")
            self.bind(name, sym)      # the argument is declared before its default value is read
            if has_default:
                seen_default = True
                self.w(" = ")
                self.hide.add(name)
                self.value(t, 1)      # may use the earlier template arguments
                self.hide.discard(name)
            owner.targs.append((name, t, has_default))
        self.w(">")

    def parent_list(self, rec, kind):
        """`: A<args>, B` for a class or def; merges the parents' fields into rec"""
        r = self.r
        cands = [c for c in sorted(self.classes) if self.classes[c].complete]
        if not cands or r.random() < 0.25:
            return
        k = r.choice([1, 1, 1, 2, 2, 3])
        chosen = []
        merged = dict(rec.fields)
        for _ in range(k):
            c = r.choice(cands)
            if c in chosen:
                continue
            # a field name must denote the same declaration through every parent
            ok = all(merged.get(fn) is None or merged[fn].key == fs.key
                     for fn, fs in self.classes[c].fields.items())
            # and must not collide with a template argument of the record itself
            ok = ok and not any(fn in self.frames[-1] for fn in self.classes[c].fields)
            if ok:
                chosen.append(c)
                for fn, fs in self.classes[c].fields.items():
                    merged.setdefault(fn, fs)
        if not chosen:
            return
        self.w(" : ")
        # the argument values are written in the scope of the record (its template arguments); the record
        # becomes a subclass of a parent only after that parent's reference, and the inherited fields are
        # only used from the body on
        for i, c in enumerate(chosen):
            if i:
                self.w(", ")
            site = self.use(c, self.classes[c].key, site="class-parent")
            self.args(self.classes[c].targs, 1, owner=site)
            rec.ancestors |= {c} | self.classes[c].ancestors
            # parents are attached one by one: the fields inherited from this parent (and its ancestors) are in
            # scope while the arguments of the LATER parents of the same list are written
            for fn, fs in self.classes[c].fields.items():
                if fn not in self.frames[-1]:
                    self.bind(fn, fs)
            if i + 1 < len(chosen):
                self.feat("multi-parent")
        for fn, fs in merged.items():
            rec.fields.setdefault(fn, fs)

    def body(self, rec, in_class):
        """`{ items }` or `;`"""
        r = self.r
        if r.random() < 0.15 and not rec.fields:
            self.w(";")
            return
        self.w(" {")
        self.nl()
        # inherited fields become visible (below own declarations, above template arguments)
        for fn, fs in rec.fields.items():
            self.bind(fn, fs)
        saved = self.record_fields
        self.record_fields = set(rec.fields)
        for _ in range(r.choice([0, 1, 2, 3, 4])):
            self.w("  ")
            self.item(rec)
            self.nl()
        self.record_fields = saved
        self.w("}")

    def opvar_scope_items(self, rec):
        """`list<int> fa = !filter(x, [..], !gt(x, 0)); int fb = x;`: the second x is the OUTER x (when there is
        one) or out of scope (probe); same for !foreach and !foldl"""
        r = self.r
        outer = [(n, s) for n, s in self.visible().items()
                 if s.kind in ("defvar", "foreach") and s.ty == INT and n not in self.record_fields
                 and n not in self.frames[-1]]
        if outer:
            name, osym = r.choice(sorted(outer, key=lambda x: x[0]))
        elif self.probe and not self.probed:
            name, osym = self.fresh("ov"), None
        else:
            return False
        op = r.choice(["!filter", "!foreach", "!foldl"])
        fa = self.fresh("f")
        self.w(("int " if op == "!foldl" else "list<int> "))
        ka = self.decl(fa, "field")
        self.w(" = " + op + "(")
        if op == "!foldl":
            self.w("0, [1, 2], ")
            an = self.fresh("acc")
            akey = self.decl(an, "opvar")
            self.w(", ")
            key = self.decl(name, "opvar")
            self.w(", !add(")
            self.use(an, akey)
            self.w(", ")
            self.use(name, key)
            self.w("))")
        else:
            key = self.decl(name, "opvar")
            self.w(", [1, 2, 3], ")
            if op == "!foreach" and r.random() < 0.6:
                # a body whose type the indexer cannot infer
                self.w("!cond(1: !add(")
                self.use(name, key)
                self.w(", 1), true: 0))")
                self.feat("!foreach-untyped-body")
            else:
                self.w("!gt(" if op == "!filter" else "!add(")
                self.use(name, key)
                self.w(", 1))")
        self.w(";")
        self.feat(op)
        t = INT if op == "!foldl" else LIST(INT)
        sym = Sym(ka, t, "field")
        rec.own.add(fa)
        rec.fields[fa] = sym
        self.bind(fa, sym)
        self.record_fields.add(fa)
        self.nl()
        self.w("  int ")
        fb = self.fresh("f")
        kb = self.decl(fb, "field")
        self.w(" = ")
        if osym is not None:
            self.use(name, osym.key, site="ident")
            self.feat("opvar-shadow-then-outer")
        else:
            lo = self.here()
            self.w(name)
            self.p.notfound.append((self.cur, lo, self.here()))
            self.probed = True
            self.feat("probe")
        self.w(";")
        symb = Sym(kb, INT, "field")
        rec.own.add(fb)
        rec.fields[fb] = symb
        self.bind(fb, symb)
        self.record_fields.add(fb)
        return True

    def item(self, rec):
        r = self.r
        if self.in_mc == 0 and r.random() < 0.2 and self.opvar_scope_items(rec):
            return
        c = r.choice(["field", "field", "field", "let", "defvar", "assert"])
        if c == "let" and [f for f in rec.fields if f not in rec.own]:
            fn = r.choice(sorted(f for f in rec.fields if f not in rec.own))
            rec.own.add(fn)
            fs = rec.fields[fn]
            self.w("let ")
            lo = self.here()
            self.w(fn)
            hi = self.here()
            self.p.uses.append((self.cur, lo, hi, fs.key))
            key = "let:%s@%s:%d" % (fn, self.cur, lo)
            self.p.decls[key] = (self.cur, lo, hi)
            self.p.decl_kind[key] = "let"
            self.w(" = ")
            vlo = self.here()
            self.hide.add(fn)
            self.value(fs.ty, 1)
            self.hide.discard(fn)
            self.p.sites.append({"kind": "init", "path": self.cur, "lo": vlo, "hi": self.here(), "ty": fs.ty})
            self.w(";")
            ns = Sym(key, fs.ty, "field")
            rec.fields[fn] = ns
            self.bind(fn, ns)
            self.feat("field-let")
        elif c == "defvar":
            t = self.rand_type()
            self.w("defvar ")
            name = self.fresh("lv")
            key = self.decl(name, "defvar")
            self.w(" = ")
            n_uses = len(self.p.uses)
            self.value_exact(t, 1) if t[0] in ("bit", "int") else self.value(t, 1)
            self.w(";")
            if any(self.p.decl_kind.get(u[3]) == "field" for u in self.p.uses[n_uses:]):
                self.feat("body-defvar-reads-field")      # llvm-tblgen-14 parses a body defvar without the record
            self.bind(name, Sym(key, t, "defvar"))
            self.feat("body-defvar")
        elif c == "assert":
            self.w("assert ")
            self.value(BIT, 1)
            self.w(", ")
            self.value(STRING, 1)
            self.w(";")
            self.feat("assert")
        else:
            t = self.rand_type()
            if r.random() < 0.2:
                self.w("field ")
            self.emit_type(t)
            self.w(" ")
            if rec.fields and r.random() < 0.1:
                # re-declaration of an inherited / earlier field with the same type
                same = [fn for fn, fs in rec.fields.items() if fs.ty == t and fn not in rec.own]
                name = r.choice(sorted(same)) if same else self.fresh("f")
            else:
                name = self.fresh("f")
            redecl = name in rec.fields
            key = self.decl(name, "field")
            sym = Sym(key, t, "field")
            rec.own.add(name)
            self.record_fields.add(name)
            if r.random() < 0.1:
                self.feat("uninitialised-field")
            elif not redecl:
                # the initialiser is written before the field is bound: no self reference
                self.w(" = ")
                vlo = self.here()
                self.field_init = True
                self.value(t, 1)
                self.field_init = False
                self.p.sites.append({"kind": "init", "path": self.cur, "lo": vlo, "hi": self.here(), "ty": t})
            self.w(";")
            rec.fields[name] = sym
            self.bind(name, sym)

    def class_stmt(self):
        name = self.fresh("C")
        self.w("class ")
        key = self.decl(name, "class")
        c = Cls(name, key)
        c.complete = False
        c.file = self.cur
        self.classes[name] = c
        self.globals.add(name)
        self.push()
        if self.r.random() < 0.6:
            self.template_args(c)
            self.feat("class-targs")
        self.parent_list(c, "class")
        self.body(c, True)
        self.pop()
        c.complete = True

    def def_stmt(self, forced_parent=None, name_suffix=None):
        r = self.r
        self.w("def ")
        rec = Cls(None, None)
        rec.complete = True
        pasteable = all(t in (INT, STRING) for _n, t in self.loop_vars)
        if (r.random() < 0.85 or forced_parent) and pasteable:
            name = self.fresh("D")
            key = self.decl(name, "def")
            for vn in self.paste_suffix():
                self.w("#" + vn)             # not visited by the indexer (DESIGN Appendix D)
                self.feat("def-paste-name")
                self.pasted.add(key)
        else:
            name, key = None, None
            self.feat("anonymous-def")
        self.push()
        if forced_parent:
            c = forced_parent
            self.w(" : ")
            site = self.use(c, self.classes[c].key, site="class-parent")
            self.args(self.classes[c].targs, 1, owner=site)
            for fn, fs in self.classes[c].fields.items():
                rec.fields.setdefault(fn, fs)
            rec.ancestors |= {c} | self.classes[c].ancestors
        else:
            self.parent_list(rec, "def")
        self.body(rec, False)
        self.pop()
        if name and not self.in_mc:
            sym = Sym(key, ("defrec", name, frozenset(rec.ancestors)), "def")
            self.defs[name] = (sym, rec)
            self.globals.add(name)
        return name

    def paste_suffix(self):
        """loop variables a def / defm name is pasted with (each visible name once)"""
        out = []
        for vn, _t in self.loop_vars:
            if vn not in out:
                out.append(vn)
        return out

    def multiclass_stmt(self):
        r = self.r
        name = self.fresh("M")
        self.w("multiclass ")
        key = self.decl(name, "multiclass")
        m = Cls(name, key)
        self.globals.add(name)
        self.push()
        if r.random() < 0.6:
            self.template_args(m)
            self.feat("multiclass-targs")
        else:
            self.feat("multiclass-no-targs")
        if self.mcs and r.random() < 0.3:
            pn = r.choice(sorted(self.mcs))
            self.w(" : ")
            site = self.use(pn, self.mcs[pn].key, site="multiclass-parent")
            self.args(self.mcs[pn].targs, 1, owner=site)
        self.w(" {")
        self.nl()
        self.in_mc += 1
        for _ in range(r.choice([1, 1, 2, 3])):
            self.w("  ")
            self.mc_statement(0)
            self.nl()
        self.in_mc -= 1
        self.w("}")
        self.pop()
        self.mcs[name] = m
        self.feat("multiclass")

    def mc_statement(self, depth):
        r = self.r
        c = r.choice(["def", "def", "def", "defm", "foreach", "let", "if", "assert"])
        if depth > 1:
            c = "def"
        if c == "defm" and self.mcs:
            self.defm_stmt()
        elif c == "foreach":
            self.foreach_stmt(lambda: self.mc_statement(depth + 1))
        elif c == "if":
            self.if_stmt(lambda: self.mc_statement(depth + 1))
        elif c == "let":
            self.let_stmt()
        elif c == "assert":
            self.assert_stmt()
        else:
            self.def_stmt()

    def defm_stmt(self):
        r = self.r
        pn = r.choice(sorted(self.mcs))
        self.w("defm ")
        if r.random() < 0.8 and all(t in (INT, STRING) for _n, t in self.loop_vars):
            name = self.fresh("DM")
            self.decl(name, "defm")
            for vn in self.paste_suffix():
                self.w("#" + vn)
            self.globals.add(name)
        else:
            self.feat("anonymous-defm")
        self.w(" : ")
        site = self.use(pn, self.mcs[pn].key, site="multiclass-parent")
        self.args(self.mcs[pn].targs, 1, owner=site)
        self.w(";")
        self.feat("defm")

    def block(self, stmt, n=None, first=None):
        """`{ stmts }` or a single statement; opens a scope.  [first]: statement emitters run at the start of
        the block (inside the braces)"""
        r = self.r
        self.push()
        if r.random() < 0.3 and n is None and not first:
            stmt()
        else:
            self.w("{")
            self.nl()
            for f in first or []:
                self.w("  ")
                f()
                self.nl()
            for _ in range(n if n is not None else r.choice([1, 2, 3])):
                self.w("  ")
                if (self.inc_in_block and self.in_mc == 0 and self.pending and self.pending[-1] and r.random() < 0.5):
                    # an include inside a block: the statements of the file are read in the scope of the block
                    inc = self.pending[-1].pop(0)
                    path = self.cur
                    lo = self.here()
                    self.w('include "%s"' % inc["name"])
                    self.p.sites.append({"kind": "include", "path": path, "lo": lo, "hi": self.here(),
                                         "target": inc["path"]})
                    self.nl()
                    self.open_file(inc["path"])
                    self.file_body(inc["path"], inc["budget"], inc["includes"])
                    self.cur = path
                    self.feat("include")
                    self.feat("include-in-block")
                    self.w("  ")
                stmt()
                self.nl()
                if self.probe and not self.probed and self.in_mc == 0 and r.random() < 0.1:
                    self.w("  ")
                    if self.probe_stmt():
                        self.nl()
            self.w("}")
        self.pop()

    def foreach_stmt(self, stmt):
        r = self.r
        self.w("foreach ")
        c = r.choice(["list", "list", "range", "braces", "ident"])
        cands = [(n, s) for n, s in self.visible().items()
                 if s.ty[0] == "list" and s.ty[1][0] in ("int", "string", "bit", "class")]
        if c == "ident" and cands:
            n, s = r.choice(sorted(cands, key=lambda x: x[0]))
            et = s.ty[1]
            name = self.local_name("i", et)
            key = self.decl(name, "foreach")
            self.w(" = ")
            self.use(n, s.key, site="ident")
            src_exact = s.exact
        elif c == "range":
            et = INT
            name = self.local_name("i", et)
            key = self.decl(name, "foreach")
            self.w(" = " + r.choice(["0-2", "1...3", "0-1"]))
        elif c == "braces":
            et = INT
            name = self.local_name("i", et)
            key = self.decl(name, "foreach")
            self.w(" = {" + r.choice(["0-2", "1, 2", "0...1, 4"]) + "}")
            self.feat("foreach-braces")
        else:
            et = r.choice([INT, INT, STRING])
            name = self.local_name("i", et)
            key = self.decl(name, "foreach")
            self.w(" = [")
            pool = ["0", "1", "2", "7"] if et == INT else ['"a"', '"b"', '"c d"']
            for i, lit in enumerate(r.sample(pool, r.choice([1, 2, 3]))):
                if i:
                    self.w(", ")
                self.w(lit)
            self.w("]")
        self.w(" in ")
        self.push()
        var = Sym(key, et, "foreach")
        if c == "ident" and cands and src_exact:
            var.exact = True     # an element of a list DECLARED with that element type
        self.bind(name, var)
        self.loop_vars.append((name, et))
        first = []
        if et in (INT, STRING) and self.in_mc == 0 and r.random() < 0.25:
            # a defvar of the loop body that shadows the loop variable is the innermost declaration from there on
            holder = {}
            first.append(lambda: holder.setdefault("k", self.defvar_named(name, et)))
            first.append(lambda: self.def_using(name, self.lookup(name)))
            self.feat("foreach-var-shadowed-in-body")
        self.block(stmt, first=first)
        self.loop_vars.pop()
        self.pop()
        self.feat("foreach")

    def if_stmt(self, stmt):
        r = self.r
        self.w("if ")
        self.value(BIT, 1)
        self.w(" then ")
        has_else = r.random() < 0.5
        then_first, else_first = [], []
        if has_else and self.in_mc == 0 and r.random() < 0.8:
            # a variable declared in the `then` branch must not be visible in the `else` branch:
            # either it shadows an outer variable of the same name (the else branch sees the outer one) ...
            outer = [(n, s) for n, s in self.visible().items()
                     if s.kind in ("defvar", "foreach") and s.ty in (INT, STRING, BIT) and n not in self.frames[-1]
                     and n not in (self.record_fields or ())]
            if outer and r.random() < 0.6:
                n0, s0 = r.choice(sorted(outer, key=lambda x: x[0]))
                then_first.append(lambda: self.defvar_named(n0, s0.ty))
                else_first.append(lambda: self.def_using(n0, s0))
                self.feat("if-branch-shadow")
            elif self.probe and not self.probed:
                # ... or it is simply out of scope there
                nm = self.fresh("bw")
                then_first.append(lambda: self.defvar_named(nm, INT))
                else_first.append(lambda: self.probe_name(nm))
                self.feat("if-branch-probe")
        self.block(stmt, first=then_first)
        if has_else:
            self.w(" else ")
            self.block(stmt, first=else_first)
            self.feat("if-else")
        self.feat("if")

    def defvar_named(self, name, t):
        self.w("defvar ")
        key = self.decl(name, "defvar")
        self.w(" = ")
        self.value_exact(t, 2)
        self.w(";")
        self.bind(name, Sym(key, t, "defvar"))

    def def_using(self, name, sym):
        """`def Dk { T f = name; }` with [name] expected to resolve to [sym]"""
        self.w("def ")
        dn = self.fresh("D")
        self.decl(dn, "def")
        for vn in self.paste_suffix():
            self.w("#" + vn)
        self.w(" { " + ty_text(sym.ty) + " ")
        self.decl(self.fresh("f"), "field")
        self.w(" = ")
        self.use(name, sym.key, site="ident")
        self.w("; }")

    def probe_name(self, name):
        self.w("def ")
        self.decl(self.fresh("P"), "def")
        for vn in self.paste_suffix():
            self.w("#" + vn)
        self.w(" { int ")
        self.decl(self.fresh("pf"), "field")
        self.w(" = ")
        lo = self.here()
        self.w(name)
        self.p.notfound.append((self.cur, lo, self.here()))
        self.w("; }")
        self.probed = True
        self.feat("probe")

    def let_stmt(self):
        """`let f = v in { defs of one class having field f }`"""
        cands = [c for c in sorted(self.classes) if self.classes[c].complete and self.classes[c].fields]
        if not cands:
            return self.def_stmt()
        c = self.r.choice(cands)
        fn = self.r.choice(sorted(self.classes[c].fields))
        self.w("let " + fn + " = ")      # the name of a top-level let item is not visited
        self.value(self.classes[c].fields[fn].ty, 1)
        self.w(" in ")
        self.block(lambda: self.def_stmt(forced_parent=c))
        self.feat("let")

    def assert_stmt(self):
        self.w("assert ")
        self.value(BIT, 1)
        self.w(", ")
        self.value(STRING, 1)
        self.w(";")
        self.feat("assert")

    def defvar_stmt(self):
        t = self.rand_type()
        self.w("defvar ")
        name = self.local_name("gv", t) if len(self.frames) > 1 else self.fresh("gv")
        key = self.decl(name, "defvar")
        self.w(" = ")
        if t[0] in ("bit", "int"):
            self.value_exact(t, 1)
        else:
            self.value(t, 1)
        self.w(";")
        self.bind(name, Sym(key, t, "defvar"))
        if len(self.frames) == 1:
            self.globals.add(name)
        self.feat("defvar")

    def defset_stmt(self):
        cands = [c for c in sorted(self.classes) if self.classes[c].complete]
        if not cands:
            return self.def_stmt()
        c = self.r.choice(cands)
        self.w("defset list<")
        self.use(c, self.classes[c].key, site="class-type")
        self.w("> ")
        name = self.fresh("S")
        key = self.decl(name, "defset")
        self.globals.add(name)
        self.w(" = ")
        self.block(lambda: self.def_stmt(forced_parent=c), n=self.r.choice([1, 2]))
        # the defset name is a global value of the declared list type from here on
        self.frames[0][name] = Sym(key, LIST(CLASS(c)), "defset")
        self.feat("defset")

    def dump_stmt(self):
        self.w("dump ")
        self.value(STRING, 1)
        self.w(";")
        self.feat("dump")

    def probe_stmt(self):
        """a use of a name whose declaring construct has ended: expected "not found", no definition"""
        vis = self.visible()
        cands = [(n, k) for n, k in self.dead if n not in vis and n not in self.defs]
        if not cands:
            return False
        n, _k = self.r.choice(cands)
        self.w("def ")
        self.decl(self.fresh("P"), "def")
        self.w(" { int ")
        self.decl(self.fresh("pf"), "field")
        self.w(" = ")
        lo = self.here()
        self.w(n)
        self.p.notfound.append((self.cur, lo, self.here()))
        self.w("; }")
        self.probed = True
        self.feat("probe")
        return True

    def statement(self, depth=0):
        r = self.r
        opts = ["class"] * 3 + ["def"] * 4 + ["defvar"] * 2 + ["foreach", "if", "let", "multiclass", "defm",
                                                              "defset", "assert", "dump"]
        if depth > 0:
            opts = ["def"] * 4 + ["defvar"] * 3 + ["foreach", "if", "let", "assert", "defm"]
        if depth > 1:
            opts = ["def", "defvar"]
        c = r.choice(opts)
        if c == "class":
            self.class_stmt()
        elif c == "defvar":
            self.defvar_stmt()
        elif c == "foreach":
            self.foreach_stmt(lambda: self.statement(depth + 1))
        elif c == "if":
            self.if_stmt(lambda: self.statement(depth + 1))
        elif c == "let":
            self.let_stmt()
        elif c == "multiclass":
            self.multiclass_stmt()
        elif c == "defm" and self.mcs:
            self.defm_stmt()
        elif c == "defset" and depth == 0:
            self.defset_stmt()
        elif c == "assert":
            self.assert_stmt()
        elif c == "dump" and self.feats.get("dump", True):
            self.dump_stmt()
        else:
            self.def_stmt()

    # ------------------------------------------------------------------ files
    def open_file(self, path):
        self.p.parent[path] = self.cur      # includer (None for the root)
        self.bufs[path] = []
        self.pos[path] = 0
        self.p.order.append(path)

    def file_body(self, path, budget, includes):
        prev = self.cur
        self.cur = path
        self.pending.append(includes)
        if self.r.random() < 0.3:
            self.w("// header é€\n")
        k = 0
        for _ in range(budget):
            # includes are placed between top-level statements, mostly at the top
            while includes and self.r.random() < ((0.8 if k == 0 else 0.2) if not self.inc_in_block else (0.35 if k == 0 else 0.1)):
                inc = includes.pop(0)
                lo = self.here()
                self.w('include "%s"' % inc["name"])
                self.p.sites.append({"kind": "include", "path": path, "lo": lo, "hi": self.here(),
                                     "target": inc["path"]})
                self.nl()
                self.open_file(inc["path"])
                self.file_body(inc["path"], inc["budget"], inc["includes"])
                self.cur = path
                self.feat("include")
            if len(self.p.order) > 1 and self.r.random() < 0.12:
                # a file that has already been indexed is included again (diamond / repeated include): no effect
                again = self.r.choice([f for f in self.p.order if f != path] or [path])
                self.w('include "%s"' % again.split("/")[-1])
                self.nl()
                self.feat("repeated-include")
            self.p.sites.append({"kind": "stmt-boundary", "path": path, "lo": self.here(), "hi": self.here()})
            self.statement(0)
            self.nl()
            k += 1
            if self.probe and not self.probed and self.r.random() < 0.3:
                if self.probe_stmt():
                    self.nl()
        while includes:
            inc = includes.pop(0)
            lo = self.here()
            self.w('include "%s"' % inc["name"])
            self.p.sites.append({"kind": "include", "path": path, "lo": lo, "hi": self.here(), "target": inc["path"]})
            self.nl()
            self.open_file(inc["path"])
            self.file_body(inc["path"], inc["budget"], inc["includes"])
            self.cur = path
            self.feat("include")
        if self.probe and not self.probed:
            if self.probe_stmt():
                self.nl()
        self.pending.pop()
        self.cur = prev

    def program(self):
        r = self.r
        root = "/w/main.td"
        incs = []
        for i in range(self.nfiles - 1):
            inc = {"name": "inc%d.td" % i, "path": "/w/inc%d.td" % i, "budget": r.choice([1, 2, 3]), "includes": []}
            if incs and r.random() < 0.4:
                incs[-1]["includes"].append(inc)       # nested include
            else:
                incs.append(inc)
        self.p.root = root
        self.open_file(root)
        self.file_body(root, self.size, incs)
        for path, parts in self.bufs.items():
            self.p.files[path] = "".join(parts)
        return self.p


def _strip_marks(marked):
    """text without the marks <D>..</D> (declaration), <U>..</U> (use), <S>..</S> (fault site); byte offsets of the marks"""
    text, pos = "", {}
    i = 0
    while i < len(marked):
        for tag in ("<D>", "</D>", "<U>", "</U>", "<S>", "</S>"):
            if marked.startswith(tag, i):
                pos[tag] = len(text.encode("utf-8"))
                i += len(tag)
                break
        else:
            text += marked[i]
            i += 1
    return text, pos


def _marked_case(key, marked, extra_files=None):
    """a directed case: /w/main.td = [marked] (one use and its declaration, both in main.td), plus unmarked other files"""
    text, pos = _strip_marks(marked)
    files = {"/w/main.td": text}
    files.update(extra_files or {})
    return {"key": key, "text": text, "files": files, "use": [pos["<U>"], pos["</U>"]], "decl": [pos["<D>"], pos["</D>"]]}


# ---------------------------------------------------------------------------------------------------------
# directed family: inheritance graphs in which an ancestor is reached a SECOND time before the parent that declares
# the field (record.rs find_field_in / is_subclass_of_in walk the parents with a visited set: the second visit must be
# skipped, not end the walk).  Each case: one use of the field `mixed` (marked in the text) and its declaration.
def diamond_cases():
    shapes = [
        ("diamond-right-second",
         "class Base { int b = 0; }\nclass Mixin { int <D>mixed</D> = 1; }\nclass Left : Base;\n"
         "class Right : Base, Mixin;\nclass Diamond : Left, Right { int u = <U>mixed</U>; }\n"),
        ("diamond-ancestor-relisted",
         "class Base { int b = 0; }\nclass L : Base;\nclass R { int <D>mixed</D> = 1; }\n"
         "class D : L, Base, R { int u = !add(<U>mixed</U>, b); }\n"),
        ("diamond-own-ancestor-relisted",
         "class A0 { int a = 0; }\nclass A1 : A0;\nclass Mixin { string <D>mixed</D> = \"m\"; }\n"
         "class B1 : A1, A0, Mixin { string u = <U>mixed</U>; }\n"),
        ("diamond-def-let",
         "class Base { int b = 0; }\nclass Mixin { int <D>mixed</D> = 1; }\nclass Left : Base;\n"
         "class Right : Base, Mixin;\nclass Diamond : Left, Right;\ndef d : Diamond { let <U>mixed</U> = 2; }\n"),
        ("diamond-field-access",
         "class Base { int b = 0; }\nclass Mixin { int <D>mixed</D> = 1; }\nclass Left : Base;\n"
         "class Right : Base, Mixin;\nclass Diamond : Left, Right;\ndef d : Diamond;\ndef e { int v = d.<U>mixed</U>; }\n"),
        ("diamond-three-levels",
         "class Root { int r = 0; }\nclass M1 : Root;\nclass M2 : Root;\nclass Mixin { bit <D>mixed</D> = 1; }\n"
         "class J : M1, M2, Mixin;\nclass K : J { bit u = <U>mixed</U>; }\n"),
        # the same walk in is_subclass_of_in: d must still be a Mixin for the initialiser to be compatible
        ("diamond-subclass-cast",
         "class Base { int b = 0; }\nclass Mixin { int mixed = 1; }\nclass Left : Base;\n"
         "class Right : Base, Mixin;\nclass Diamond : Left, Right;\ndef <D>d</D> : Diamond;\n"
         "class U { Mixin m = <U>d</U>; list<Mixin> l = [d]; }\n"),
        ("diamond-template-argument-default",
         "class Base { int b = 0; }\nclass Mixin { int <D>mixed</D> = 1; }\nclass Left : Base;\n"
         "class Right : Base, Mixin;\nclass P<int q> { int z = q; }\nclass Diamond : Left, Right, P<<U>mixed</U>>;\n"),
    ]
    return [_marked_case(key, marked) for key, marked in shapes]


# directed family: a class that is FORWARD-DECLARED (`class Reg;`, possibly in an included header) and defined later under the
# same name: the later definition is the class the name denotes from then on (symbol_map.rs add_record: the newest record
# of a name wins), so heirs, lets and field accesses see its fields.
def forward_class_cases():
    return [
        _marked_case("forward-class-heir-def",
                     "class Reg;\nclass Reg { int <D>width</D> = 32; }\ndef R0 : Reg { int half = <U>width</U>; }\n"),
        _marked_case("forward-class-used-before-definition",
                     "class Base;\nclass User { list<Base> bs = []; }\nclass Base { int <D>f</D> = 1; }\n"
                     "class Heir : Base { int g = <U>f</U>; }\n"),
        _marked_case("forward-class-def-let",
                     "class Base;\nclass User { list<Base> bs = []; }\nclass Base { int <D>f</D> = 1; }\n"
                     "class Heir : Base;\ndef D : Heir { let <U>f</U> = 2; }\n"),
        _marked_case("forward-class-field-access",
                     "class Reg;\nclass Reg { int <D>width</D> = 32; }\ndef R0 : Reg;\ndef q { int w = R0.<U>width</U>; }\n"),
        _marked_case("forward-class-typed-field-access",
                     "class Reg;\nclass Reg { int <D>width</D> = 32; }\nclass Bank<Reg r> { int w = r.<U>width</U>; }\n"),
        _marked_case("forward-class-template-arguments",
                     "class P<int n>;\nclass P<int n> { int <D>v</D> = n; }\ndef x : P<3> { int y = <U>v</U>; }\n"),
        _marked_case("forward-class-in-header",
                     "include \"fwd.td\"\nclass Reg { int <D>width</D> = 32; }\ndef R0 : Reg { int half = <U>width</U>; }\n",
                     {"/w/fwd.td": "class Reg;\nclass RegList { list<Reg> regs = []; }\n"}),
        _marked_case("forward-class-twice",
                     "class Reg;\nclass Reg;\nclass Reg { int <D>width</D> = 32; }\nclass Wide : Reg { int twice = !add(<U>width</U>, width); }\n"),
    ]


# directed family: an include statement nested in a block body; after the block a def inherits from the class A declared in
# the included file and uses the field A inherits from B (declared before the block): the use resolves only THROUGH the
# nested include (the quick tier's generator keeps includes at top level)
def nested_include_cases():
    inc = {"/w/inc.td": "class A : B;\ndef a0 : A;\n"}
    out = []
    for k, (op, cl) in sorted({"let": ("let v = 1 in {", "}"), "foreach": ("foreach i = [1] in {", "}"),
                               "if": ("if 1 then {", "}"), "defset": ("defset list<B> S = {", "}"),
                               "let-foreach": ("let v = 2 in {\n foreach i = [1, 2] in {", " }\n}")}.items()):
        out.append(_marked_case("nested-include-" + k,
                                "class B { int <D>v</D> = 0; }\n%s\n  include \"inc.td\"\n%s\ndef n : B;\ndef m : A { int w = <U>v</U>; }\n"
                                % (op, cl), inc))
    return out


# directed family: a LOCAL name (template argument, field, defvar, foreach iterator, multiclass argument) spelled like an
# EARLIER def / defset: the innermost declaration wins (context.rs resolve_id: the scope chain first, then defs, then
# defsets), and the program is well-formed (no type diagnostic: the local is an int, the def a record).
_SHADOW_PRELUDE = ("class Reg<int enc> { int Enc = enc; }\ndef width : Reg<3>;\ndef lanes : Reg<4>;\n"
                   "defset list<Reg> bank = {\n  def b0 : Reg<10>;\n  def b1 : Reg<11>;\n}\n")


def shadowed_def_cases():
    P = _SHADOW_PRELUDE
    return [
        _marked_case("local-over-def-template-argument",
                     P + "class Vec<int <D>width</D>> { int Bits = !mul(<U>width</U>, 8); }\ndef v : Vec<4>;\n"),
        _marked_case("local-over-def-field",
                     P + "class Simd { int <D>lanes</D> = 4; int Total = !add(<U>lanes</U>, 1); }\ndef s : Simd;\n"),
        _marked_case("local-over-def-foreach-iterator",
                     P + "foreach <D>lanes</D> = [1, 2] in {\n  defvar width = !shl(1, lanes);\n"
                         "  def : Reg<!add(width, <U>lanes</U>)>;\n}\n"),
        _marked_case("local-over-def-defvar",
                     P + "foreach lanes = [1, 2] in {\n  defvar <D>width</D> = !shl(1, lanes);\n"
                         "  def : Reg<!add(<U>width</U>, lanes)>;\n}\n"),
        _marked_case("local-over-defset-multiclass-argument",
                     P + "multiclass Pair<int <D>bank</D>> {\n  def _lo : Reg<<U>bank</U>>;\n  def _hi : Reg<!add(bank, 1)>;\n}\n"
                         "defm P : Pair<6>;\n"),
        _marked_case("local-over-def-body-defvar",
                     P + "def user { defvar <D>lanes</D> = 2; int n = !add(<U>lanes</U>, 1); }\n"),
        _marked_case("local-over-def-operator-variable",
                     P + "def user2 { list<int> l = !foreach(<D>width</D>, [1, 2], !add(<U>width</U>, 1)); }\n"),
        _marked_case("local-over-def-in-included-file",
                     "include \"regs.td\"\nclass Vec<int <D>width</D>> { int Bits = !mul(<U>width</U>, 8); }\ndef v : Vec<4>;\n",
                     {"/w/regs.td": P}),
        # control: where there is no local of that name, the def / defset IS what the name denotes
        _marked_case("def-when-no-local",
                     "class Reg<int enc> { int Enc = enc; }\ndef <D>width</D> : Reg<3>;\nclass Vec<int w> { Reg Unit = <U>width</U>; }\n"),
    ]


# directed family (C13 complete): a template argument WITHOUT default is left unbound while other arguments are passed BY NAME;
# the site is the class / multiclass reference
def named_missing_argument_cases():
    regs = "class Reg<int enc, int width = 32, string prefix = \"r\"> { int E = enc; int W = width; string P = prefix; }\n"
    triple = "class Triple<int a, int b, int c> { int Sum = !add(a, b, c); }\n"
    shapes = [
        ("named-missing-first-of-two", regs + "def r : <S>Reg<width = 16></S>;\n"),
        ("named-missing-middle", triple + "def t : <S>Triple<1, c = 3></S>;\n"),
        ("named-missing-first-named-only", triple + "def t : <S>Triple<c = 3, b = 2></S>;\n"),
        ("named-missing-class-parent", regs + "class Sub : <S>Reg<prefix = \"x\"></S>;\n"),
        ("named-missing-class-value", regs + "def q { Reg x = <S>Reg<width = 8></S>; }\n"),
        ("named-missing-multiclass",
         "class R<int v> { int V = v; }\nmulticlass M<int lo, int hi, int step = 1> {\n  def _lo : R<lo>;\n  def _hi : R<hi>;\n}\n"
         "defm X : <S>M<hi = 7></S>;\n"),
    ]
    out = []
    for key, marked in shapes:
        text, pos = _strip_marks(marked)
        out.append((key, text, [pos["<S>"], pos["</S>"]], "ArgMissing"))
    return out


# well-formed counterparts: every argument without default is given, by position or by name
def named_argument_cases():
    regs = "class Reg<int enc, int width = 32, string prefix = \"r\"> { int E = enc; int W = width; string P = prefix; }\n"
    triple = "class Triple<int a, int b, int c> { int Sum = !add(a, b, c); }\n"
    return [("named-arguments-complete",
             regs + triple + "def r0 : Reg<0>;\ndef r1 : Reg<1, 64>;\ndef r2 : Reg<2, prefix = \"x\">;\n"
             "def r3 : Reg<enc = 3, width = 16>;\ndef t0 : Triple<1, 2, 3>;\ndef t1 : Triple<1, c = 3, b = 2>;\n")]


def generate(rng, size=8, nfiles=None, probe=False, feats=None):
    return Gen(rng, size=size, nfiles=nfiles, probe=probe, feats=feats).program()


def uses_llvm14_only(p):
    return not (p.features & LLVM14_MISSING)


# ---------------------------------------------------------------------------------------------------------
# single-fault seeder (C13)
FAULT_CLASSES = ["undefined-class", "undefined-multiclass", "undefined-identifier", "undefined-include",
                 "missing-template-argument", "surplus-template-argument", "incompatible-initialiser",
                 "incompatible-argument", "operator-arity", "syntax-error"]

VARIADIC = {"!add", "!mul", "!and", "!or", "!xor", "!con", "!listconcat", "!strconcat"}


def wrong_literal(t):
    """a literal whose type is convertible neither way to t"""
    if t[0] in ("int", "bit", "bits", "list", "class", "dag"):
        return '"wrong"'
    return "7"           # string, code


class Fault:
    def __init__(self, kind, files, path, lo, hi, expect, check_files, note):
        self.kind, self.files, self.path, self.lo, self.hi = kind, files, path, lo, hi
        self.expect = expect            # message classes that count as reporting this fault
        self.check_files = check_files  # files that must stay free of diagnostics
        self.note = note


def _splice(files, path, lo, hi, new):
    b = files[path].encode("utf-8")
    out = dict(files)
    out[path] = (b[:lo] + new.encode("utf-8") + b[hi:]).decode("utf-8")
    return out


def _dependents(p, roots):
    """files that (transitively) use a declaration made in one of [roots]"""
    dep = {}
    for (f, _lo, _hi, key) in p.uses:
        d = p.decls[key][0]
        if d != f:
            dep.setdefault(d, set()).add(f)
    seen, todo = set(roots), list(roots)
    while todo:
        x = todo.pop()
        for y in dep.get(x, ()):
            if y not in seen:
                seen.add(y)
                todo.append(y)
    return seen


def _others(p, path, cascades, lost=()):
    """files that the fault does not touch: files that do not (transitively) use a declaration of the faulty
    file (or of a file that is no longer included); when the fault can make later declarations disappear
    (unknown class in a type or parent position, missing include), in addition only the files whose indexing
    was complete before the faulty file was entered"""
    touched = _dependents(p, [path] + list(lost))
    if not cascades:
        return [f for f in p.files if f not in touched]
    anc = set()
    f = path
    while f is not None:
        anc.add(f)
        f = p.parent.get(f)
    k = p.order.index(path)
    return [f for f in p.order[:k] if f not in anc and f not in touched]


def _under(p, f, anc):
    while f is not None:
        f = p.parent.get(f)
        if f == anc:
            return True
    return False


def seed_faults(p, rng):
    """one mutant per fault class that has an eligible site in [p] (a well-formed program)"""
    out = []
    sites = p.sites

    def pick(pred):
        c = [x for x in sites if pred(x)]
        return rng.choice(c) if c else None

    n = [0]

    def undef():
        n[0] += 1
        return "Undef%d" % n[0]

    x = pick(lambda x: x["kind"] in ("class-type", "class-parent", "class-value"))
    if x:
        nm = undef()
        out.append(Fault("undefined-class", _splice(p.files, x["path"], x["lo"], x["hi"], nm), x["path"],
                         x["lo"], x["lo"] + len(nm), ["ClassNotFound"],
                         _others(p, x["path"], x["kind"] != "class-value"), x["kind"]))
    x = pick(lambda x: x["kind"] == "multiclass-parent")
    if x:
        nm = undef()
        out.append(Fault("undefined-multiclass", _splice(p.files, x["path"], x["lo"], x["hi"], nm), x["path"],
                         x["lo"], x["lo"] + len(nm), ["MulticlassNotFound"], _others(p, x["path"], True), ""))
    x = pick(lambda x: x["kind"] == "ident")
    if x:
        nm = undef()
        out.append(Fault("undefined-identifier", _splice(p.files, x["path"], x["lo"], x["hi"], nm), x["path"],
                         x["lo"], x["lo"] + len(nm), ["SymbolNotFound"], _others(p, x["path"], False), ""))
    x = pick(lambda x: x["kind"] == "include")
    if x:
        new = 'include "missing_%d.td"' % rng.randrange(100)
        files = _splice(p.files, x["path"], x["lo"], x["hi"], new)
        lost = [f for f in p.files if f == x["target"] or _under(p, f, x["target"])]
        out.append(Fault("undefined-include", files, x["path"], x["lo"], x["lo"] + len(new), ["IncludeNotFound"],
                         [f for f in _others(p, x["path"], True, lost) if f not in lost], ""))
    refs = [x for x in sites if x["kind"] in ("class-parent", "class-value", "multiclass-parent") and x.get("args")]
    # missing: drop every argument when a required one exists
    c = [x for x in refs if any(not a[2] for a in x["args"]["targs"]) and x["args"]["open"] is not None]
    if c:
        x = rng.choice(c)
        a = x["args"]
        if x["kind"] == "class-value":      # `C<>`: without the brackets it would be an identifier, not a class value
            files = _splice(p.files, x["path"], a["open"], a["close"], "")
        else:
            files = _splice(p.files, x["path"], a["open"] - 1, a["close"] + 1, "")
        out.append(Fault("missing-template-argument", files, x["path"], x["lo"], x["hi"], ["ArgMissing"],
                         _others(p, x["path"], False), x["kind"]))
    if refs:
        x = rng.choice(refs)
        a = x["args"]
        extra = ", ".join(["0"] * (len(a["targs"]) - a["n"] + 1))
        if a["open"] is None:
            files = _splice(p.files, x["path"], x["hi"], x["hi"], "<" + extra + ">")
            lo, hi = x["hi"] + 1, x["hi"] + 1 + len(extra)
        else:
            ins = (", " if a["n"] else "") + extra
            files = _splice(p.files, x["path"], a["close"], a["close"], ins)
            lo, hi = a["close"] + len(ins) - len(extra), a["close"] + len(ins)
        out.append(Fault("surplus-template-argument", files, x["path"], lo, hi, ["TooManyArgs"],
                         _others(p, x["path"], False), x["kind"]))
    x = pick(lambda x: x["kind"] == "init")
    if x:
        new = wrong_literal(x["ty"])
        out.append(Fault("incompatible-initialiser", _splice(p.files, x["path"], x["lo"], x["hi"], new), x["path"],
                         x["lo"], x["lo"] + len(new), ["FieldIncompat"], _others(p, x["path"], False), ty_text(x["ty"])))
    c = [(x, sp) for x in refs for sp in x["args"].get("spans", [])]
    if c:
        x, (lo, hi, vlo, at) = rng.choice(c)
        new = wrong_literal(at)
        out.append(Fault("incompatible-argument", _splice(p.files, x["path"], vlo, hi, new), x["path"],
                         vlo, vlo + len(new), ["ArgType"], _others(p, x["path"], False), ty_text(at)))
    x = pick(lambda x: x["kind"] == "bang" and x.get("spans"))
    if x:
        if x["op"] in VARIADIC:
            first_hi = x["spans"][0][1]
            last_hi = x["spans"][-1][1]
            files = _splice(p.files, x["path"], first_hi, last_hi, "")
            hi = x["hi"] - (last_hi - first_hi)
        else:
            last_hi = x["spans"][-1][1]
            files = _splice(p.files, x["path"], last_hi, last_hi, ", 0, 0, 0")
            hi = x["hi"] + 9
        out.append(Fault("operator-arity", files, x["path"], x["lo"], hi, ["Arity"],
                         _others(p, x["path"], False), x["op"]))
    x = pick(lambda x: x["kind"] == "stmt-boundary")
    if x:
        junk = rng.choice([") ", "] ", "= ", "> "])
        out.append(Fault("syntax-error", _splice(p.files, x["path"], x["lo"], x["lo"], junk), x["path"],
                         x["lo"], x["lo"] + 1, ["Syntax"], _others(p, x["path"], False),
                         "root" if x["path"] == p.root else "included"))
    return out


# ---------------------------------------------------------------------------------------------------------
# known finding (C13, key=if-sibling-records): operands of !if / !listconcat / !listremove of distinct record
# types neither of which casts to the other.  Well-formed TableGen (llvm-tblgen accepts) that the indexer
# reports; a dedicated small family so that every run reproduces it.
def known_if_siblings(rng, k):
    out = []
    for _ in range(k):
        a, b, c = ("A%d" % rng.randrange(10), "da%d" % rng.randrange(10), "db%d" % rng.randrange(10))
        shape = rng.choice(["if-defs", "if-class-sub", "listconcat", "listremove"])
        pre = "class %s { int q = %d; }\ndef %s : %s;\ndef %s : %s;\n" % (a, rng.randrange(9), b, a, c, a)
        if shape == "if-defs":
            body = "def U { %s x = !if(%s, %s, %s); }" % (a, rng.choice(["1", "0", "true"]), b, c)
        elif shape == "if-class-sub":
            pre += "class S%s : %s;\n" % (a, a)
            body = "def U { %s x = !if(1, %s<>, S%s<>); }" % (a, a, a)
        elif shape == "listconcat":
            body = "def U { list<%s> l = !listconcat([%s], [%s]); }" % (a, b, c)
        else:
            body = "def U { list<%s> l = !listremove([%s, %s], [%s]); }" % (a, b, c, c)
        out.append({"shape": shape, "files": {"/w/main.td": pre + body + "\n"}, "root": "/w/main.td"})
    return out


# ---------------------------------------------------------------------------------------------------------
# operands whose type the indexer cannot infer (a variable initialised with !cond): every bang operator, every
# operand position.  Well-formed programs: no diagnostic (C13 sound), and the variable of !filter / !foreach /
# !foldl used in the body resolves (C05).  (Regression family of D27, D30, D32, D33.)
_OPS = [('!add', ['1', '2'], 'int'), ('!and', ['1', '2'], 'int'), ('!mul', ['1', '2'], 'int'), ('!or', ['1', '2'], 'int'),
        ('!xor', ['1', '2'], 'int'), ('!div', ['4', '2'], 'int'), ('!sub', ['4', '2'], 'int'), ('!srl', ['4', '2'], 'int'),
        ('!sra', ['4', '2'], 'int'), ('!shl', ['4', '2'], 'int'), ('!cast<string>', ['1'], 'string'),
        ('!con', ['(op 1)', '(op 2)'], 'dag'), ('!dag', ['op', '[1, 2]', '["a", "b"]'], 'dag'), ('!empty', ['[1]'], 'bit'),
        ('!eq', ['1', '2'], 'bit'), ('!ne', ['"a"', '"b"'], 'bit'), ('!exists<C>', ['"dd"'], 'bit'),
        ('!find', ['"abc"', '"b"', '0'], 'int'), ('!ge', ['1', '2'], 'bit'), ('!gt', ['1', '2'], 'bit'),
        ('!le', ['1', '2'], 'bit'), ('!lt', ['1', '2'], 'bit'), ('!getdagarg<int>', ['(op 1)', '0'], 'int'),
        ('!getdagname', ['(op 1:$a)', '0'], 'string'), ('!getdagop<C>', ['(dd 1)'], 'C'), ('!head', ['[1, 2]'], 'int'),
        ('!if', ['1', '2', '3'], 'int'), ('!initialized', ['1'], 'bit'), ('!interleave', ['[1, 2]', '","'], 'string'),
        ('!isa<C>', ['dd'], 'bit'), ('!listconcat', ['[1]', '[2]'], 'list<int>'),
        ('!listflatten', ['[[1], [2]]'], 'list<int>'), ('!listremove', ['[1, 2]', '[2]'], 'list<int>'),
        ('!listsplat', ['1', '3'], 'list<int>'), ('!logtwo', ['8'], 'int'), ('!not', ['1'], 'bit'),
        ('!range', ['1', '4', '1'], 'list<int>'), ('!repr', ['1'], 'string'), ('!setdagarg', ['(op 1)', '0', '2'], 'dag'),
        ('!setdagname', ['(op 1)', '0', '"n"'], 'dag'), ('!setdagop', ['(op 1)', 'dd'], 'dag'), ('!size', ['[1, 2]'], 'int'),
        ('!strconcat', ['"a"', '"b"'], 'string'), ('!subst', ['"a"', '"b"', '"abc"'], 'string'),
        ('!substr', ['"abc"', '1', '1'], 'string'), ('!tail', ['[1, 2]'], 'list<int>'), ('!tolower', ['"A"'], 'string'),
        ('!toupper', ['"a"'], 'string'), ('!filter', ['x', '[1, 2]', '!gt(x, 1)'], 'list<int>'),
        ('!foreach', ['x', '[1, 2]', '!add(x, 1)'], 'list<int>'), ('!foldl', ['0', '[1, 2]', 'acc', 'x', '!add(acc, x)'], 'int')]


def unknown_operand_cases():
    pre0 = 'class C { int q = 1; }\ndef dd : C;\ndef op;\n'
    cases = []
    for op, ops, rt in _OPS:
        for k, o in enumerate(ops):
            if o in ('x', 'acc') or (op in ('!filter', '!foreach') and k == 2) or (op == '!foldl' and k == 4):
                continue
            variants = [('v', o)]
            if o.startswith('['):
                elem = o[1:-1].split(', ')[0] if not o.startswith('[[') else o[1:-1].split('], ')[0] + ']'
                variants.append(('[v]', elem))
            for how, init in variants:
                text = pre0 + 'defvar v = !cond(1: %s, true: %s);\n' % (init, init)
                new = ops[:k] + [how] + ops[k + 1:]
                call = '%s(%s)' % (op, ', '.join(new))
                body = 'def U { %s r = %s; }\n' % (rt, call)
                uses = []
                if op in ('!filter', '!foreach', '!foldl'):
                    base = len(text) + body.index(call)
                    decl = base + call.index('x')
                    inner = call.rindex('!gt(x') if op == '!filter' else (call.rindex('!add(x') if op == '!foreach' else call.rindex('!add(acc'))
                    use = base + call.index('x', inner + 4)
                    uses.append((use, use + 1, decl, decl + 1))
                cases.append({"op": op, "operand": k, "how": how, "files": {"/w/main.td": text + body},
                              "root": "/w/main.td", "uses": uses})
    cases.append({"op": ".field", "operand": 0, "how": "v", "root": "/w/main.td", "uses": [],
                  "files": {"/w/main.td": pre0 + 'defvar v = !cond(1: dd, true: dd);\ndef U { int r = v.q; }\n'}})
    cases.append({"op": "[i]", "operand": 0, "how": "v", "root": "/w/main.td", "uses": [],
                  "files": {"/w/main.td": pre0 + 'defvar v = !cond(1: [1], true: [2]);\ndef U { int r = v[0]; }\n'}})
    return cases
