"""Helpers shared by checks/C18.py and checks/C19.py (group outline): running the harness observers and the
extracted model `outline_run`, Python reference implementations of the property on the real code's observations
(the implementation-side oracles), input mutators, comparison of outlines."""
import glob
import json
import os
import subprocess
import sys

sys.path.insert(0, os.path.dirname(os.path.abspath(__file__)))
import vlib
import treeio
import synlib
import outgen

FOLD_KINDS = {"Class", "Def", "Defset", "Foreach", "If", "Let", "MultiClass"}   # from the property text
TRIVIA = {"Whitespace", "LineComment", "BlockComment", "PreProcessor"}


# ------------------------------------------------------------------ running things
def parsedump(bindir, texts, timeout=900):
    out = []
    for ch in vlib.chunked(texts, 400):
        out += synlib.run_json_robust(os.path.join(bindir, "parsedump"), [], ch, timeout)
    return out


def idedump(bindir, workspaces, timeout=900, chunk=60):
    out = []
    for ch in vlib.chunked(workspaces, chunk):
        out += synlib.run_json_robust(os.path.join(bindir, "idedump"), [], ch, timeout)
    return out


def ws_of_text(text, offsets="none", hint_ranges=None):
    return {"files": [["main.td", text]], "root": "main.td", "offsets": offsets,
            "hint_ranges": [] if hint_ranges is None else hint_ranges, "completion": False}


def model_lines(exe, cmd, lines, timeout=900):
    """one input line per case -> one output line per case (sharded over processes, unlimited stack)"""
    if not lines:
        return []
    shards = max(1, min(vlib.NCPU // 2, len(lines) // 50))
    chunks = [lines[i::shards] for i in range(shards)]
    procs = []
    for ch in chunks:
        p = subprocess.Popen(["bash", "-c", 'ulimit -s unlimited 2>/dev/null; exec "$0" "$1"', exe, cmd],
                             stdin=subprocess.PIPE, stdout=subprocess.PIPE, text=True)
        procs.append((p, "\n".join(ch) + "\n"))
    outs = []
    for p, inp in procs:
        try:
            o, _ = p.communicate(inp, timeout=timeout)
        except subprocess.TimeoutExpired:
            p.kill()
            o = ""
        outs.append(o.split("\n")[:-1] if o else [])
    res = [None] * len(lines)
    for si, ch in enumerate(chunks):
        for j in range(len(ch)):
            res[si + j * shards] = outs[si][j] if j < len(outs[si]) else "MODEL-CRASH"
    return res


# ------------------------------------------------------------------ tree helpers (parsedump JSON)
def tree_tokens(node):
    """tokens (kind, lo, hi) of a parsedump node in document order"""
    out = []
    stack = [node]
    while stack:
        n = stack.pop()
        if n[0] == "T":
            out.append((n[1], n[2], n[3]))
        else:
            stack.extend(reversed(n[4]))
    return out


def tree_nodes_preorder(node):
    out = []
    stack = [node]
    while stack:
        n = stack.pop()
        if n[0] == "N":
            out.append(n)
            stack.extend(reversed(n[4]))
    return out


# ------------------------------------------------------------------ folding: reference on the real tree
def fold_reference(tree):
    """The property on the real parse tree: one range per block statement in preorder, from the statement's first
    token to the end of its last non-trivia token (zero-length tokens do not count; no such token: empty range)."""
    out = []
    for n in tree_nodes_preorder(tree):
        if n[1] in FOLD_KINDS:
            toks = tree_tokens(n)
            start = toks[0][1] if toks else n[2]
            sig = [t for t in toks if t[0] not in TRIVIA and t[2] > t[1]]
            end = sig[-1][2] if sig else start
            out.append([start, end])
    return out


def fold_structure_problems(ranges):
    """lo <= hi, pairwise nested or disjoint"""
    probs = []
    for r in ranges:
        if r[0] > r[1]:
            probs.append("range %s has start > end" % r)
    for i in range(len(ranges)):
        a = ranges[i]
        for j in range(i + 1, len(ranges)):
            b = ranges[j]
            nested = (b[0] <= a[0] and a[1] <= b[1]) or (a[0] <= b[0] and b[1] <= a[1])
            disjoint = a[1] <= b[0] or b[1] <= a[0]
            if not (nested or disjoint):
                probs.append("ranges %s and %s overlap without nesting" % (a, b))
                if len(probs) > 3:
                    return probs
    return probs


def first_tokens_ok(tree):
    """every block statement starts with a non-trivia token (trivia is trailing in this parser)"""
    bad = []
    for n in tree_nodes_preorder(tree):
        if n[1] in FOLD_KINDS:
            toks = tree_tokens(n)
            if toks and toks[0][0] in TRIVIA:
                bad.append([n[1], n[2], n[3]])
    return bad


# ------------------------------------------------------------------ outline comparison
def real_outline(o):
    return [{"kind": e["kind"], "name": e["name"], "range": e["range"], "children": real_outline(e["children"])}
            for e in (o or [])]


def expected_outline(o):
    return [{"kind": e["kind"], "name": e["name"], "range": e.get("range"), "optional": bool(e.get("optional")),
             "children": expected_outline(e.get("children", []))} for e in o]


def match_outline(exp, real):
    """expected (by construction) vs real document symbols; entries flagged optional may be present or absent: an
    anonymous def inside a defset (the statement speaks of named defs, the code lists it as `anonymous_N`), and a named def
    of a file that is included from inside a defset body (ambiguous: member of the defset, declared in another file)"""
    i = j = 0
    while i < len(exp):
        e = exp[i]
        if e.get("optional"):
            if j < len(real) and real[j]["kind"] == e["kind"] and (
                    real[j]["name"].startswith("anonymous_") if e["name"] is None
                    else (real[j]["name"], real[j]["range"]) == (e["name"], e["range"])):
                j += 1
            i += 1
            continue
        if j >= len(real):
            return False
        r = real[j]
        if (e["kind"], e["name"], e["range"]) != (r["kind"], r["name"], r["range"]):
            return False
        if not match_outline(e.get("children", []), r["children"]):
            return False
        i += 1
        j += 1
    return j == len(real)


# ------------------------------------------------------------------ mutators
def prefixes(rng, text, k):
    """k random prefixes cut at character boundaries (biased to just after an identifier / before a body)"""
    if not text:
        return []
    out = []
    n = len(text)
    for _ in range(k):
        out.append(text[:rng.randrange(0, n + 1)])
    return out


def token_mutations(rng, text, toks, k):
    """delete / duplicate / swap one non-trivia token of the real token list; toks = (kind, lo, hi) byte offsets"""
    b = text.encode("utf-8")
    sig = [t for t in toks if t[0] not in TRIVIA and t[2] > t[1]]
    out = []
    if not sig:
        return out
    for _ in range(k):
        t = rng.choice(sig)
        m = rng.random()
        if m < 0.6:
            nb = b[:t[1]] + b[t[2]:]
        elif m < 0.8:
            nb = b[:t[2]] + b" " + b[t[1]:t[2]] + b[t[2]:]
        else:
            u = rng.choice(sig)
            (a1, a2), (b1, b2) = sorted([(t[1], t[2]), (u[1], u[2])])
            if a2 > b1:
                continue
            nb = b[:a1] + b[b1:b2] + b[a2:b1] + b[a1:a2] + b[b2:]
        try:
            out.append(nb.decode("utf-8"))
        except UnicodeDecodeError:
            pass
    return out


HAND_TEXTS = [
    "", " ", "\n", "class Foo class Bar;", "class Foo\n", "class Foo", "multiclass M {\n", "def", "def ", "def\n\n",
    "class A { int x; } // t\n\nlet a = 1 in {\n def d;\n}\n", "// only a comment", "/* unterminated", "class A;\r\nclass B {\r\n}\r\n",
    "if 1 then def a; else def b;", "foreach i = [1] in let x = 1 in def d { int y = 1; } // c\n",
    "defset list<A> S = { def a : A; def : A; }\n   ", "class é", "class A { string s = \"日本\"; } /* 😀 */ ",
    "#ifdef X\nclass A;\n#endif\n", "#define X\n#ifdef X\nclass A {\n#endif\n}\n", "let in", "if then else", "foreach",
    "multiclass M { def x; } defm d : M;  \n\n", "class A<int x = 1> : B<x> { let y = x; }; ", "def a { }\t/* c */ // d",
    "class Foo\n// doc\nclass Bar;", "def X\n\n\n", "include \"a.td\"\nclass A;",
    # a preprocessor directive / region directly AFTER a block statement is trailing trivia of that statement (wave 3: W5-m2, W6-m1)
    "#ifndef G\n#define G\nclass A { int x; }\n#endif\n", "class A;\n#ifdef UNDEF\nclass B {\n#endif\nclass C;",
    "def d { int x = 1; }\n  #define Y\nclass C;", "foreach i = [1] in def d;\n#ifdef Z\njunk ( \n#endif",
    "multiclass M { def x; }\r\n#define K\r\ndefm z : M;", "let v = 1 in def e;\n#endif", "if 1 then def a; else def b;\n#ifdef U\n#endif\n",
    "#define X\nclass Q { int a;\n#ifdef X\n int b;\n#endif\n}\n#ifdef X\n#endif\nlet v = 1 in { def e; }\n#ifndef X\nclass Never {\n#endif",
    "defset list<A> S = { def a; }\n#define AFTER_DEFSET\n", "class A {\n  int x;\n#define IN_BODY\n}\n#define AFTER\n// c\n",
    "include \"a.td\"\n#ifdef U\nx\n#endif\nclass B;\n#define Z",
]


def corpus_texts(limit_bytes=None):
    """copies of the LLVM-14 .td files shipped with the system headers, when present (optional input source)"""
    out = []
    for p in sorted(glob.glob("/usr/include/llvm-14/llvm/**/*.td", recursive=True)):
        try:
            s = open(p, encoding="utf-8").read()
        except (OSError, UnicodeDecodeError):
            continue
        if limit_bytes is None or len(s) <= limit_bytes:
            out.append((p, s))
    return out


def tree_line(tree, text, sk_index):
    return treeio.tree_line(tree, text.encode("utf-8"), sk_index)


def sk_index_table():
    sk, _tk, _d = treeio.kind_tables(vlib.REPO)
    return sk


def text_repr(s, n=400):
    return s if len(s) <= n else s[:n] + "...(%d chars)" % len(s)


# ------------------------------------------------------------------ symbol-table part: op log -> model case line
def _nm(s):
    return ",".join(str(ord(c)) for c in s) if s else "-"


def encode_op(line, types):
    """one H3 op-log line (tab separated) -> the token form read by `outline_run sym`.  The log carries no `Type`s:
    the Display strings come from the final-state dump (`types`, keyed kind:index); a symbol that is no longer
    reachable (a field re-declared in the same body) gets the empty string -- no handler can observe it."""
    p = line.split("\t")
    k = p[0]
    if k == "add_record":
        return ["AR", _nm(p[1]), "C" if p[2] == "Class" else "D", p[3], p[4], p[5], p[6], p[7]]
    if k == "add_anonymous_def":
        return ["AAD", _nm(p[1]), p[2], p[3], p[4], p[5]]
    if k == "add_template_argument":
        return ["ATA", _nm(p[1]), _nm(types.get("template_arg:" + p[5], "")), p[2], p[3], p[4], p[5]]
    if k == "add_record_field":
        return ["ARF", _nm(p[1]), _nm(types.get("record_field:" + p[6], "")), p[2], p[3], p[4], p[5], p[6]]
    if k == "add_variable":
        return ["AV", _nm(p[1]), _nm(types.get("variable:" + p[5], "")), p[2], p[3], p[4], p[5]]
    if k == "add_defset":
        return ["ADS", _nm(p[1]), _nm(types.get("defset:" + p[5], "")), p[2], p[3], p[4], p[5]]
    if k == "add_multiclass":
        return ["AMC", _nm(p[1]), p[2], p[3], p[4], p[5]]
    if k == "add_defm":
        return ["ADM", _nm(p[1]), p[2], p[3], p[4], p[5], p[6]]
    if k == "add_anonymous_defm":
        return ["AADM", _nm(p[1]), p[2], p[3], p[4], p[5]]
    if k == "add_reference":
        return ["REF", p[1], p[2], p[3], p[4], p[5]]
    simple = {"record_mut": "RM", "defset_mut": "DSM", "multiclass_mut": "MCM", "defm_mut": "DMM", "record.add_parent": "RP",
              "defset.add_def": "DAD", "multiclass.add_parent": "MP", "defm.add_parent": "DMP"}
    if k in simple:
        return [simple[k], p[1]]
    named = {"record.add_template_arg": "RTA", "record.add_record_field": "RF", "multiclass.add_template_arg": "MTA"}
    if k in named:
        return [named[k], _nm(p[1]), p[2]]
    if k == "error":
        return ["ERR", p[1], p[2], p[3]]
    raise ValueError("unknown op-log line: %r" % line)


def sym_case_line(dump, files_text, sk_index, queries):
    """dump = one outdump object; queries = list of token lists (['outline', fid] / ['hover', fid, offs..] / ['hints', fid, lo, hi])"""
    secs = []
    for l in dump["oplog"]:
        secs.append("OP " + " ".join(encode_op(l, dump["types"])))
    for path, fid in dump["fids"].items():
        secs.append("FILE %d %s" % (fid, treeio.tree_line(dump["trees"][path], files_text[path].encode("utf-8"), sk_index)))
    for q in queries:
        secs.append("Q " + " ".join(str(x) for x in q))
    return " || ".join(secs)


def cps(x):
    return "".join(chr(c) for c in x)


def model_outline(o):
    if o is None:
        return None
    return [{"name": cps(e["name"]), "typ": cps(e["typ"]), "range": e["range"], "kind": e["kind"],
             "children": model_outline(e["children"])} for e in o]


def real_outline_typ(o):
    if o is None:
        return None
    return [{"name": e["name"], "typ": e["typ"], "range": e["range"], "kind": e["kind"],
             "children": real_outline_typ(e["children"])} for e in o]


def model_hover_runs(runs, fid_to_path):
    out = []
    for r in runs:
        if "panic" in r:
            out.append({"o": r["o"], "panic": r["panic"]})
            continue
        hv = r["hover"]
        if hv is not None:
            hv = {"sig": cps(hv["sig"]), "doc": (None if hv["doc"] is None else (hv["doc"] if isinstance(hv["doc"], str) else cps(hv["doc"])))}
        d = r["def"]
        if d is not None:
            d = [fid_to_path.get(d[0], "#%d" % d[0]), d[1], d[2]]
        out.append({"o": r["o"], "hover": hv, "def": d})
    return out


def expand_runs(runs, offsets):
    out = {}
    j = -1
    for o in offsets:
        while j + 1 < len(runs) and runs[j + 1]["o"] <= o:
            j += 1
        out[o] = {k: v for k, v in runs[j].items() if k != "o"} if j >= 0 else None
    return out


def char_offsets(text):
    b = text.encode("utf-8")
    return [i for i in range(len(b) + 1) if i == len(b) or (b[i] & 0xC0) != 0x80]


def outdump(bindir, workspaces, timeout=900, chunk=40):
    out = []
    for ch in vlib.chunked(workspaces, chunk):
        out += synlib.run_json_robust(os.path.join(bindir, "outdump"), [], ch, timeout)
    return out


def sym_compare(exe, sk_index, items, want_outline=True, want_hover=True, want_hints=True):
    """items: list of (workspace-with-files, outdump object).  Replays the real op log in the extracted model and compares
    document_symbol / hover+definition at every character offset / inlay hints of every requested range with the
    real handlers' answers recorded in the same dump.  Returns (disagreements, stats)."""
    lines, metas = [], []
    stats = {"sym_workspaces": 0, "sym_ops": 0, "sym_outline_files": 0, "sym_hover_offsets": 0, "sym_hint_requests": 0,
             "sym_skipped": 0}
    for ws, d in items:
        if not isinstance(d, dict) or "oplog" not in d or d["oplog"] is None:
            stats["sym_skipped"] += 1
            continue
        ft = dict((a, b) for a, b in ws["files"])
        qs = []
        for path, fid in d["fids"].items():
            if want_outline:
                qs.append(["outline", fid])
            if want_hover and d["at"].get(path):
                qs.append(["hover", fid] + char_offsets(ft[path]))
            if want_hints:
                for lo, hi, _h in d["hints"].get(path, []):
                    qs.append(["hints", fid, lo, hi])
        lines.append(sym_case_line(d, ft, sk_index, qs))
        metas.append((ws, d, ft))
        stats["sym_workspaces"] += 1
        stats["sym_ops"] += len(d["oplog"])
    outs = model_lines(exe, "sym", lines)
    bad = []
    for (ws, d, ft), o in zip(metas, outs):
        base = {"files": ws["files"], "root": ws["root"]}
        try:
            r = json.loads(o)
        except Exception:
            bad.append(dict(base, kind="sym-model-crash", model=o[:300], observed=None))
            continue
        if "err" in r:
            bad.append(dict(base, kind="sym-replay", model=r["err"], observed="real indexer ran to completion"))
            continue
        res = r["results"]
        i = 0
        f2p = {fid: p for p, fid in d["fids"].items()}
        for path, fid in d["fids"].items():
            if want_outline:
                mo, ro = model_outline(res[i]) if not isinstance(res[i], dict) else res[i], real_outline_typ(d["symbols"][path])
                i += 1
                stats["sym_outline_files"] += 1
                if mo != ro:
                    bad.append(dict(base, kind="sym-outline", file=path, model=mo, observed=ro))
            if want_hover and d["at"].get(path):
                offs = char_offsets(ft[path])
                mh = expand_runs(model_hover_runs(res[i], f2p), offs)
                rh = expand_runs(d["at"][path], offs)
                i += 1
                stats["sym_hover_offsets"] += len(offs)
                for o_ in offs:
                    if mh[o_] != rh[o_]:
                        bad.append(dict(base, kind="sym-hover", file=path, offset=o_, model=mh[o_], observed=rh[o_]))
                        break
            if want_hints:
                reported = False
                for lo, hi, rhi in d["hints"].get(path, []):
                    mhi = res[i]
                    i += 1
                    stats["sym_hint_requests"] += 1
                    if isinstance(mhi, list):
                        mhi = [[h[0], cps(h[1]), h[2]] for h in mhi]
                    if mhi != rhi and not reported:
                        reported = True
                        bad.append(dict(base, kind="sym-hints", file=path, range=[lo, hi], model=mhi, observed=rhi))
    return bad, stats


# ------------------------------------------------------------------ extraction cross-check inside Coq (vm_compute)
def coq_tree(node, text_bytes):
    if node[0] == "T":
        s = text_bytes[node[2]:node[3]].decode("utf-8")
        return "Tok S_%s [%s]" % (node[1], ";".join(str(ord(c)) for c in s))
    return "Node S_%s [%s]" % (node[1], "; ".join(coq_tree(c, text_bytes) for c in node[4]))


def coq_crosscheck(cases, tag):
    """cases: list of (tree, text, folding ranges as produced by the EXTRACTED model, [(lo, hi, doc-or-None as produced by the
    extracted model)]).  The same terms are evaluated by vm_compute inside Coq; returns (ok, n_goals, log)."""
    body = ["From Coq Require Import List NArith.", "From TG.Gen Require Import GenTokens.",
            "From TG.Model Require Import Chars Tree TreeNav Folding DocComments.", "Import ListNotations.", "Open Scope N_scope.", ""]
    n = 0
    for i, (tree, text, folds, docs) in enumerate(cases):
        tb = text.encode("utf-8")
        body.append("Definition t%d : tree := %s." % (i, coq_tree(tree, tb)))
        body.append("Goal folding_model t%d = [%s]. Proof. vm_compute. reflexivity. Qed." % (
            i, "; ".join("(%d, %d)" % (a, b) for a, b in folds)))
        n += 1
        for lo, hi, doc in docs:
            rhs = "DocNone" if doc is None else "DocSome [%s]" % ";".join(str(ord(c)) for c in doc)
            body.append("Goal extract_doc_comments t%d %d %d = %s. Proof. vm_compute. reflexivity. Qed." % (i, lo, hi, rhs))
            n += 1
    d = os.path.join(vlib.CACHE, "outline-xc")
    os.makedirs(d, exist_ok=True)
    name = "XC_%s_%s" % (tag, vlib.sha("\n".join(body))[:10])
    path = os.path.join(d, name + ".v")
    with open(path, "w") as f:
        f.write("\n".join(body) + "\n")
    rc, out = vlib.sh(["coqc", "-noglob", "-Q", "gen", "TG.Gen", "-Q", "model", "TG.Model", "-Q", "proofs", "TG.Proofs", path],
                      cwd=vlib.COQ, timeout=300)
    for ext in (".v", ".vo", ".vok", ".vos", ".glob"):
        try:
            os.remove(os.path.join(d, name + ext))
        except OSError:
            pass
    return rc == 0, n, out[-1500:]


def _coq_name(tok):
    return "[]" if tok == "-" else "[" + ";".join(tok.split(",")) + "]"


def coq_op(t):
    """token form of encode_op -> Coq term of SymbolMap.op"""
    fr = lambda f, lo, hi: "(mkFR %s %s %s)" % (f, lo, hi)
    b = lambda x: "true" if x == "1" else "false"
    k = t[0]
    if k == "AR":
        return "OpAddRecord %s %s %s %s %s" % (_coq_name(t[1]), "RKClass" if t[2] == "C" else "RKDef", fr(t[3], t[4], t[5]), b(t[6]), t[7])
    if k == "AAD":
        return "OpAddAnonymousDef %s %s %s" % (_coq_name(t[1]), fr(t[2], t[3], t[4]), t[5])
    if k == "ATA":
        return "OpAddTemplateArg %s %s %s %s" % (_coq_name(t[1]), _coq_name(t[2]), fr(t[3], t[4], t[5]), t[6])
    if k == "ARF":
        return "OpAddRecordField %s %s %s %s %s" % (_coq_name(t[1]), _coq_name(t[2]), fr(t[3], t[4], t[5]), t[6], t[7])
    if k == "AV":
        return "OpAddVariable %s %s %s %s" % (_coq_name(t[1]), _coq_name(t[2]), fr(t[3], t[4], t[5]), t[6])
    if k == "ADS":
        return "OpAddDefset %s %s %s %s" % (_coq_name(t[1]), _coq_name(t[2]), fr(t[3], t[4], t[5]), t[6])
    if k == "AMC":
        return "OpAddMulticlass %s %s %s" % (_coq_name(t[1]), fr(t[2], t[3], t[4]), t[5])
    if k == "ADM":
        return "OpAddDefm %s %s %s %s" % (_coq_name(t[1]), fr(t[2], t[3], t[4]), b(t[5]), t[6])
    if k == "AADM":
        return "OpAddAnonymousDefm %s %s %s" % (_coq_name(t[1]), fr(t[2], t[3], t[4]), t[5])
    if k == "REF":
        kinds = {"record": "KRecord", "template_arg": "KTemplateArg", "record_field": "KRecordField", "variable": "KVariable",
                 "defset": "KDefset", "multiclass": "KMulticlass", "defm": "KDefm"}
        return "OpAddReference (%s, %s) %s" % (kinds[t[1]], t[2], fr(t[3], t[4], t[5]))
    simple = {"RM": "OpRecordMut", "DSM": "OpDefsetMut", "MCM": "OpMulticlassMut", "DMM": "OpDefmMut", "RP": "OpRecAddParent",
              "DAD": "OpDefsetAddDef", "MP": "OpMcAddParent", "DMP": "OpDefmAddParent"}
    if k in simple:
        return "%s %s" % (simple[k], t[1])
    named = {"RTA": "OpRecAddTemplateArg", "RF": "OpRecAddField", "MTA": "OpMcAddTemplateArg"}
    if k in named:
        return "%s %s %s" % (named[k], _coq_name(t[1]), t[2])
    if k == "ERR":
        return "OpError " + fr(t[1], t[2], t[3])
    raise ValueError(k)


def coq_docsym(e):
    nm = lambda x: "[" + ";".join(str(c) for c in x) + "]"
    return "DocSym %s %s %d %d DK%s [%s]" % (nm(e["name"]), nm(e["typ"]), e["range"][0], e["range"][1], e["kind"],
                                            "; ".join(coq_docsym(c) for c in e["children"]))


def coq_crosscheck_sym(cases, tag):
    """cases: list of (outdump object, {fid: raw JSON outline as printed by the EXTRACTED model}).  The op log is replayed and
    document_symbol evaluated by vm_compute inside Coq; returns (ok, n_goals, log)."""
    body = ["From Coq Require Import List NArith.", "From TG.Model Require Import Chars SymbolMap Outline.",
            "Import ListNotations.", "Open Scope N_scope.", ""]
    n = 0
    for i, (d, outl) in enumerate(cases):
        ops = [coq_op(encode_op(l, d["types"])) for l in d["oplog"]]
        body.append("Definition ops%d : list op := [ %s ]." % (i, ";\n  ".join(ops)))
        for fid, o in outl.items():
            rhs = "SOk None" if o is None else "SOk (Some [%s])" % "; ".join(coq_docsym(e) for e in o)
            body.append("Goal match run_ops ops%d with SOk st => document_symbol st %d | SErr e => SErr e end = %s.\n"
                        "Proof. vm_compute. reflexivity. Qed." % (i, fid, rhs))
            n += 1
    d_ = os.path.join(vlib.CACHE, "outline-xc")
    os.makedirs(d_, exist_ok=True)
    name = "XS_%s_%s" % (tag, vlib.sha("\n".join(body))[:10])
    path = os.path.join(d_, name + ".v")
    with open(path, "w") as f:
        f.write("\n".join(body) + "\n")
    rc, out = vlib.sh(["coqc", "-noglob", "-Q", "gen", "TG.Gen", "-Q", "model", "TG.Model", "-Q", "proofs", "TG.Proofs", path],
                      cwd=vlib.COQ, timeout=300)
    for ext in (".v", ".vo", ".vok", ".vos", ".glob"):
        try:
            os.remove(os.path.join(d_, name + ext))
        except OSError:
            pass
    return rc == 0, n, out[-1500:]


# ------------------------------------------------------------------ indexer slice (OutlineIndex.v) vs the real op log
RELEVANT_ADD = {"AR", "AAD", "ATA", "ARF", "ADS", "AMC"}
RELEVANT_PAIR = {"RTA": "RM", "RF": "RM", "RP": "RM", "DAD": "DSM", "MTA": "MCM"}


def relevant_ops(tokens):
    """projection of an encoded op list onto the ops that decide the outline: the add_* of records / template arguments /
    fields / defsets / multiclasses, and the `x_mut` + `x.add_*` pairs of template arguments, fields, record parents and
    defset members (a `*_mut` line that is not directly followed by such a call comes from add_reference and is dropped)"""
    out = []
    for i, t in enumerate(tokens):
        k = t[0]
        if k in RELEVANT_ADD:
            out.append(t)
        elif k in RELEVANT_PAIR and i > 0 and tokens[i - 1][0] == RELEVANT_PAIR[k]:
            out.append(tokens[i - 1])
            out.append(t)
    return out


FILE_POS = {"AR": 3, "AAD": 2, "ATA": 3, "ARF": 3, "ADS": 3, "AMC": 2}
TYPE_POS = {"ATA": 2, "ARF": 2, "ADS": 2}


def coreast(bindir, workspaces, timeout=900, chunk=60):
    out = []
    for ch in vlib.chunked(workspaces, chunk):
        out += synlib.run_json_robust(os.path.join(bindir, "coreast"), [], ch, timeout)
    return out


def core_from_texts(wss, cas):
    """The typed AST of each workspace computed INSIDE Coq from the texts (group bridge's extracted pipeline `bridge_run corews`:
    model parser, generated accessor table, modelled include resolution).  Returns (objects to feed the slice with, stats,
    disagreements): the bridge's object where it yields a Core AST, else the harness object; a Core AST on one side that is
    not, character for character, the other side's is a broken correspondence (reported with the workspace)."""
    import bridgelib
    stats = {"bridge_core": 0, "bridge_equal": 0, "bridge_none": 0}
    try:
        bexe = vlib.build_model("bridge")
        brs = bridgelib.core_via_bridge(bexe, [{"root": w["root"], "files": dict(w["files"])} for w in wss])
    except Exception as ex:            # the bridge unit is another group's: without it the harness AST is used, as before
        stats["bridge_error"] = "%s: %s" % (type(ex).__name__, str(ex)[:300])
        stats["bridge_none"] = len(wss)
        return cas, stats, []
    out, bad = [], []
    for w, c, b in zip(wss, cas, brs):
        c_ast = c.get("ast") if isinstance(c, dict) else None
        b_ast = b.get("ast") if isinstance(b, dict) else None
        if not b_ast:
            stats["bridge_none"] += 1
            out.append(c)
            if c_ast and len(dict(w["files"])) == len(w["files"]):
                bad.append({"files": w["files"], "root": w["root"], "kind": "bridge-vs-coreast",
                            "model": {"bridge": {k: b.get(k) for k in ("noncore", "panic", "files")} if isinstance(b, dict) else str(b)[:200]},
                            "observed": {"coreast": "Core AST of %d files" % len(c["files"])}})
            continue
        stats["bridge_core"] += 1
        if c_ast == b_ast and c["files"] == b["files"]:
            stats["bridge_equal"] += 1
        else:
            k = next((i for i in range(min(len(c_ast or ""), len(b_ast))) if (c_ast or "")[i] != b_ast[i]), 0)
            bad.append({"files": w["files"], "root": w["root"], "kind": "bridge-vs-coreast",
                        "model": {"files": b["files"], "ast_at_first_difference": b_ast[max(0, k - 60):k + 80]},
                        "observed": {"files": c.get("files") if isinstance(c, dict) else None,
                                     "ast_at_first_difference": (c_ast or "<not Core>")[max(0, k - 60):k + 80]}})
        out.append(b)
    return out, stats, bad


def oix_compare(exe, items):
    """items: list of (workspace, outdump object, coreast object).  Runs the indexer-slice model on the typed AST of the real
    parse trees and compares (1) its op sequence with the projection of the real op log (file numbers mapped through the
    paths; a type the final state no longer shows is a wildcard), (2) the outline it determines with the real handler's.
    Returns (disagreements, stats)."""
    stats = {"oix_workspaces": 0, "oix_noncore": 0, "oix_ops": 0, "oix_outline_files": 0,
             "source_theorem_applicable": 0, "source_theorem_counts_agree": 0,
             "files_theorem_hypotheses_hold": 0, "multi_file_workspaces": 0, "children_stream_equal": 0}
    lines, metas = [], []
    for ws, d, ca in items:
        if not isinstance(d, dict) or not d.get("oplog") and d.get("oplog") != []:
            continue
        if not isinstance(ca, dict) or not ca.get("ast"):
            stats["oix_noncore"] += 1
            continue
        lines.append(ca["ast"])
        metas.append((ws, d, ca))
    outs = model_lines(exe, "oix", lines)
    bad = []
    for (ws, d, ca), o in zip(metas, outs):
        base = {"files": ws["files"], "root": ws["root"]}
        stats["oix_workspaces"] += 1
        try:
            r = json.loads(o)
        except Exception:
            bad.append(dict(base, kind="oix-model-crash", model=o[:300], observed=None))
            continue
        # hypotheses of C18_outline_files_complete: no modelled panic, declarations well-formed (decidable, syntactic)
        if r.get("bad") is False and r.get("decls_wf") is True:
            stats["files_theorem_hypotheses_hold"] += 1
        if len(ca["files"]) > 1:
            stats["multi_file_workspaces"] += 1
        if r.get("children_stream") == "equal":
            stats["children_stream_equal"] += 1
        # side condition of C18_outline_source_complete (single file, no include): registered vs source declaration counts
        dc = r.get("decl_counts")
        if dc is not None:
            stats["source_theorem_applicable"] += 1
            if dc[0] == dc[1]:
                stats["source_theorem_counts_agree"] += 1
        # coreast file number -> real file id
        num2real = {}
        for k, path in enumerate(ca["files"]):
            if path in d["fids"]:
                num2real[str(k)] = str(d["fids"][path])
        real = relevant_ops([encode_op(l, d["types"]) for l in d["oplog"]])
        model = [t.split(" ") for t in r["ops"]]
        for t in model:
            p = FILE_POS.get(t[0])
            if p is not None:
                t[p] = num2real.get(t[p], "?" + t[p])
        stats["oix_ops"] += len(real)
        ok = len(real) == len(model) and not r["bad"]
        first = None
        if ok:
            for a, b in zip(real, model):
                a2, b2 = list(a), list(b)
                tp = TYPE_POS.get(a[0])
                if tp is not None and a[tp] == "-":
                    a2[tp] = b2[tp] = "*"          # type not observable in the final state
                if a2 != b2:
                    ok, first = False, (a, b)
                    break
        if not ok:
            bad.append(dict(base, kind="oix-ops", model={"bad": r["bad"], "n": len(model), "first_difference": first and first[1]},
                            observed={"n": len(real), "first_difference": first and first[0]}))
            continue
        for k, path in enumerate(ca["files"]):
            if path not in d["symbols"]:
                continue
            stats["oix_outline_files"] += 1
            mo = r["outline"][k]
            mo = mo if isinstance(mo, dict) else model_outline(mo)
            ro = real_outline_typ(d["symbols"][path])

            def strip_typ(o_):
                return None if o_ is None else [{"name": e["name"], "range": e["range"], "kind": e["kind"],
                                                 "children": strip_typ(e["children"])} for e in o_]
            # the slice leaves variables / defms out: a file whose only global symbols are of those kinds has a list in
            # the real state (outline []) and none in the slice's (outline None): None and [] are identified here
            if isinstance(mo, dict) or (strip_typ(mo) or []) != (strip_typ(ro) or []):
                bad.append(dict(base, kind="oix-outline", file=path, model=mo, observed=ro))
    return bad, stats
