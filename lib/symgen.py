"""Program / workspace generator of the symbol-map group (C03, C06, C17).

Generates semantically dense TableGen programs over small name pools (so that identifiers resolve, are
redefined, shadow one another, or dangle), multi-file workspaces (chains, diamonds, redefinition across
files), and the derived states a user types through: token prefixes, single-token edits; plus
non-ASCII / CRLF injection next to identifiers.  All randomness comes from the `rng` passed in."""
import re

CLASSES = ["A", "B", "C", "Foo", "Bar"]
FIELDS = ["x", "y", "z", "v"]
ARGS = ["a", "b", "n"]
DEFS = ["d", "e", "r0", "A", "x"]          # overlaps with classes/fields on purpose
VARS = ["i", "t", "x", "a"]
MCS = ["M", "N", "A"]
BANG2 = ["add", "sub", "mul", "and", "or", "eq", "ne", "lt", "le", "gt", "ge", "strconcat", "listconcat",
         "shl", "sra", "srl", "xor", "div", "con", "listremove", "listsplat", "interleave", "range", "find"]
BANG1 = ["not", "size", "head", "tail", "empty", "tolower", "toupper", "logtwo", "listflatten", "repr",
         "initialized", "getdagop", "getdagname"]
DOC_SPACES = ["\u3000", "\u00a0", "\u2003", "\u3000\u3000", "\u00a0 "]
NONASCII = ["é", "漢字", "\U0001F600", "ß", " ", " ", "ｘ"]


class Gen:
    def __init__(self, rng, depth=3):
        self.r = rng
        self.depth = depth

    def pick(self, xs):
        return xs[self.r.randrange(len(xs))]

    def chance(self, p):
        return self.r.random() < p

    # ----------------------------------------------------------------- types
    def typ(self, d=2):
        k = self.r.randrange(10)
        if k < 3:
            return "int"
        if k == 3:
            return "string"
        if k == 4:
            return "bit"
        if k == 5:
            return "bits<%d>" % self.r.randrange(1, 5)
        if k == 6 and d > 0:
            return "list<%s>" % self.typ(d - 1)
        if k == 7:
            return self.pick(["dag", "code"])
        return self.pick(CLASSES)

    # ----------------------------------------------------------------- values
    def ident(self):
        return self.pick(self.pick([FIELDS, ARGS, DEFS, VARS, CLASSES, ["NAME", "q"]]))

    def value(self, d=None):
        d = self.depth if d is None else d
        k = self.r.randrange(26 if d > 0 else 8)
        if k < 2:
            return str(self.r.randrange(0, 9))
        if k == 2:
            return '"%s"' % self.pick(["s", "A", "x", ""])
        if k < 6:
            return self.ident()
        if k == 6:
            return self.pick(["?", "true", "false", "0b101", "0x1F", "-3", "[{ c }]"])
        if k == 7:
            return "%s.%s" % (self.ident(), self.pick(FIELDS))
        if k == 8:
            return "[%s]" % ", ".join(self.value(d - 1) for _ in range(self.r.randrange(0, 4)))
        if k == 9:
            return "[%s]<%s>" % (", ".join(self.value(d - 1) for _ in range(self.r.randrange(0, 3))), self.typ())
        if k == 10:
            return "%s<%s>" % (self.pick(CLASSES), self.args(d - 1))
        if k == 11:
            return "%s.%s.%s" % (self.ident(), self.pick(FIELDS), self.pick(FIELDS))
        if k == 12:
            return "(%s %s)" % (self.ident(), ", ".join(
                self.value(d - 1) + (":$" + self.pick(ARGS) if self.chance(0.4) else "") for _ in range(self.r.randrange(0, 3))))
        if k == 13:
            return "{%s}" % ", ".join(self.value(d - 1) for _ in range(self.r.randrange(1, 4)))
        if k == 14:
            return "%s#%s" % (self.value(d - 1), self.value(d - 1))
        if k == 15:
            return "%s%s" % (self.ident(), self.pick(["{1}", "{0-2}", "[0]", "[0...1]", "[1, 2]", "{3...0}"]))
        if k == 16:
            return "!%s(%s, %s)" % (self.pick(BANG2), self.value(d - 1), self.value(d - 1))
        if k == 17:
            return "!%s(%s)" % (self.pick(BANG1), self.value(d - 1))
        if k == 18:
            return "!if(%s, %s, %s)" % (self.value(d - 1), self.value(d - 1), self.value(d - 1))
        if k == 19:
            return "!foreach(%s, %s, %s)" % (self.binder(), self.value(d - 1), self.value(d - 1))
        if k == 20:
            return "!foldl(%s, %s, %s, %s, %s)" % (self.value(d - 1), self.value(d - 1), self.binder(), self.binder(), self.value(d - 1))
        if k == 21:
            return "!filter(%s, %s, %s)" % (self.binder(), self.value(d - 1), self.value(d - 1))
        if k == 22:
            return "!%s<%s>(%s)" % (self.pick(["cast", "isa", "exists"]), self.typ(), self.value(d - 1))
        if k == 23:
            return "!cond(%s)" % ", ".join("%s: %s" % (self.value(d - 1), self.value(d - 1)) for _ in range(self.r.randrange(1, 3)))
        if k == 24:
            return "!%s(%s)" % (self.pick(["subst", "substr", "dag", "setdagop", "getdagarg", "setdagarg", "setdagname"]),
                                ", ".join(self.value(d - 1) for _ in range(self.r.randrange(1, 4))))
        return "!%s(%s)" % (self.pick(BANG2 + BANG1), ", ".join(self.value(d - 1) for _ in range(self.r.randrange(0, 4))))

    def binder(self):
        """the bound variable of !foreach / !foldl / !filter: usually an identifier (sometimes followed by trivia), sometimes not one"""
        k = self.r.randrange(12)
        if k < 8:
            return self.pick(VARS)
        if k == 8:
            return self.pick(VARS) + self.pick([" ", " /* c */", "\n"])
        return self.pick(["1", '"s"', "a.b", "!add(1, 2)", "[1]", "?", "A<1>", "x#y"])

    def args(self, d):
        n = self.r.randrange(0, 5)
        out = []
        for _ in range(n):
            k = self.r.randrange(8)
            if k < 2:
                out.append("%s = %s" % (self.pick(ARGS + FIELDS), self.value(d)))
            elif k == 2:
                # a named argument whose name is not an identifier
                out.append("%s = %s" % (self.pick(["1", '"a"', '"zz"', "[1]", "A<1>", "a.b", "?"]), self.value(d)))
            else:
                out.append(self.value(d))
        return ", ".join(out)

    # ----------------------------------------------------------------- declarations
    def targs(self):
        n = self.r.randrange(1, 4)
        out = []
        for _ in range(n):
            s = "%s %s" % (self.typ(), self.pick(ARGS + FIELDS))
            if self.chance(0.4):
                s += " = " + self.value(1)
            out.append(s)
        return "<%s>" % ", ".join(out)

    def class_ref(self, pool):
        s = self.pick(pool)
        if self.chance(0.45):
            s += "<%s>" % self.args(1)
        return s

    def parents(self, pool):
        return " : " + ", ".join(self.class_ref(pool) for _ in range(self.r.randrange(1, 3)))

    def body_item(self):
        k = self.r.randrange(10)
        if k < 4:
            s = "%s%s %s" % ("field " if self.chance(0.1) else "", self.typ(), self.pick(FIELDS))
            if self.chance(0.7):
                s += " = " + self.value()
            return s + ";"
        if k < 7:
            return "let %s%s = %s;" % (self.pick(FIELDS), self.pick(["", "", "{0}", "{1-2}"]), self.value())
        if k == 7:
            return "defvar %s = %s;" % (self.pick(VARS), self.value())
        if k == 8:
            return 'assert %s, "%s";' % (self.value(2), "m")
        return "dump %s;" % self.value(2)

    def body(self):
        if self.chance(0.25):
            return ";"
        return " { " + " ".join(self.body_item() for _ in range(self.r.randrange(0, 4))) + " }"

    def def_name(self):
        k = self.r.randrange(8)
        if k == 0:
            return ""
        if k == 1:
            return " %s#%s" % (self.pick(DEFS), self.pick(VARS))
        if k == 2:
            return ' "s"#%s' % self.pick(VARS)
        return " " + self.pick(DEFS)

    def statement(self, d=None, in_mc=False):
        d = self.depth if d is None else d
        k = self.r.randrange(16 if d > 0 else 8)
        if k < 3:
            s = "class %s" % self.pick(CLASSES)
            if self.chance(0.4):
                s += self.targs()
            if self.chance(0.6):
                s += self.parents(CLASSES)
            return s + self.body()
        if k < 5:
            s = "def%s" % self.def_name()
            if self.chance(0.7):
                s += self.parents(CLASSES)
            return s + self.body()
        if k == 5:
            return "defvar %s = %s;" % (self.pick(VARS), self.value())
        if k == 6:
            s = "defm%s" % self.def_name()
            return s + self.parents(MCS + (CLASSES if self.chance(0.3) else [])) + ";"
        if k == 7:
            return self.pick(['assert %s, "m";' % self.value(2), "dump %s;" % self.value(2)])
        if k == 8:
            s = "multiclass %s" % self.pick(MCS)
            if self.chance(0.5):
                s += self.targs()
            if self.chance(0.3):
                s += self.parents(MCS)
            return s + " { " + " ".join(self.statement(d - 1, True) for _ in range(self.r.randrange(0, 4))) + " }"
        if k == 9:
            return "defset list<%s> %s = { %s }" % (self.pick(CLASSES), self.pick(DEFS + VARS),
                                                   " ".join(self.statement(d - 1) for _ in range(self.r.randrange(0, 3))))
        if k == 10:
            it = self.pick(["[%s]" % ", ".join(self.value(1) for _ in range(2)), "0...3", "{0-3}", "0-2", self.ident(), self.value(2)])
            return "foreach %s = %s in %s" % (self.pick(VARS), it, self.block(d - 1, in_mc))
        if k == 11:
            s = "if %s then %s" % (self.value(2), self.block(d - 1, in_mc))
            if self.chance(0.5):
                s += " else " + self.block(d - 1, in_mc)
            return s
        if k == 12:
            items = ", ".join("%s%s = %s" % (self.pick(FIELDS), self.pick(["", "", "<0>", "<1...2>"]), self.value(2))
                              for _ in range(self.r.randrange(1, 3)))
            return "let %s in %s" % (items, self.block(d - 1, in_mc))
        if k == 13:
            # typing states: a declaration cut short
            return self.pick(["class %s :" % self.pick(CLASSES), "def %s : %s<" % (self.pick(DEFS), self.pick(CLASSES)),
                              "class %s<int" % self.pick(CLASSES), "let %s =" % self.pick(FIELDS),
                              "class %s : %s { let" % (self.pick(CLASSES), self.pick(CLASSES)), "defm : ", "foreach i ="])
        if k == 14:
            c = self.pick(CLASSES)
            return "class %s : %s { int %s = %s; }" % (c, self.pick([c, c, self.pick(CLASSES)]), self.pick(FIELDS), self.pick(FIELDS))
        return self.stress()

    def block(self, d, in_mc=False):
        if self.chance(0.35):
            return self.statement(d, in_mc)
        return "{ " + " ".join(self.statement(d, in_mc) for _ in range(self.r.randrange(0, 3))) + " }"

    def stress(self):
        """semantic stress patterns: self/mutual parents through redefinition, shadowing, overrides, let of unknown fields"""
        a, b, c = self.r.sample(CLASSES, 3)
        f, g = self.r.sample(FIELDS, 2)
        pats = [
            "class %s; class %s : %s; class %s : %s;" % (a, b, a, a, b),
            "class %s : %s { int %s = %s; }" % (a, a, f, g),
            "class %s { int %s; } class %s : %s { let %s = 1; } class %s : %s { let %s = 2; int %s = %s; }" % (a, f, b, a, f, c, b, f, g, f),
            "class %s<int %s> { int %s = %s; } def %s : %s<%s>;" % (a, f, f, f, f, a, f),
            "class %s { int %s; } class %s { int %s; } class %s : %s, %s { let %s = %s; }" % (a, f, b, f, c, a, b, f, f),
            "def %s { int %s = 1; } def %s { int %s = %s.%s; } def %s : %s;" % (a, f, b, g, a, f, a, a),
            "multiclass %s<int %s> { def %s : %s; defm %s : %s<%s>; } defm %s : %s<1>;" % (a, f, f, b, g, a, f, a, a),
            "class %s { let %s = 1; } class %s : %s { let %s = %s; }" % (a, f, b, a, g, f),
            "defvar %s = 1; defvar %s = %s; class %s { int %s = %s; defvar %s = %s; int %s = %s; }" % (f, f, f, a, g, f, f, g, g, f),
            "foreach %s = [1, 2] in { foreach %s = [%s] in def %s#%s { int %s = %s; } }" % (f, f, f, a, f, g, f),
            "class %s { %s %s; } class %s { %s %s; } def %s : %s { let %s = %s; int %s = %s.%s.%s; }" % (a, b, f, b, a, g, c, a, f, c, g, f, g, f),
            "class %s<%s %s> : %s<%s>;" % (a, a, f, a, f),
            "class %s { int %s = !foldl(0, [1], %s, %s, !add(%s, %s)); int %s = !foreach(%s, [1], %s); }" % (a, f, f, f, f, f, g, g, g),
            "defset list<%s> %s = { def %s : %s; defset list<%s> %s = { def %s; } } def %s : %s { int %s = !size(%s); }" % (a, f, b, a, a, f, c, g, a, f, f),
        ]
        return self.pick(pats)

    def program(self, n=None):
        n = self.r.randrange(1, 9) if n is None else n
        sep = self.pick([" ", "\n", "\n\n"])
        return sep.join(self.statement() for _ in range(n)) + self.pick(["", "\n"])

    def collision_program(self):
        """user-chosen names that collide with the names index.rs generates for anonymous defs / defms (`anonymous_<n>`):
        the named one is declared BEFORE the n-th anonymous one and used after it; for def and defm, in and outside defsets"""
        k = self.r.randrange(2)
        nm = "anonymous_%d" % k
        pre = "" if k == 0 else self.pick(["def { int w = 0; }\n", "class Z0; def : Z0;\n", "multiclass M0 { def W; } defm : M0;\n"])
        c = self.pick(CLASSES)
        f, g = self.r.sample(FIELDS, 2)
        pats = [
            "def %s { int %s = 1; }\ndef { int %s = 2; }\ndef d { int z = %s.%s; }" % (nm, f, g, nm, f),
            "class %s { int %s = 0; }\ndef %s : %s;\ndef : %s;\ndef e { %s q = %s; int r = %s.%s; }" % (c, f, nm, c, c, c, nm, nm, f),
            "class %s;\ndefset list<%s> s = { def %s : %s; def : %s; }\ndef e { %s q = %s; }" % (c, c, nm, c, c, c, nm),
            "class %s;\ndef %s : %s;\ndefset list<%s> s = { def : %s; def : %s; }\ndef e { %s q = %s; list<%s> l = s; }" % (c, nm, c, c, c, c, c, nm, c),
            "multiclass M { def X; }\ndefm %s : M;\ndefm : M;\ndef %s { int %s = 1; }\ndef { int %s = 2; }\ndef d { int z = %s.%s; }" % (nm, "anonymous_%d" % (k + 1), f, g, "anonymous_%d" % (k + 1), f),
            "class %s;\ndefset list<%s> s = { defm %s : M; def %s : %s; }\nmulticlass M { def X : %s; }\ndef : %s;\ndef e { %s q = %s; }" % (c, c, nm, nm, c, c, c, c, nm),
        ]
        n1, n2 = "anonymous_%d" % (k + 1), "anonymous_%d" % (k + 2)
        # CONSECUTIVE generated names taken by named defs before an anonymous def / defm (the retry of next_anonymous_def_name)
        pats += [
            "class %s;\ndef %s : %s;\ndef %s : %s;\ndef : %s;\ndef e { %s q = %s; }" % (c, nm, c, n1, c, c, c, n1),
            "def %s { int %s = 1; }\ndef %s { int %s = 2; }\ndef %s { int %s = 3; }\ndef { int w = 4; }\ndef d { int z = %s.%s; }" % (nm, f, n1, g, n2, f, n1, g),
            "multiclass M { def X; }\ndef %s;\ndef %s;\ndefm : M;\ndef { int %s = 1; }" % (nm, n1, f),
            "class %s;\ndefset list<%s> s = { def %s : %s; def %s : %s; def : %s; }" % (c, c, nm, c, n1, c, c),
        ]
        if self.chance(0.5):
            pats = pats[-4:]
        return pre + self.pick(pats) + "\n" + self.program(self.r.randrange(0, 3))

    # ----------------------------------------------------------------- workspaces
    def workspace(self):
        """multi-file workspace: returns (files, root).  Shapes: single, chain, star, diamond (with redefinition
        of a class between the two visits of the shared file), missing include, include inside a block."""
        shape = self.r.randrange(16)
        d = "/w/"
        if shape == 14:
            return [[d + "main.td", self.collision_program()]], d + "main.td"
        if shape == 15:
            # the colliding names across an include: the user def in the included file, the anonymous one in the root (and vice versa)
            if self.chance(0.5):
                return [[d + "main.td", 'include "a.td"\ndef { int y = 2; }\ndef d { int z = anonymous_0.x; }\n' + self.program(1)],
                        [d + "a.td", "def anonymous_0 { int x = 1; }\n" + self.program(1)]], d + "main.td"
            return [[d + "main.td", 'def anonymous_0 { int x = 1; }\ninclude "a.td"\ndef d { int z = anonymous_0.x; }\n' + self.program(1)],
                    [d + "a.td", "def { int y = 2; }\n"]], d + "main.td"
        if shape == 13:
            # an include inside a block of a multiclass body; the included (longer) file declares a multiclass with template arguments
            pad = "// " + "padding " * self.r.randrange(3, 12) + "\n"
            blk = self.pick(["foreach i = [1] in { include \"a.td\" }", "let x = 1 in { include \"a.td\" }", "if 1 then { include \"a.td\" }"])
            return [[d + "main.td", "multiclass %s<int %s> { %s def X; }\n" % (self.pick(MCS), self.pick(ARGS), blk) + self.program(1)],
                    [d + "a.td", pad + "multiclass %s<int %s, string %s = \"s\"> { def Y; }\n" % (self.pick(MCS), self.pick(ARGS), self.pick(FIELDS))
                     + self.program(2) + "\nclass %s<int %s>;\n" % (self.pick(CLASSES), self.pick(ARGS))]], d + "main.td"
        if shape == 8:
            # a defset whose body includes another (longer) file: the included defs are members of the defset
            c = self.pick(CLASSES)
            pad = "// " + "padding " * self.r.randrange(4, 14) + "\n"
            return [[d + "main.td", "class %s;\ndefset list<%s> %s = { include \"a.td\" }\n" % (c, c, self.pick(DEFS + VARS)) + self.program(1)],
                    [d + "a.td", pad + "def %s : %s;\n" % (self.pick(DEFS), c) + self.program(2) + "\ndef %s : %s { int %s = 1; }\n" % (self.pick(DEFS), c, self.pick(FIELDS))]], d + "main.td"
        if shape == 9:
            # twin includes: the same text twice, so the same symbol is referenced at identical byte ranges in two files
            c = self.pick(CLASSES)
            f = self.pick(FIELDS)
            twin = self.pick(["def %s : %s;\n" % (self.pick(DEFS), c), "class %s : %s { let %s = 1; }\n" % (self.pick(CLASSES), c, f),
                              "def : %s { int %s = %s; }\n" % (c, self.pick(FIELDS), f)]) + self.program(2)
            return [[d + "main.td", "class %s { int %s; }\ninclude \"a.td\"\ninclude \"b.td\"\n" % (c, f) + self.program(2)],
                    [d + "a.td", twin], [d + "b.td", twin]], d + "main.td"
        if shape == 10:
            # the same file included twice (in a row / around declarations / from an included file), declarations afterwards
            inc = 'include "a.td"\n'
            mid = self.pick(["", self.program(1) + "\n"])
            return [[d + "main.td", self.program(1) + "\n" + inc + mid + inc + self.program(3)],
                    [d + "a.td", self.program(3) + "\n" + self.stress()]], d + "main.td"
        if shape == 11:
            # short root, long include: ranges of the include do not fit into the root
            c = self.pick(CLASSES)
            f = self.pick(FIELDS)
            return [[d + "main.td", 'include "a.td"\ndef %s : %s;' % (self.pick(DEFS), c)],
                    [d + "a.td", self.program(4) + "\nclass %s { int %s = %s; }\n" % (c, f, self.ident()) + self.program(3)
                     + "\ndef %s : %s { let %s = %s; int q = undefined_name; }\n" % (self.pick(DEFS), c, f, self.ident())]], d + "main.td"
        if shape == 12:
            # grandchild included from two places at different depths, with declarations after each include
            return [[d + "main.td", 'include "a.td"\n' + self.program(1) + '\ninclude "c.td"\n' + self.program(2)],
                    [d + "a.td", self.program(1) + '\ninclude "c.td"\n' + self.program(2)],
                    [d + "c.td", self.program(2)]], d + "main.td"
        if shape < 2:
            return [[d + "main.td", self.program()]], d + "main.td"
        if shape == 2:
            return [[d + "main.td", 'include "a.td"\n' + self.program()],
                    [d + "a.td", 'include "b.td"\n' + self.program(3)],
                    [d + "b.td", self.program(3)]], d + "main.td"
        if shape == 3:
            return [[d + "main.td", self.program(2) + '\ninclude "a.td"\n' + self.program(2) + '\ninclude "b.td"\n' + self.program(2)],
                    [d + "a.td", self.program(3)], [d + "b.td", self.program(3)]], d + "main.td"
        if shape in (4, 5):
            c, e = self.r.sample(CLASSES, 2)
            f = self.pick(FIELDS)
            shared = self.pick([
                "class %s : %s;\n" % (e, c),
                "def %s : %s { let %s = 1; }\n" % (self.pick(DEFS), c, f),
                "class %s { %s %s; int %s = %s; }\n" % (e, c, f, self.pick(FIELDS), self.pick(VARS)),
                self.program(3)])
            return [[d + "main.td", "class %s { int %s; }\n" % (c, f) + self.pick(["defvar %s = 1;\n" % self.pick(VARS), ""])
                     + 'include "a.td"\ninclude "b.td"\n' + self.program(2)],
                    [d + "a.td", 'include "s.td"\nclass %s { int %s; }\n' % (c, f) + self.pick(["defvar %s = 2;\n" % self.pick(VARS), ""]) + self.program(2)],
                    [d + "b.td", 'include "s.td"\n' + self.program(2)],
                    [d + "s.td", shared]], d + "main.td"
        if shape == 6:
            return [[d + "main.td", self.program(2) + '\ninclude "missing.td"\ninclude "a.td"\n' + self.program(2)],
                    [d + "a.td", self.program(2)]], d + "main.td"
        return [[d + "main.td", self.program(1) + '\nforeach i = [1] in { include "a.td" }\nlet x = 1 in { include "sub/b.td" }\n' + self.program(2)],
                [d + "a.td", self.program(2)], [d + "sub/b.td", 'include "c.td"\n' + self.program(2)],
                [d + "sub/c.td", self.program(2)]], d + "main.td"


# --------------------------------------------------------------------- token-level derivations
TOKEN_RE = re.compile(r'\s+|//[^\n]*|/\*.*?\*/|"(?:\\.|[^"\\\n])*"?|\[\{.*?\}\]|![A-Za-z_0-9]*|\$?[A-Za-z_][A-Za-z_0-9]*|[0-9][A-Za-z0-9_]*|\.\.\.|.', re.S)


def tokens(text):
    return [m.group(0) for m in TOKEN_RE.finditer(text)]


def prefixes(text, rng, limit):
    """token prefixes of `text` (all of them when few, else a sample), longest first excluded (it is the program)"""
    toks = tokens(text)
    idx = [i for i in range(1, len(toks)) if not toks[i - 1].isspace()]
    if len(idx) > limit:
        idx = sorted(rng.sample(idx, limit))
    return ["".join(toks[:i]) for i in idx]


EDIT_POOL = ["A", "B", "x", "a", "class", "def", "let", "in", ":", ";", "{", "}", "<", ">", "=", ",", "(", ")", "[", "]", ".",
             "#", "1", '"s"', "!add", "!foreach", "include", "defm", "multiclass", "foreach", "if", "then", "else", "?", "$a", "..."]


def token_edits(text, rng, limit):
    """single-token edits: delete / duplicate / replace / insert / swap with neighbour"""
    toks = tokens(text)
    real = [i for i, t in enumerate(toks) if not t.isspace()]
    out = []
    if not real:
        return out
    for _ in range(limit):
        i = real[rng.randrange(len(real))]
        k = rng.randrange(5)
        t = list(toks)
        if k == 0:
            del t[i]
        elif k == 1:
            t.insert(i, toks[i] + " ")
        elif k == 2:
            t[i] = EDIT_POOL[rng.randrange(len(EDIT_POOL))]
        elif k == 3:
            t.insert(i, EDIT_POOL[rng.randrange(len(EDIT_POOL))] + " ")
        else:
            j = real[rng.randrange(len(real))]
            t[i], t[j] = t[j], t[i]
        out.append("".join(t))
    return out


def inject_nonascii(text, rng, n=4):
    """non-ASCII text in comments / strings / stray characters next to identifiers, and CRLF line ends"""
    toks = tokens(text)
    for _ in range(n):
        if not toks:
            break
        i = rng.randrange(len(toks) + 1)
        s = NONASCII[rng.randrange(len(NONASCII))]
        k = rng.randrange(6)
        if k == 5:
            # a doc comment (line comment directly above a declaration) whose first character after the slashes is multi-byte whitespace
            decl = [j for j, t in enumerate(toks) if t in ("class", "def", "defset", "multiclass", "defm", "int", "string", "bit")]
            if decl:
                i = decl[rng.randrange(len(decl))]
            ins = "//%s%s\n" % (rng.choice(DOC_SPACES), rng.choice(["doc", s, ""]))
        elif k == 0:
            ins = "/* %s */" % s
        elif k == 1:
            ins = "// %s\n" % s
        elif k == 2:
            ins = ' "%s" ' % s
        elif k == 3:
            ins = s
        else:
            ins = "\r\n"
        toks.insert(i, ins)
    out = "".join(toks)
    if rng.random() < 0.3:
        out = out.replace("\n", "\r\n")
    if rng.random() < 0.2:
        # byte order mark, directly followed (sometimes) by a comment with a multi-byte character
        out = "\ufeff" + (rng.choice(["/*é*/", "// 漢\n", "/*\U0001F600*/", ""]) ) + out
    return out


EOF_TAILS = [' "café', ' /* 漢字', ' [{ é', ' "\U0001F600', ' // é', ' "é\\', 'é', ' !é', ' $é',
             ' 0xé', ' "a ', ' " ', " 'é", ' "x\\é', ' /* a /* é */', ' #é', ' "s" # "é']


def eof_nonascii(text, rng):
    """the text cut at a random token boundary and ended inside a literal / comment / stray token whose last character is not ASCII"""
    toks = tokens(text)
    k = rng.randrange(len(toks) + 1) if toks else 0
    return "".join(toks[:k]) + EOF_TAILS[rng.randrange(len(EOF_TAILS))]


def char_prefixes(text, rng, limit):
    """prefixes cut at arbitrary character positions (inside strings, comments, numbers, identifiers)"""
    n = len(text)
    if n < 2:
        return []
    return [text[:rng.randrange(1, n)] for _ in range(limit)]


TRIVIA = [" ", "  ", "\n", "\t", " /* c */ ", " // c\n", "/**/", "\r\n"]


def inject_trivia(text, rng, n=6):
    """whitespace / comments inserted at random token boundaries (identifiers followed by trivia before `,` `>` `)` `;` ...)"""
    toks = tokens(text)
    for _ in range(n):
        if not toks:
            break
        i = rng.randrange(len(toks) + 1)
        toks.insert(i, TRIVIA[rng.randrange(len(TRIVIA))])
    return "".join(toks)


# ---- programs with a by-construction expectation: go-to-definition at the marked use must land on the marked declaration
def expect_cases(rng, n):
    """returns [(files, root, [[path, use_offset, [path, lo, hi]], ...])]: layered class hierarchies in which a shared ancestor
    is met a second time BEFORE the parent that declares the field (`continue`, not `break`, in Record::find_field_in), with
    a SUCCESSFUL lookup expected; @D@ marks the declaring identifier, @U@ the use"""
    out = []
    for _ in range(n):
        f, g = rng.sample(FIELDS, 2)
        base, mixin, left, right, dia = rng.sample(["Base", "Mixin", "Left", "Right", "Dia", "P", "Q", "R0", "S", "T0"], 5)
        hier = rng.choice([
            "class %s { int %s; }\nclass %s { int @D@%s = 7; }\nclass %s : %s;\nclass %s : %s, %s;\nclass %s : %s, %s" % (base, g, mixin, f, left, base, right, base, mixin, dia, left, right),
            "class %s { int %s; }\nclass %s : %s;\nclass %s { int @D@%s = 7; }\nclass %s : %s, %s, %s" % (base, g, left, base, right, f, dia, left, base, right),
            "class %s { int %s; }\nclass %s { int @D@%s = 7; }\nclass %s : %s;\nclass %s : %s;\nclass %s : %s, %s, %s" % (base, g, mixin, f, left, base, right, left, dia, left, right, mixin),
        ])
        use = rng.choice([
            " { int q = @U@%s; }\n" % f,
            ";\ndef d0 : %s { int q = @U@%s; }\n" % (dia, f),
            ";\ndef d0 : %s;\ndef e0 { int q = d0.@U@%s; }\n" % (dia, f),
            ";\nclass Heir : %s { int q = !add(@U@%s, 1); }\n" % (dia, f),
        ])
        text = hier + use
        dpos = text.index("@D@")
        text = text.replace("@D@", "", 1)
        upos = text.index("@U@")
        text = text.replace("@U@", "", 1)
        p = "/w/main.td"
        out.append(([[p, text]], p, [[p, upos, [p, dpos, dpos + len(f)]]]))
    return out


def doc_space_cases(rng, n):
    """doc comments whose first character after the slashes is multi-byte whitespace, above class / def / field / defset /
    template argument declarations that are also referenced (hover on any occurrence reads the doc comment)"""
    out = []
    for _ in range(n):
        sp = rng.choice(DOC_SPACES)
        c, d2 = rng.sample(CLASSES, 2)
        f = rng.choice(FIELDS)
        doc = lambda: "//%s%s\n" % (sp, rng.choice(["doc", "説明", "", "é x"]))
        out.append(rng.choice([
            "%sclass %s {\n  %sint %s = 1;\n}\n%sdef d : %s { let %s = 2; }\n" % (doc(), c, doc(), f, doc(), c, f),
            "class %s;\n%sdefset list<%s> s = {\n  %sdef e : %s;\n}\ndef r { list<%s> l = s; %s q = e; }\n" % (c, doc(), c, doc(), c, c, c),
            "%sclass %s<%sint a> { int %s = a; }\n%sclass %s : %s<1>;\n" % (doc(), c, doc(), f, doc(), d2, c),
            "// plain\n%s// second line\nmulticlass M { %sdef X; }\n%sdefm Z : M;\n%sdefvar v = 1;\ndef u { int q = v; }\n" % (doc(), doc(), doc(), doc()),
        ]))
    return out


def reedit_cases(g, rng, n):
    """(files, root, reedit): the same tokens with different trivia BEFORE the symbols (a leading comment deleted / shortened,
    blank lines, CRLF, re-indentation); the second text is set with set_file_content only"""
    out = []
    for _ in range(n):
        body = g.pick([g.program(g.r.randrange(2, 6)), g.stress(), g.collision_program()])
        tail = rng.choice(["", "\n// 漢字漢字漢字 tail\n", " /* \U0001F600\U0001F600 */\n", "\n"])
        lead0 = rng.choice(["// 漢字 a leading comment that will disappear, long enough to move everything\n",
                            "/* " + "padding " * rng.randrange(4, 14) + "*/\n", "\n\n\n\n        ", "// é\n// é\n// é\n"])
        lead1 = rng.choice(["", "// 漢\n", "\n", "/* é */ ", lead0 + "\n\n// another 漢字 line\n"])
        t0, t1 = lead0 + body + tail, lead1 + body + tail
        if rng.random() < 0.25:
            t1 = t1.replace("\n", "\r\n")
        if rng.random() < 0.3:
            # the edit is in an included file
            out.append(([["/w/main.td", 'include "a.td"\n' + g.program(1)], ["/w/a.td", t0]], "/w/main.td", [["/w/a.td", t1]]))
        else:
            out.append(([["/w/main.td", t0]], "/w/main.td", [["/w/main.td", t1]]))
    return out
