"""Shared helpers of the symbol-map group (C03, C06, C17): running `symdump` robustly (child process, bounded
stack, timeout; crashes and hangs are observations), replaying the real op log through the extracted model
(`symmap_run`), comparing both, and the implementation-side oracles of the three properties."""
import json
import os
import subprocess
import sys
import time

sys.path.insert(0, os.path.dirname(os.path.abspath(__file__)))
import vlib

SCRATCH = os.path.join(vlib.CACHE, "symmap")


# --------------------------------------------------------------------------- real code
def _run_symdump_once(exe, wss, timeout):
    """returns (results list or None, n_done, reason).  A batch is also given up when no workspace finishes within
    max(40, timeout/3) seconds (progress markers on stderr): a hanging workspace costs that much, not the whole timeout."""
    import threading
    p = subprocess.Popen([exe], stdin=subprocess.PIPE, stdout=subprocess.PIPE, stderr=subprocess.PIPE, text=True)
    st = {"done": 0, "last": time.time(), "err": [], "out": ""}

    def rd_err():
        for line in p.stderr:
            st["err"].append(line)
            if line.startswith("done "):
                st["done"] += 1
                st["last"] = time.time()

    def rd_out():
        st["out"] = p.stdout.read()

    def wr_in():
        try:
            p.stdin.write(json.dumps(wss))
            p.stdin.close()
        except (BrokenPipeError, OSError):
            pass
    ths = [threading.Thread(target=f, daemon=True) for f in (rd_err, rd_out, wr_in)]
    for t in ths:
        t.start()
    t0 = time.time()
    stall = max(40, timeout // 3)
    why = None
    while p.poll() is None:
        time.sleep(0.1)
        now = time.time()
        if now - t0 > timeout:
            why = "hang (no answer within %ss)" % timeout
        elif len(wss) > 1 and now - st["last"] > stall:
            why = "hang (no progress within %ss)" % stall
        if why:
            p.kill()
            break
    p.wait()
    for t in ths:
        t.join(5)
    err = "".join(st["err"])
    done = st["done"]
    if why:
        return None, done, why
    out = st["out"]
    if p.returncode != 0:
        sig = -p.returncode if p.returncode < 0 else p.returncode
        why = "process died (%s)" % ("signal %d" % sig if p.returncode < 0 else "exit %d" % sig)
        if "overflowed its stack" in err:
            why = "stack overflow"
        return None, done, why
    try:
        return json.loads(out), done, ""
    except ValueError:
        return None, done, "unparsable output"


def run_symdump(bindir, wss, timeout=120, per_ws_timeout=20):
    """Runs symdump on the workspaces.  A workspace that kills the process (stack overflow, abort) or hangs is
    reported as {"crash": reason}; the others are still evaluated."""
    exe = os.path.join(bindir, "symdump")
    res = []
    rest = list(wss)
    while rest:
        out, done, why = _run_symdump_once(exe, rest, timeout if len(rest) > 1 else per_ws_timeout)
        if out is not None:
            res += out
            break
        if len(rest) == 1:
            res.append({"crash": why})
            break
        # the first `done` workspaces were fine: re-run them (cheap), isolate the culprit, go on with the tail
        if done > 0:
            good, _, _ = _run_symdump_once(exe, rest[:done], timeout)
            if good is None:          # not reproducible as a prefix: fall back to one by one
                good = []
                for w in rest[:done]:
                    o, _, y = _run_symdump_once(exe, [w], per_ws_timeout)
                    good.append(o[0] if o else {"crash": y})
            res += good
        o, _, y = _run_symdump_once(exe, [rest[done]], per_ws_timeout)
        res.append(o[0] if o else {"crash": y})
        rest = rest[done + 1:]
    return res


def run_symdump_parallel(bindir, wss, shards=None, timeout=120):
    from concurrent.futures import ThreadPoolExecutor
    shards = shards or min(8, max(1, len(wss) // 8))
    chunks = [wss[i::shards] for i in range(shards)]
    with ThreadPoolExecutor(shards) as ex:
        outs = list(ex.map(lambda ch: run_symdump(bindir, ch, timeout), chunks))
    res = [None] * len(wss)
    for si, ch in enumerate(chunks):
        for j in range(len(ch)):
            res[si + j * shards] = outs[si][j]
    return res


def mk_ws(files, root, rng=None, hover=True, completion=True, hints="sample"):
    """a symdump request.  hints = "sample": the whole file, a few sub-ranges and a few empty ranges of each file"""
    w = {"files": files, "root": root, "hover": hover, "completion": completion}
    if hints == "sample":
        hr = []
        for p, t in files:
            n = len(t.encode("utf-8"))
            b = [i for i in _boundaries(t)]
            hr.append([p, 0, n])
            if rng is not None and b:
                for _ in range(3):
                    lo, hi = sorted((b[rng.randrange(len(b))], b[rng.randrange(len(b))]))
                    hr.append([p, lo, hi])
                e = b[rng.randrange(len(b))]
                hr.append([p, e, e])
            hr.append([p, 0, 0])
        w["hint_ranges"] = hr
    else:
        w["hint_ranges"] = hints
    return w


def _boundaries(t):
    out = [0]
    o = 0
    for ch in t:
        o += len(ch.encode("utf-8"))
        out.append(o)
    return out


# --------------------------------------------------------------------------- model
def model_block(ws, real, noguard=False, with_text=True):
    """the symmap_run input block for one workspace, built from the real run's observations:
    workspace files, their texts, the identifier tokens of the real parse, the real op log"""
    fids = real["fids"]
    texts = dict((p, t) for p, t in ws["files"])
    lines = ["W"]
    for p in sorted(fids, key=lambda p: fids[p]):
        lines.append("F %d %d" % (fids[p], real["len"][p]))
        if with_text:
            lines.append("X %d %s" % (fids[p], " ".join(str(ord(c)) for c in texts.get(p, ""))))
    toks = []
    for p, ts in real["idtoks"].items():
        for lo, hi, txt in ts:
            toks.append((fids[p], lo, hi, txt))
    toks.sort()
    for f, lo, hi, txt in toks:
        lines.append("T %d %d %d %s" % (f, lo, hi, txt))
    for l in real["oplog"] or []:
        lines.append("O\t" + l)
    if noguard:
        lines.append("Q noguard")
    lines.append("E")
    return "\n".join(lines) + "\n"


def run_model(exe, blocks, shards=None, timeout=600):
    """feeds the blocks to symmap_run (unlimited stack); returns one parsed JSON object (or {"model_crash":..}) per block"""
    shards = shards or min(8, max(1, len(blocks) // 8))
    chunks = [blocks[i::shards] for i in range(shards)]
    procs = []
    for ch in chunks:
        p = subprocess.Popen(["bash", "-c", "ulimit -s unlimited 2>/dev/null || ulimit -s 1000000; exec '%s'" % exe],
                             stdin=subprocess.PIPE, stdout=subprocess.PIPE, stderr=subprocess.PIPE, text=True)
        p._inp = "".join(ch)
        procs.append(p)
    outs = []
    for p in procs:
        try:
            o, e = p.communicate(p._inp, timeout=timeout)
        except subprocess.TimeoutExpired:
            p.kill()
            o, e = "", "timeout"
        lines = o.split("\n")[:-1] if o else []
        outs.append((lines, e))
    res = [None] * len(blocks)
    for si, ch in enumerate(chunks):
        lines, e = outs[si]
        for j in range(len(ch)):
            if j < len(lines):
                try:
                    res[si + j * shards] = json.loads(lines[j])
                except ValueError:
                    res[si + j * shards] = {"model_crash": "unparsable: " + lines[j][:200]}
            else:
                res[si + j * shards] = {"model_crash": (e or "no output")[-300:]}
    return res


# --------------------------------------------------------------------------- comparison (correspondence)
def expand_runs(runs, offsets):
    """run-length compressed per-offset entries -> dict offset -> entry (for the offsets probed)"""
    out = {}
    k = -1
    cur = None
    starts = [r["o"] for r in runs]
    for o in offsets:
        while k + 1 < len(runs) and starts[k + 1] <= o:
            k += 1
            cur = runs[k]
        out[o] = cur
    return out


def compare(ws, real, model):
    """model state / queries vs the real ones.  Returns a list of human-readable differences (empty = agree)."""
    diffs = []
    if "model_crash" in model:
        return ["model crashed: " + model["model_crash"]]
    fids = real["fids"]
    path_of = dict((v, k) for k, v in fids.items())

    def conv(r):    # model range [fid, lo, hi] -> [path, lo, hi]
        return [path_of.get(r[0], "#%d" % r[0]), r[1], r[2]]
    if model["run"] != "ok":
        diffs.append("model run of the real op log failed: %s" % json.dumps(model["run"]))
        return diffs
    texts = dict((p, t) for p, t in ws["files"])
    # interval maps (in iteration order)
    for p, fid in fids.items():
        mp = model["pos"].get(str(fid), [])
        rp = real["state"]["pos"].get(p, [])
        if mp != rp:
            diffs.append("interval map of %s differs: model %s real %s" % (p, json.dumps(mp)[:300], json.dumps(rp)[:300]))
    for f in model["pos"]:
        if int(f) not in path_of and model["pos"][f]:
            diffs.append("model has an interval map for file id %s outside the workspace" % f)
    # symbols the real interval maps mention
    for key, rs in real["state"]["syms"].items():
        ms = model["syms"].get(key)
        if ms is None:
            diffs.append("symbol %s missing in the model" % key)
            continue
        m2 = {"name": ms["name"], "def": conv(ms["def"]), "refs": [conv(r) for r in ms["refs"]]}
        if m2 != rs:
            diffs.append("symbol %s differs: model %s real %s" % (key, json.dumps(m2)[:300], json.dumps(rs)[:300]))
    # goto / references at every offset
    for p, fid in fids.items():
        t = texts.get(p, "")
        offs = _boundaries(t)
        ra = expand_runs(real["at"].get(p, []), offs)
        ma = expand_runs(model["at"].get(str(fid), []), list(range(real["len"][p] + 1)))
        for o in offs:
            r, m = ra.get(o), ma.get(o)
            if r is None or m is None:
                diffs.append("no answer recorded at %s@%d" % (p, o))
                break
            md = conv(m["def"]) if isinstance(m["def"], list) else m["def"]
            mr = [conv(x) for x in m["refs"]] if isinstance(m["refs"], list) else m["refs"]
            if md != r["def"] or mr != r["refs"]:
                diffs.append("goto/references at %s@%d differ: model def=%s refs=%s real def=%s refs=%s" % (
                    p, o, json.dumps(md), json.dumps(mr)[:200], json.dumps(r["def"]), json.dumps(r["refs"])[:200]))
                break
    # index diagnostics: ranges in order
    md = [conv(r) for r in model["diags"]]
    rd = [d[:3] for d in real["index_diags"]]
    if md != rd:
        diffs.append("index diagnostics ranges differ: model %s real %s" % (json.dumps(md)[:300], json.dumps(rd)[:300]))
    # document symbols: the outline computed from the model state (file_to_symbol_list, template args, fields, defset
    # members defined in the defset's own file -- fix 28899f7) against the real document_symbol trees
    for p, fid in fids.items():
        mo = model_outline(model, fid)
        rs = real["symbols"].get(p)
        if mo != rs:
            diffs.append("document_symbol of %s differs: model %s real %s" % (p, json.dumps(mo)[:300], json.dumps(rs)[:300]))
    return diffs


def model_outline(model, fid):
    """handlers/document_symbol.rs over the model state dump (names, kinds, ranges, children; no type strings)"""
    ms = model["file_syms"].get(str(fid))
    if ms is None:
        return None
    syms = model["syms"]

    def leaf(key, kind):
        s = syms[key]
        return {"name": s["name"], "kind": kind, "range": s["def"][1:], "children": []}

    def record(i):
        s = syms["record:%d" % i]
        r = model["records"][i]
        kids = []
        if r["kind"] == "Class":
            kids += [leaf("template_arg:%d" % t, "TemplateArgument") for _n, t in r["targs"]]
        kids += [leaf("record_field:%d" % f, "Field") for _n, f in r["fields"]]
        return {"name": s["name"], "kind": r["kind"], "range": s["def"][1:], "children": kids}
    out = []
    for k, i in ms:
        if k == "record":
            out.append(record(i))
        elif k == "defset":
            s = syms["defset:%d" % i]
            kids = [record(d) for d in model["defsets"][i] if syms["record:%d" % d]["def"][0] == s["def"][0]]
            out.append({"name": s["name"], "kind": "Defset", "range": s["def"][1:], "children": kids})
        elif k == "multiclass":
            s = syms["multiclass:%d" % i]
            out.append({"name": s["name"], "kind": "Multiclass", "range": s["def"][1:],
                        "children": [leaf("template_arg:%d" % t, "TemplateArgument") for _n, t in model["multiclasses"][i]]})
    return out


# --------------------------------------------------------------------------- oracles on the real observations
def c06_oracle(ws, real):
    """the four clauses of C06 on the real goto/references answers; returns list of (path, offset, what)"""
    bad = []
    texts = dict((p, t) for p, t in ws["files"])
    idt = {}
    for p, ts in real["idtoks"].items():
        idt[p] = dict(((lo, hi), txt) for lo, hi, txt in ts)
    expanded = {}

    def at(p, o):
        if p not in expanded:
            if p not in real["at"]:
                return None
            expanded[p] = expand_runs(real["at"][p], _boundaries(texts.get(p, "")))
        return expanded[p].get(o)
    for p in real["at"]:
        toks = sorted(idt.get(p, {}).items())
        prev = None
        for run in real["at"][p]:
            o = run["o"]
            if run["def"] is None:
                continue
            key = (json.dumps(run["def"]), json.dumps(run["refs"]))
            cur = [(lo, hi, txt) for (lo, hi), txt in toks if lo <= o < hi]
            if not cur:
                bad.append((p, o, "go-to-definition answers %s but no identifier token is under the cursor" % json.dumps(run["def"])))
                continue
            lo, hi, txt = cur[0]
            tf, tlo, thi = run["def"]
            ttxt = idt.get(tf, {}).get((tlo, thi))
            if ttxt is None:
                bad.append((p, o, "target %s is not an identifier token" % json.dumps(run["def"])))
            elif ttxt != txt:
                bad.append((p, o, "target %s has text %r but the identifier under the cursor is %r" % (json.dumps(run["def"]), ttxt, txt)))
            refs = run["refs"]
            if refs is None:
                bad.append((p, o, "go-to-definition answers but references does not"))
                continue
            for rf, rlo, rhi in refs:
                rtxt = idt.get(rf, {}).get((rlo, rhi))
                if rtxt is None:
                    bad.append((p, o, "reference %s is not an identifier token" % json.dumps([rf, rlo, rhi])))
                    continue
                if rtxt != txt:
                    bad.append((p, o, "reference %s has text %r, cursor identifier is %r" % (json.dumps([rf, rlo, rhi]), rtxt, txt)))
                for q in (rlo, rhi - 1):
                    a = at(rf, q)
                    if a is None:
                        # not a char boundary (cannot happen for identifier tokens) or file outside the workspace
                        if rf not in real["at"]:
                            bad.append((p, o, "reference %s is in a file outside the workspace" % json.dumps([rf, rlo, rhi])))
                        continue
                    if a["def"] != run["def"]:
                        bad.append((p, o, "go-to-definition from reference %s@%d gives %s, from the cursor %s" % (
                            json.dumps([rf, rlo, rhi]), q, json.dumps(a["def"]), json.dumps(run["def"]))))
                        break
            me = [p, lo, hi]
            if me != run["def"] and me not in refs:
                bad.append((p, o, "identifier under the cursor %s is neither the target %s nor one of the references" % (
                    json.dumps(me), json.dumps(run["def"]))))
    # by-construction expectations (symgen.expect_cases): go-to-definition at a marked use lands on the marked declaration
    for p, o, exp in ws.get("expect", []):
        a = at(p, o)
        got = a["def"] if a else None
        if got != exp:
            bad.append((p, o, "go-to-definition must answer %s (the declaration, by construction: field of a parent listed after a "
                               "revisited ancestor) but answers %s" % (json.dumps(exp), json.dumps(got))))
    return bad


def _range_problem(texts_b, wsfiles, f, lo, hi):
    if f not in wsfiles:
        return "file %s is not in the workspace" % f
    b = texts_b[f]
    if not (0 <= lo <= hi):
        return "start > end"
    if hi > len(b):
        return "end %d beyond the text length %d" % (hi, len(b))
    for x in (lo, hi):
        if x < len(b) and (b[x] & 0xC0) == 0x80:
            return "offset %d is inside a UTF-8 sequence" % x
    return None


def c17_oracle(ws, real):
    """every range of every result: file in the workspace, lo <= hi <= len, char boundaries.
    returns (problems, number of ranges checked)"""
    wsfiles = set(real["workspace"])
    texts_b = dict((p, t.encode("utf-8")) for p, t in ws["files"])
    bad = []
    n = 0

    def chk(kind, f, lo, hi):
        nonlocal n
        n += 1
        pr = _range_problem(texts_b, wsfiles, f, lo, hi)
        if pr:
            bad.append((kind, [f, lo, hi], pr))
    for f, ds in real["diagnostics"].items():
        for lo, hi, _m in ds:
            chk("diagnostic", f, lo, hi)
    for f, lo, hi, _m in real["index_diags"]:
        chk("index diagnostic", f, lo, hi)

    def walk(f, s):
        chk("document symbol", f, s["range"][0], s["range"][1])
        for c in s["children"]:
            walk(f, c)
    for f, ss in real["symbols"].items():
        for s in ss or []:
            walk(f, s)
    for f, rs in real["folding"].items():
        for lo, hi in rs or []:
            chk("folding range", f, lo, hi)
    for f, ls in real["links"].items():
        for lo, hi, target in ls or []:
            chk("document link", f, lo, hi)
            n += 1
            if target not in wsfiles:
                bad.append(("document link target", [target], "file is not in the workspace"))
    for f, h in real["hints"].items():
        for lo, hi, hs in h["distinct"]:
            for pos, _label, _kind in hs or []:
                chk("inlay hint position", f, pos, pos)
    for f, runs in real["at"].items():
        for run in runs:
            if run["def"] is not None:
                chk("definition", *run["def"])
            for r in run["refs"] or []:
                chk("reference", *r)
    for f, ps in real["state"]["pos"].items():
        for lo, hi, _k, _i in ps:
            chk("symbol range", f, lo, hi)
    for key, s in real["state"]["syms"].items():
        chk("define_loc", *s["def"])
        for r in s["refs"]:
            chk("reference_loc", *r)
    # after a trivia-only re-edit through set_file_content alone (symdump "reedit"): every range valid in the CURRENT text
    re_ = real.get("re")
    if re_:
        for p, t in ws.get("reedit", []):
            texts_b[p] = t.encode("utf-8")
        pre = "after set_file_content (no set_root_file): "
        for f, ds in re_["diagnostics"].items():
            for lo, hi, _m in ds:
                chk(pre + "diagnostic", f, lo, hi)

        def walk2(f, s):
            chk(pre + "document symbol", f, s["range"][0], s["range"][1])
            for c in s["children"]:
                walk2(f, c)
        for f, ss in re_["symbols"].items():
            for s in ss or []:
                walk2(f, s)
        for f, h in re_["hints"].items():
            for lo, hi, hs in h["distinct"]:
                for pos, _label, _kind in hs or []:
                    chk(pre + "inlay hint position", f, pos, pos)
        for f, runs in re_["at"].items():
            for run in runs:
                if run["def"] is not None:
                    chk(pre + "definition", *run["def"])
                for r in run["refs"] or []:
                    chk(pre + "reference", *r)
    return bad, n


def c03_problem(real):
    """None, or what went wrong (panic / crash / hang) while answering the queries"""
    if "crash" in real:
        return real["crash"]
    if "panic" in real:
        return "panic in %s: %s" % (real.get("query"), real["panic"])
    return None


def shrink_files(files, root, pred, budget_s=30):
    """delta-debug the root text (then the others) by removing lines / statements while pred(files) stays true"""
    t0 = time.time()
    files = [list(f) for f in files]
    for fi in range(len(files)):
        sep = "\n" if files[fi][1].count("\n") >= 2 else " "
        parts = files[fi][1].split(sep)
        n = 2
        while len(parts) >= 2 and time.time() - t0 < budget_s:
            chunk = max(1, len(parts) // n)
            reduced = False
            for i in range(0, len(parts), chunk):
                cand = parts[:i] + parts[i + chunk:]
                trial = [list(f) for f in files]
                trial[fi][1] = sep.join(cand)
                if pred(trial):
                    parts = cand
                    files = trial
                    n = max(n - 1, 2)
                    reduced = True
                    break
            if not reduced:
                if chunk == 1:
                    break
                n = min(len(parts), n * 2)
    return files


# --------------------------------------------------------------------------- batch evaluation shared by C03 / C06 / C17
def evaluate(bindir, exe, wss, noguard=False, model=True, timeout=180, with_text=True):
    """real run + model replay + comparison + the three oracles, per workspace"""
    reals = run_symdump_parallel(bindir, wss, timeout=timeout)
    res = []
    idx = []
    for i, (w, r) in enumerate(zip(wss, reals)):
        pr = c03_problem(r)
        e = {"ws": w, "real": r, "c03": pr, "model": None, "diffs": [], "c06": [], "c17": [], "nranges": 0}
        res.append(e)
        if pr is None:
            idx.append(i)
            e["c06"] = c06_oracle(w, r)
            e["c17"], e["nranges"] = c17_oracle(w, r)
    if model and idx:
        blocks = [model_block(wss[i], reals[i], noguard=noguard, with_text=with_text) for i in idx]
        models = run_model(exe, blocks)
        for i, m in zip(idx, models):
            res[i]["model"] = m
            res[i]["diffs"] = compare(wss[i], reals[i], m)
    return res


def derived_workspaces(g, rng, n_base, n_prefix, n_edit, n_nonascii, multi=True):
    """base workspaces from the generator plus the typing states derived from their root text"""
    out = []
    import symgen
    for _ in range(n_base):
        files, root = g.workspace() if multi else ([["/w/main.td", g.program()]], "/w/main.td")
        out.append(("generated", files, root))
        rt = [t for p, t in files if p == root][0]
        others = [f for f in files if f[0] != root]
        for t in symgen.prefixes(rt, rng, n_prefix):
            out.append(("prefix", others + [[root, t]], root))
        for t in symgen.token_edits(rt, rng, n_edit):
            out.append(("token-edit", others + [[root, t]], root))
        out.append(("trivia", others + [[root, symgen.inject_trivia(rt, rng, 8)]], root))
        for _ in range(n_nonascii):
            fs = [[p, symgen.inject_nonascii(t, rng)] if (p == root or rng.random() < 0.5) else [p, t] for p, t in files]
            out.append(("non-ascii", fs, root))
    return out


def corpus_workspaces(rng, n, max_bytes=60000):
    """workspaces rooted at LLVM-14 .td files whose include closure (resolved like the server does, next to the
    includer or through INCLUDE_DIR=/c) is at most max_bytes; only the closure's files are put into the workspace"""
    import re
    root = "/usr/include/llvm-14"
    files = {}
    for d, _, fs in os.walk(root):
        for f in sorted(fs):
            if f.endswith(".td"):
                p = os.path.join(d, f)
                files[os.path.relpath(p, root)] = open(p, encoding="utf-8", errors="replace").read()

    def closure(r):
        seen, st = set(), [r]
        while st:
            x = st.pop()
            if x in seen or x not in files:
                continue
            seen.add(x)
            for m in re.finditer(r'include\s+"([^"]+)"', files[x]):
                for c in (os.path.normpath(os.path.join(os.path.dirname(x), m.group(1))), m.group(1)):
                    if c in files:
                        st.append(c)
                        break
        return seen
    cands = []
    for r in sorted(files):
        c = closure(r)
        if sum(len(files[x]) for x in c) <= max_bytes:
            cands.append((r, sorted(c)))
    rng.shuffle(cands)
    return [([["/c/" + x, files[x]] for x in c], "/c/" + r) for r, c in cands[:n]]


def replay_obj(prop, e, what, extra=None):
    o = {"property": prop, "what": what, "files": e["ws"]["files"], "root": e["ws"]["root"]}
    if extra:
        o.update(extra)
    return o


# --------------------------------------------------------------------------- extraction cross-check inside Coq
def _coq_name(s):
    return "[" + "; ".join(str(ord(c)) for c in s) + "]"


def _coq_fr(f, lo, hi):
    return "(mkFR %s %s %s)" % (f, lo, hi)


_KIND = {"record": "KRecord", "template_arg": "KTemplateArg", "record_field": "KRecordField", "variable": "KVariable",
         "defset": "KDefset", "multiclass": "KMulticlass", "defm": "KDefm"}


def coq_op(line):
    """one H3 log line as a Gallina term of type SymbolMap.op (independent of symmap_driver.ml's parser)"""
    x = line.split("\t")
    k = x[0]
    if k == "add_record":
        return "OpAddRecord %s %s %s %s %s" % (_coq_name(x[1]), "RKClass" if x[2] == "Class" else "RKDef", _coq_fr(*x[3:6]),
                                              "true" if x[6] == "1" else "false", x[7])
    if k in ("add_anonymous_def", "add_anonymous_defm", "add_multiclass"):
        c = {"add_anonymous_def": "OpAddAnonymousDef", "add_anonymous_defm": "OpAddAnonymousDefm", "add_multiclass": "OpAddMulticlass"}[k]
        return "%s %s %s %s" % (c, _coq_name(x[1]), _coq_fr(*x[2:5]), x[5])
    if k in ("add_template_argument", "add_variable", "add_defset"):
        c = {"add_template_argument": "OpAddTemplateArg", "add_variable": "OpAddVariable", "add_defset": "OpAddDefset"}[k]
        return "%s %s %s %s %s" % (c, _coq_name(x[1]), _coq_name(x[6]) if len(x) > 6 else "[]", _coq_fr(*x[2:5]), x[5])
    if k == "add_record_field":
        return "OpAddRecordField %s %s %s %s %s" % (_coq_name(x[1]), _coq_name(x[7]) if len(x) > 7 else "[]", _coq_fr(*x[2:5]), x[5], x[6])
    if k == "add_defm":
        return "OpAddDefm %s %s %s %s" % (_coq_name(x[1]), _coq_fr(*x[2:5]), "true" if x[5] == "1" else "false", x[6])
    if k == "add_reference":
        return "OpAddReference (%s, %s) %s" % (_KIND[x[1]], x[2], _coq_fr(*x[3:6]))
    simple = {"record_mut": "OpRecordMut", "defset_mut": "OpDefsetMut", "multiclass_mut": "OpMulticlassMut", "defm_mut": "OpDefmMut",
              "record.add_parent": "OpRecAddParent", "defset.add_def": "OpDefsetAddDef", "multiclass.add_parent": "OpMcAddParent",
              "defm.add_parent": "OpDefmAddParent"}
    if k in simple:
        return "%s %s" % (simple[k], x[1])
    named = {"record.add_template_arg": "OpRecAddTemplateArg", "record.add_record_field": "OpRecAddField",
             "multiclass.add_template_arg": "OpMcAddTemplateArg"}
    if k in named:
        return "%s %s %s" % (named[k], _coq_name(x[1]), x[2])
    if k == "error":
        return "OpError %s" % _coq_fr(*x[1:4])
    raise ValueError("unknown op line " + line)


def coq_crosscheck(cases, tag):
    """cases: list of (ws, real, model) with model run ok.  Evaluates, INSIDE Coq by vm_compute, the side conditions and
    go-to-definition at a few positions of each case and demands the values the extracted OCaml model printed.
    Returns (ok, message)."""
    if not cases:
        return True, "no case"
    body = ["From Coq Require Import List NArith.", "From TG.Model Require Import Chars SymbolMap SymbolWf.",
            "Import ListNotations.", "Open Scope N_scope.", ""]
    for ci, (ws, real, model) in enumerate(cases):
        fids = real["fids"]
        toks = sorted((fids[p], lo, hi, txt) for p, ts in real["idtoks"].items() for lo, hi, txt in ts)
        body.append("Definition toks%d : list tok := [%s]." % (ci, "; ".join("(%s, %s)" % (_coq_fr(f, lo, hi), _coq_name(t)) for f, lo, hi, t in toks)))
        body.append("Definition ops%d : list op := [%s]." % (ci, ";\n  ".join(coq_op(l) for l in real["oplog"])))
        body.append("Goal ops_wf toks%d ops%d = %s. Proof. vm_compute. reflexivity. Qed." % (ci, ci, "true" if model["ops_wf"] else "false"))
        body.append("Goal ops_ids_wf ops%d = %s. Proof. vm_compute. reflexivity. Qed." % (ci, "true" if model["ops_ids_wf"] else "false"))
        probes, expect = [], []
        for f, runs in model["at"].items():
            for run in runs[:12]:
                probes.append("(%s, %s)" % (f, run["o"]))
                d = run["def"]
                expect.append("SOk None" if d is None else "SOk (Some %s)" % _coq_fr(*d))
        body.append("Goal match run_ops ops%d with SOk st => map (fun fp => goto_definition st (fst fp) (snd fp)) [%s] | SErr _ => [] end = [%s]."
                    % (ci, "; ".join(probes), "; ".join(expect)))
        body.append("Proof. vm_compute. reflexivity. Qed.")
        body.append("")
    d = os.path.join(vlib.CACHE, "symmap")
    os.makedirs(d, exist_ok=True)
    name = "Cases_%s_%s" % (tag, vlib.sha("\n".join(body))[:10])
    path = os.path.join(d, name + ".v")
    open(path, "w").write("\n".join(body) + "\n")
    rc, out = vlib.sh(["coqc", "-noglob", "-Q", "gen", "TG.Gen", "-Q", "model", "TG.Model", path], cwd=vlib.COQ, timeout=300)
    for ext in (".v", ".vo", ".vok", ".vos", ".glob"):
        try:
            os.remove(os.path.join(d, name + ext))
        except OSError:
            pass
        try:
            os.remove(os.path.join(d, "." + name + ".aux"))
        except OSError:
            pass
    return rc == 0, out[-800:]


# --------------------------------------------------------------------------- bridge to the indexer model of group scope
KIND_CODES = ["record", "template_arg", "record_field", "variable", "defset", "multiclass", "defm"]


def bridge_states(bindir, ix_exe, wss):
    """runs harness `coreast` (real parse trees -> typed Core AST) and the extracted bridge unit (indexer MODEL of group
    scope followed by IndexerOps.abs) on the workspaces; returns per workspace None (not in the Core fragment / panic)
    or the abstraction's state dump with file numbers replaced by paths"""
    inp = json.dumps([{"files": w["files"], "root": w["root"]} for w in wss])
    p = subprocess.run([os.path.join(bindir, "coreast")], input=inp, capture_output=True, text=True, timeout=600)
    if p.returncode != 0:
        raise RuntimeError("coreast failed: " + p.stderr[-500:])
    cores = json.loads(p.stdout)
    lines, idx = [], []
    for k, (c, w) in enumerate(zip(cores, wss)):
        if c.get("panic") or c.get("ast") is None:
            continue
        texts = dict((pp, t) for pp, t in w["files"])
        lens = [len(texts.get(pp, "").encode("utf-8")) for pp in c["files"]]
        lines.append("%s ; ; %s" % (" ".join(map(str, lens)), c["ast"]))
        idx.append(k)
    out = [None] * len(wss)
    if not lines:
        return out
    q = subprocess.run(["bash", "-c", "ulimit -s unlimited 2>/dev/null || ulimit -s 1000000; exec '%s'" % ix_exe],
                       input="\n".join(lines) + "\n", capture_output=True, text=True, timeout=900)
    res = q.stdout.split("\n")
    for k, line in zip(idx, res):
        try:
            o = json.loads(line)
        except ValueError:
            o = {"error": "unparsable: " + line[:200]}
        o["files"] = cores[k]["files"]
        out[k] = o
    return out


def bridge_compare(real, model, br):
    """the symbol-map state the indexer MODEL stands for (br) against the symbol-map model state obtained by replaying
    the REAL op log (model); names of anonymous defs/defms, is_global, defset members, defm parents, field parents and
    the name maps are not represented in the indexer model and not compared"""
    if br is None:
        return None
    if br.get("error"):
        return ["bridge driver error: " + br["error"]]
    if br["bad"]:
        return ["indexer model ran out of fuel or hit a modelled panic"]
    if "model_crash" in model or model.get("run") != "ok":
        return None
    diffs = []
    bfiles = br["files"]
    fids = real["fids"]
    path_of = dict((v, k) for k, v in fids.items())

    def bfr(r):
        return [bfiles[r[0]] if r[0] < len(bfiles) else "#%d" % r[0], r[1], r[2]]

    def mfr(r):
        return [path_of.get(r[0], "#%d" % r[0]), r[1], r[2]]
    # arenas
    for code, kname in enumerate(KIND_CODES):
        barena = br["arenas"][str(code)]
        marena = []
        i = 0
        while "%s:%d" % (kname, i) in model["syms"]:
            marena.append(model["syms"]["%s:%d" % (kname, i)])
            i += 1
        if len(barena) != len(marena):
            diffs.append("%s arena: indexer model has %d entries, replay of the real log %d" % (kname, len(barena), len(marena)))
            continue
        for i, (be, me) in enumerate(zip(barena, marena)):
            anon = be["name"] == "" and me["name"].startswith("anonymous_")
            if (not anon and be["name"] != me["name"]) or bfr(be["def"]) != mfr(me["def"]) or [bfr(r) for r in be["refs"]] != [mfr(r) for r in me["refs"]]:
                diffs.append("%s:%d differs: indexer model %s, real log %s" % (
                    kname, i, json.dumps([be["name"], bfr(be["def"]), [bfr(r) for r in be["refs"]]])[:200],
                    json.dumps([me["name"], mfr(me["def"]), [mfr(r) for r in me["refs"]]])[:200]))
                break
            if kname == "record":
                mr = model["records"][i]
                if [be["class"], be["targs"], be["fields"], be["parents"]] != [mr["kind"] == "Class", mr["targs"], mr["fields"], mr["parents"]]:
                    diffs.append("record:%d structure differs: indexer model %s, real log %s" % (
                        i, json.dumps([be["class"], be["targs"], be["fields"], be["parents"]])[:200], json.dumps(mr)[:200]))
                    break
            if kname == "multiclass" and be["targs"] != model["multiclasses"][i]:
                diffs.append("multiclass:%d template arguments differ" % i)
                break
    # interval maps
    bpos = dict((bfiles[int(f)], [[lo, hi, KIND_CODES[c], i] for lo, hi, c, i in m]) for f, m in br["pos"].items())
    mpos = dict((path_of.get(int(f), "#" + f), m) for f, m in model["pos"].items())
    for pth in set(bpos) | set(mpos):
        if bpos.get(pth, []) != mpos.get(pth, []):
            diffs.append("interval map of %s differs: indexer model %s, real log %s" % (
                pth, json.dumps(bpos.get(pth))[:200], json.dumps(mpos.get(pth))[:200]))
    # name maps of absN (insertion order = HashMap model order) and the class specification read off the AST
    if "name_to_class" in br:
        for key in ("name_to_class", "name_to_def"):
            if br[key] != model.get(key):
                diffs.append("%s differs: indexer model %s, real log %s" % (key, json.dumps(br[key])[:200], json.dumps(model.get(key))[:200]))
        last = {}
        for n, k in reversed(br["declared_classes"]):
            last[n] = k
        offered = dict((n, len(model["records"][i]["targs"])) for n, i in (model.get("name_to_class") or []))
        if last != offered:
            diffs.append("declared classes (ClassVisit spec on the AST) %s differ from the classes registered by the real log %s" % (
                json.dumps(sorted(last.items()))[:200], json.dumps(sorted(offered.items()))[:200]))
    if [bfr(d) for d in br["diags"]] != [mfr(d) for d in model["diags"]]:
        diffs.append("index diagnostics differ: indexer model %s, real log %s" % (
            json.dumps([bfr(d) for d in br["diags"]])[:200], json.dumps([mfr(d) for d in model["diags"]])[:200]))
    return diffs


# ---- the hand model SymbolMap.v is the translated source (tie of group "lines") ----------------------------------
SOURCE_TRANSLATOR = "t_symbolmap"
SOURCE_THEOREMS = ["SymbolMap_model_is_source", "SymbolMap_model_is_source_nonvacuous"]
SOURCE_TRUSTED = ("the hand model coq/model/SymbolMap.v is tied to crates/ide/src/symbol_map.rs + symbol_map/*.rs twice: by translation + proof "
                  "(t_symbolmap -> coq/gen/GenSymbolMap.v, proofs/GenSymbolMapEq.v, props/SymbolMapSource.v SymbolMap_model_is_source: every "
                  "mutator = apply_op of its op, every reader = the model's reader; design/notes-translator-symbolmap.md; trusted there: the "
                  "translator t_symbolmap and the contracts model/SymbolMapSrc.v of iset / id_arena / HashMap) and by replaying the real op log")


def extra_props(ctx, fails, module, theorems, target, trusted):
    """a further props module whose theorems are obligations of the check (translators of its cone must be among the
    translators of the check's proof_step, which runs before this)"""
    r = vlib.prove(module, theorems, [target])
    fails += r["failures"]
    short = module.split(".")[-1]
    ctx.cov["obligations"] = ctx.cov.get("obligations", 0) + r["obligations"]
    ctx.cov["discharged"] = ctx.cov.get("discharged", 0) + r["discharged"]
    ctx.cov["theorems"] = list(ctx.cov.get("theorems", [])) + [short + "." + t for t in theorems]
    apt = dict(ctx.cov.get("axioms_per_theorem", {}))
    apt.update({short + "." + k: v for k, v in r["assumptions"].items()})
    ctx.cov["axioms_per_theorem"] = apt
    ctx.cov["trusted_base"] = list(ctx.cov.get("trusted_base", [])) + [trusted]
    ctx.cov["coq_wall_s"] = round(ctx.cov.get("coq_wall_s", 0) + r["wall_s"], 2)
    return r


def source_tie(ctx, fails):
    """obligation shared by C03 / C06 / C17: SymbolMap_model_is_source for the CURRENT source text"""
    return extra_props(ctx, fails, "TG.Props.SymbolMapSource", SOURCE_THEOREMS, "props/SymbolMapSource.vo", SOURCE_TRUSTED)


# ---- the complete analysis in Coq (builder bridge, props/PipelineAll.v): all nine queries from the texts ----------
PIPELINEALL_THEOREMS = ["PipelineAll_conservative", "PipelineAll_fields", "analyze_all_total",
                        "PipelineAll_handlers_total_if_closed", "analyze_all_ranges_valid", "PipelineAll_nonvacuous"]
PIPELINEALL_TRANSLATORS = ["t_tokens", "t_lextables", "t_unicode", "t_grammar", "t_grammarcert", "t_foldkinds", "t_ast", "t_completion"]
PIPELINEALL_TRUSTED = ("props/PipelineAll.v (builder bridge; coq/model/PipelineAll.v: the COMPLETE analysis, all nine queries computed from the texts): "
                       "PipelineAll_conservative (every position-reading query on its joined state = the same query on abs (index_ws w), so the "
                       "Core theorems of this property transfer to the answers of the complete model), analyze_all_total, "
                       "analyze_all_ranges_valid, PipelineAll_handlers_total_if_closed; its tie to the Rust handlers is builder bridge's checked "
                       "comparison with idedump (design/notes-bridge.md)")


def pipeline_all(ctx, fails):
    return extra_props(ctx, fails, "TG.Props.PipelineAll", PIPELINEALL_THEOREMS, "props/PipelineAll.vo", PIPELINEALL_TRUSTED)
