"""outgen (group outline, C18/C19): generator of TableGen workspaces whose outline, folding ranges, hover
signatures / doc comments, go-to-definition targets and inlay hints are KNOWN BY CONSTRUCTION.

The generator writes the program text piece by piece and records, while it writes,
  * `outline[file]`   expected document symbols (source order; defs of a defset as its children; template arguments
                      then fields declared/overridden in the body as children), ranges = byte ranges of the identifiers;
  * `folds[file]`     one (start, end) per class/def/defset/foreach/if/let/multiclass statement in source (pre)order:
                      start = first byte of the keyword, end = end of the statement's last non-trivia token;
  * `occ[file]`       identifier occurrences (lo, hi, symbol): hovering / go-to-definition anywhere in [lo, hi) must
                      describe `symbol` (signature, doc comment, declaration range);
  * `hints[file]`     inlay hints (position, label, kind) of the whole file, and `hint_owner` (the identifier range
                      of the class reference / field let that owns each hint).
All offsets are UTF-8 byte offsets.  Only the `Core` fragment of DESIGN Appendix D is generated, so that every
statement is visited by the indexer; optional parts are present or absent at random; trivia (spaces, newlines
LF/CRLF, block comments, non-ASCII text in comments and strings) is inserted between tokens.  Line comments are
only written where their meaning as documentation is unambiguous: directly above a declaration (doc gap), or followed
by a blank line (never documentation)."""

PRIMS = ["bit", "int", "string", "code", "dag"]
NONASCII = ["é", "ß", "€", "日本", "😀", "Ω"]


class Sym:
    """a declared symbol: kind in class/def/targ/field/defset/multiclass/defm/var"""
    def __init__(self, kind, name, file, lo, hi, sig, doc):
        self.kind, self.name, self.file, self.lo, self.hi, self.sig, self.doc = kind, name, file, lo, hi, sig, doc

    def key(self):
        return (self.file, self.lo, self.hi)


# probability that a parent list is built as a diamond (0: the default distribution; set by checks/C18.py for a separate
# batch drawn from its own random stream, so the default batch is unchanged)
DIAMOND_BIAS = 0.0


class ClassInfo:
    def __init__(self, name, sym):
        self.name, self.sym = name, sym
        self.params = []          # [(type, name, has_default, Sym)]
        self.fmap = {}            # field name -> (type, Sym)   own + overridden, latest
        self.parents = []         # [ClassInfo]

    def lookup_field(self, name):
        if name in self.fmap:
            return self.fmap[name]
        for p in self.parents:
            r = p.lookup_field(name)
            if r:
                return r
        return None

    def all_fields(self):
        out = {}
        for p in reversed(self.parents):
            out.update(p.all_fields())
        out.update(self.fmap)
        return out


class Gen:
    def __init__(self, rng, crlf=False, nonascii=True, size=6, omit_semi=True, fname="main.td"):
        self.rng = rng
        self.nlc = "\r\n" if crlf else "\n"
        self.nonascii = nonascii
        self.size = size
        self.omit_semi = omit_semi
        self.file = fname
        self.parts = []
        self.off = 0
        self.outline = []
        self.folds = []
        self.occ = []
        self.hints = []
        self.classes = {}        # visible classes (shared with includer)
        self.multiclasses = {}
        self.defs = {}
        self.counter = 0
        self.indent = 0
        self.anon = 0
        self.stop = False
        self.include_again = None         # name of an already included file to include a second time
        self.force_class = None
        self.extra = []                   # Gen objects of files included from inside a defset body
        self.allow_defset_include = False
        self.crlf = crlf
        self.last_nl = True       # nothing but indentation since the last newline
        self.features = set()

    # ------------------------------------------------------------ text
    def emit(self, s):
        lo = self.off
        self.parts.append(s)
        self.off += len(s.encode("utf-8"))
        if s:
            self.last_nl = s.endswith("\n")
        return lo, self.off

    def text(self):
        return "".join(self.parts)

    def fresh(self, prefix):
        """fresh identifier; the letter after the prefix is random so that declaration order and name order differ"""
        self.counter += 1
        return "%s%s%d" % (prefix, self.rng.choice("abcdefghijklmnopqrstuvwxyz"), self.counter)

    def word(self):
        r = self.rng
        w = r.choice(["alpha", "beta", "x", "the quick fox", "TODO", "a*b", "100%"])
        if self.nonascii and r.random() < 0.35:
            w += " " + r.choice(NONASCII)
        return w

    def newline(self):
        self.emit(self.nlc + "  " * self.indent)

    def sp(self):
        """mandatory inline trivia (never a line comment)"""
        r = self.rng.random()
        if r < 0.70:
            self.emit(" ")
        elif r < 0.80:
            self.emit("  ")
        elif r < 0.85:
            self.emit("\t")
        elif r < 0.93:
            self.newline()
        else:
            self.emit(" /* %s */ " % self.word())
            self.features.add("block-comment")

    def osp(self):
        if self.rng.random() < 0.35:
            self.sp()

    PP_JUNK = ["class Zz {", "def ; ) (", "let = in", "\"unterminated", "x y z", "", "include \"nowhere.td\"", "multiclass M<", "}}}"]

    def pp_lines(self):
        """one preprocessor directive / region on its own line(s); the parser attaches it to the PRECEDING statement as trailing
        trivia, so a folding range (and a link range) must end before it"""
        r = self.rng
        k = r.random()
        ind = r.choice(["", "", "  ", "\t"])
        self.pp_n = getattr(self, "pp_n", 0) + 1
        if k < 0.3:
            name = "PP%d" % self.pp_n
            self.pp_defined = getattr(self, "pp_defined", []) + [name]
            self.emit(ind + "#define " + name)
            self.features.add("pp-define")
        elif k < 0.7:
            self.emit(ind + "#ifdef UNDEF%d" % self.pp_n + self.nlc)
            for _ in range(r.randrange(0, 3)):
                self.emit(r.choice(self.PP_JUNK) + self.nlc)
            self.emit(ind + "#endif")
            self.features.add("pp-disabled-region")
        elif k < 0.85 and getattr(self, "pp_defined", []):
            self.emit(ind + "#ifdef " + r.choice(self.pp_defined) + self.nlc + ind + "#endif")
            self.features.add("pp-enabled-empty-region")
        else:
            self.emit(ind + "#ifndef UNDEF%d" % self.pp_n + self.nlc + ind + "#endif")
            self.features.add("pp-enabled-empty-region")

    def stmt_gap(self):
        """trivia between two statements / items when no documentation follows: ends with a newline + indent,
        may contain a trailing line comment followed by a BLANK line (never documentation)"""
        if self.rng.random() < 0.09:
            self.emit(self.nlc)
            self.pp_lines()
            self.newline()
            return
        r = self.rng.random()
        if r < 0.12:
            self.emit(" // %s" % self.word())
            self.emit(self.nlc + self.nlc + "  " * self.indent)
            self.features.add("trailing-comment")
        elif r < 0.3:
            self.emit(self.nlc)
            self.newline()
        elif r < 0.36:
            self.emit(" ")
        else:
            self.newline()

    def doc_gap(self):
        """trivia before a declaration, then the documentation block; returns the expected doc (str or None).
        Precondition: the previous token is code (or start of file), possibly followed by trivia already."""
        r = self.rng
        k = r.random()
        if k < 0.45:
            self.stmt_gap()
            if not self.last_nl and False:
                pass
            return None
        # comment lines; make sure they start on their own line
        if self.off > 0:
            self.emit(self.nlc if r.random() < 0.7 else self.nlc + self.nlc)
            self.emit("  " * self.indent)
        lines = []
        n = r.choice([1, 1, 2, 3])
        shape = r.random()
        doc_from = 0
        for i in range(n):
            slashes = "//" + ("/" if r.random() < 0.25 else "")
            body = r.choice(["", " ", "  "]) + (self.word() if r.random() < 0.9 else "")
            if r.random() < 0.15:
                body += " "
            lines.append((slashes, body))
        blank_inside = n >= 2 and shape < 0.2        # blank line between comment i-1 and i: only the tail is doc
        block_inside = n >= 2 and 0.2 <= shape < 0.3  # a block comment line in between breaks the run
        blank_after = 0.3 <= shape < 0.45             # blank line between the last comment and the declaration
        cut = r.randrange(1, n) if (blank_inside or block_inside) else 0
        for i, (sl, body) in enumerate(lines):
            if i == cut and cut:
                if blank_inside:
                    self.emit(self.rng.choice(["", "", "  ", "\t", " "]) + self.nlc)     # the blank line may carry blanks
                    self.features.add("doc-blank-inside")
                else:
                    self.emit("/* %s */" % self.word() + self.nlc + "  " * self.indent)
                    self.features.add("doc-block-inside")
                doc_from = cut
                if blank_inside:
                    self.emit("  " * self.indent)
            self.emit(sl + body)
            self.emit(self.nlc + "  " * self.indent)
        if blank_after:
            self.emit(self.rng.choice(["", "", "  ", "\t"]) + self.nlc + "  " * self.indent)
            self.features.add("doc-blank-after")
            return None
        self.features.add("doc-%d" % (n - doc_from))
        texts = []
        for sl, body in lines[doc_from:]:
            texts.append(body.lstrip(" \t"))   # trim_start_matches('/').trim_start()
        doc = "\n".join(texts)
        return doc if doc != "" else None

    # ------------------------------------------------------------ types and values
    def gen_type(self, allow_class=True, depth=0):
        r = self.rng
        k = r.random()
        if k < 0.5 or depth > 1:
            return r.choice(PRIMS)
        if k < 0.62:
            return "bits<%d>" % r.randrange(1, 9)
        if k < 0.78:
            return "list<%s>" % self.gen_type(allow_class, depth + 1)
        if allow_class and self.classes:
            return r.choice(sorted(self.classes))
        return r.choice(PRIMS)

    def emit_type(self, t):
        """writes type t with optional inner trivia; class types record an occurrence"""
        if t in self.classes and not t.startswith(("bits<", "list<")) and t not in PRIMS:
            lo, hi = self.emit(t)
            self.occ.append((lo, hi, self.classes[t].sym))
        elif t.startswith("list<"):
            self.emit("list<")
            self.emit_type(t[5:-1])
            self.emit(">")
        else:
            self.emit(t)

    def emit_value(self, t, scope=None, depth=0):
        """a value of type t (or `?`); scope = dict name -> (type, Sym) of identifiers usable here"""
        r = self.rng
        if scope and r.random() < 0.3:
            cands = [n for n, (ty, _s) in scope.items() if ty == t]
            if cands:
                n = r.choice(sorted(cands))
                lo, hi = self.emit(n)
                self.occ.append((lo, hi, scope[n][1]))
                self.features.add("ident-use")
                return
        if r.random() < 0.08:
            self.emit("?")
        elif t == "int":
            self.emit(r.choice(["0", "1", "42", "0x1F", "0b101", "7"]))
        elif t == "bit" and self.classes and r.random() < 0.15:
            c = r.choice(sorted(self.classes))
            self.emit("!isa<")
            self.emit_type(c)
            self.emit('>("%s")' % self.fresh("r"))
            self.features.add("isa-class-type-in-value")
        elif t == "bit":
            self.emit(r.choice(["0", "1", "true", "false"]))
        elif t == "string":
            s = self.word().replace("%", "pc")
            self.emit('"%s"' % s)
        elif t == "code":
            self.emit("[{ %s }]" % r.choice(["return 0;", "x + y", ""]))
        elif t.startswith("bits<"):
            self.emit(r.choice(["0", "3", "{0, 1}"]) if t != "bits<2>" else "{0, 1}")
        elif t == "list<int>" and depth == 0 and r.random() < 0.3:
            # a !filter whose predicate (!cond) has no inferred type: the value is still a list<int>
            v = self.fresh("fv")
            self.emit("!filter(%s, [1, 2, 3], !cond(!lt(%s, 2) : 1, true : 0))" % (v, v))
            self.features.add("filter-untyped-predicate")
        elif t.startswith("list<"):
            inner = t[5:-1]
            n = r.randrange(0, 3) if depth < 2 else 0
            self.emit("[ " if inner.startswith("bits<") else "[")     # `[{` would start a code literal
            for i in range(n):
                if i:
                    self.emit(", ")
                self.emit_value(inner, scope, depth + 1)
            self.emit("]")
        elif t in self.classes and r.random() < 0.35:
            # the class only as a TYPE inside a bang operator: no arguments of its own, hence no hints for it -- and, inside
            # the argument list of another reference, none of the enclosing reference's arguments either (wave 4: C19-mut6)
            self.emit("!cast<")
            self.osp()
            self.emit_type(t)
            self.osp()
            self.emit('>("%s")' % self.fresh("r"))
            self.features.add("cast-class-type-in-value")
        elif t in self.classes and depth < 2:
            self.emit_class_ref(self.classes[t], scope, depth + 1, as_value=True)
        else:
            self.emit("?")

    def emit_class_ref(self, ci, scope=None, depth=0, as_value=False, force_pos=False):
        """`Name` or `Name<args>`; records the occurrence of Name and the expected inlay hints"""
        r = self.rng
        lo, hi = self.emit(ci.name)
        self.occ.append((lo, hi, ci.sym))
        m = len(ci.params)
        if m == 0 and (not as_value or r.random() < 0.5) and r.random() < 0.9:
            # ClassValue needs `<`: `Foo` alone in a value is an identifier (not a class value)
            if as_value:
                self.emit("<>")
            return
        self.osp()
        self.emit("<")
        self.osp()
        npos = m if force_pos else r.randrange(0, m + 1)
        extra = 1 if (m > 0 and r.random() < 0.06 and not force_pos) else 0      # one positional argument too many (diagnosed; hints unaffected)
        named = []
        if npos < m and r.random() < 0.5:
            rest = ci.params[npos:]
            named = [p for p in rest if r.random() < 0.6]
        first = True
        for i in range(npos + extra):
            if not first:
                self.emit(",")
                self.osp()
            first = False
            pos = self.off
            if i < m:
                ty, pname = ci.params[i][0], ci.params[i][1]
                self.emit_value(ty, scope, depth + 1)
                self.hints.append({"pos": pos, "label": pname + ":", "kind": "TemplateArg", "owner": [lo, hi]})
                self.features.add("hint-arg-%d" % min(i, 3))
            else:
                self.emit("1")
                self.features.add("too-many-args")
            self.osp()
        for (ty, pname, _d, _s) in named:
            if not first:
                self.emit(",")
                self.osp()
            first = False
            self.emit(pname)
            self.osp()
            self.emit("=")
            self.osp()
            self.emit_value(ty, scope, depth + 1)
            self.osp()
            self.features.add("named-arg")
        self.emit(">")
        if npos + extra == 0 and not named:
            self.features.add("empty-arg-list")

    # ------------------------------------------------------------ declarations
    def emit_template_args(self, owner_params, owner_children):
        """`<T a, T b = v>`; fills owner_params [(type,name,has_default,Sym)] and outline children"""
        r = self.rng
        n = r.randrange(1, 4)
        self.emit("<")
        for i in range(n):
            if i:
                self.emit(",")
            self.indent += 2
            doc = self.doc_gap() if r.random() < 0.25 else (self.osp() or None)
            self.indent -= 2
            t = self.gen_type()
            self.emit_type(t)
            self.sp()
            name = self.fresh("p")
            lo, hi = self.emit(name)
            sym = Sym("targ", name, self.file, lo, hi, "%s %s" % (t, name), doc)
            self.occ.append((lo, hi, sym))
            has_default = r.random() < 0.3
            if has_default:
                self.osp()
                self.emit("=")
                self.osp()
                self.emit_value(t)
            self.osp()
            owner_params.append((t, name, has_default, sym))
            owner_children.append({"kind": "TemplateArgument", "name": name, "range": [lo, hi]})
        self.emit(">")
        self.features.add("targs-%d" % n)

    def emit_parents(self, ci, scope, allow=True):
        """`: A<..>, B` ; returns list of ClassInfo"""
        r = self.rng
        cands = [c for c in self.classes.values() if c is not ci]
        ps = None
        if DIAMOND_BIAS and allow and cands and r.random() < DIAMOND_BIAS:
            # a diamond: X has two or more parents, the first of them (A) is reached BEFORE X through the first parent named
            # here (A itself, or another heir of A), so X's walk meets an already visited ancestor before its later parents
            byname = sorted(cands, key=lambda c: c.name)
            xs = [c for c in byname if len(c.parents) >= 2 and any(c.parents[0] is k for k in cands)]
            if xs:
                x = r.choice(xs)
                firsts = [x.parents[0]] + [k for k in byname if k is not x and any(q is x.parents[0] for q in k.parents)]
                ps = [r.choice(firsts), x]
                self.features.add("parents-diamond")
        if ps is not None:
            pass
        elif not allow or not cands or r.random() < 0.45:
            return []
        else:
            n = 1 if r.random() < (0.35 if DIAMOND_BIAS else 0.75) else 2
            ps = r.sample(sorted(cands, key=lambda c: c.name), min(n, len(cands)))
        self.osp()
        self.emit(":")
        self.osp()
        for i, p in enumerate(ps):
            if i:
                self.emit(",")
                self.osp()
            self.emit_class_ref(p, scope)
            self.osp()
        self.features.add("parents-%d" % len(ps))
        return ps

    def emit_body(self, rec, rec_name, children, scope):
        """`;` or `{ items }`.  rec: ClassInfo-like (fmap, parents).  Returns end offset of the last token."""
        r = self.rng
        if r.random() < 0.3:
            lo, hi = self.emit(";")
            self.features.add("body-semi")
            return hi
        self.osp()
        self.emit("{")
        self.indent += 1
        used = set()
        n = r.randrange(0, self.size // 2 + 2)
        for _ in range(n):
            k = r.random()
            inherited = sorted(n_ for n_ in self._inherited(rec) if n_ not in used)
            if k < 0.55 or not inherited:
                if k < 0.08:
                    self.stmt_gap()
                    self.emit("defvar ")
                    vn = self.fresh("bv")
                    lo, hi = self.emit(vn)
                    vs = Sym("var", vn, self.file, lo, hi, "int %s" % vn, None)
                    self.emit(" = 1;")
                    # doc of a body defvar: the gap above was a stmt_gap (no documentation)
                    self.occ.append((lo, hi, vs))
                    self.features.add("body-defvar")
                    continue
                doc = self.doc_gap()
                if r.random() < 0.15:
                    self.emit("field ")
                    self.features.add("field-kw")
                want_filter = r.random() < 0.1
                t = "list<int>" if want_filter else self.gen_type()
                self.emit_type(t)
                self.sp()
                name = self.fresh("f")
                lo, hi = self.emit(name)
                sym = Sym("field", name, self.file, lo, hi, "%s %s::%s" % (t, rec_name, name), doc)
                self.occ.append((lo, hi, sym))
                # registered BEFORE the initialiser is indexed (a field may refer to itself)
                rec.fmap[name] = (t, sym)
                scope[name] = (t, sym)
                used.add(name)
                if want_filter:
                    self.emit(" = ")
                    v = self.fresh("fv")
                    self.emit("!filter(%s, [1, 2, 3], !cond(!lt(%s, 2) : 1, true : 0))" % (v, v))
                    self.features.add("filter-untyped-predicate")
                elif r.random() < 0.5:
                    self.osp()
                    self.emit("=")
                    self.osp()
                    self.emit_value(t, scope)
                self.osp()
                self.emit(";")
                children.append({"kind": "Field", "name": name, "range": [lo, hi]})
                self.features.add("field-def")
            else:
                name = r.choice(inherited)
                t, target = rec.lookup_field(name)
                doc = self.doc_gap()
                self.emit("let")
                self.sp()
                lo, hi = self.emit(name)
                # the occurrence resolves to the field found by find_field (the interval is re-inserted for it)
                self.occ.append((lo, hi, target))
                newsym = Sym("field", name, self.file, lo, hi, "%s %s::%s" % (t, rec_name, name), doc)
                # the overriding field is registered before the value is indexed
                rec.fmap[name] = (t, newsym)
                scope[name] = (t, newsym)
                used.add(name)
                self.osp()
                self.emit("=")
                self.osp()
                self.emit_value(t, scope)
                self.osp()
                self.emit(";")
                self.hints.append({"pos": hi, "label": ":" + t, "kind": "FieldLet", "owner": [lo, hi]})
                children.append({"kind": "Field", "name": name, "range": [lo, hi]})
                self.features.add("field-let")
        self.indent -= 1
        if n:
            self.stmt_gap()
        else:
            self.osp()
        lo, hi = self.emit("}")
        self.features.add("body-items-%d" % min(n, 3))
        return hi

    def _inherited(self, rec):
        out = {}
        for p in reversed(rec.parents):
            out.update(p.all_fields())
        return out

    # ------------------------------------------------------------ statements
    def statements(self, n, ctx, container):
        for _ in range(n):
            self.statement(ctx, container)

    def statement(self, ctx, container, depth=0):
        """ctx: 'top' | 'block' | 'mc' (inside a multiclass) | 'defset'; container: outline list that receives defs
        of a defset (the top-level outline otherwise)"""
        r = self.rng
        if ctx == "mc":
            kinds = ["def", "def", "defm", "foreach", "let", "if"]
        elif ctx == "defset":
            # a nested defset is a top-level outline entry of its own; defs after it belong to the OUTER defset again
            kinds = ["def", "def", "def", "foreach", "let", "if", "defm", "defset", "def"]
        else:
            kinds = ["class", "class", "class", "def", "def", "defset", "multiclass", "foreach", "let", "if", "defvar", "defm", "redef"]
        if depth >= 1:
            kinds = [k for k in kinds if k != "redef"]
        if depth >= 2:
            kinds = [k for k in kinds if k in ("def", "class", "defm", "defvar") or (k == "defset" and ctx == "defset" and depth == 2)] or ["def"]
        k = r.choice(kinds)
        if k == "defm" and not self.multiclasses:
            k = "def"
        getattr(self, "st_" + k)(ctx, container, depth)

    def st_class(self, ctx, container, depth):
        r = self.rng
        doc = self.doc_gap()
        start, _ = self.emit("class")
        self.sp()
        forced = getattr(self, "force_class", None)
        self.force_class = None
        name = forced or self.fresh("C")
        if forced:
            # from the `class` keyword on the name binds the NEW record (add_record comes before the template arguments and
            # parents are indexed): the old record must not be used as a type / parent inside this statement
            del self.classes[name]
        lo, hi = self.emit(name)
        ci = ClassInfo(name, None)
        children = []
        entry = {"kind": "Class", "name": name, "range": [lo, hi], "children": children}
        self.outline.append(entry)
        fold = [start, None]
        self.folds.append(fold)
        bare = self.omit_semi and r.random() < 0.06 and ctx == "top" and depth == 0 and not forced
        if bare:
            # `class Name` with nothing else: the statement ends at the identifier (a syntax error is reported;
            # the declaration is still indexed).  The next statement must not start like a body item.
            ci.sym = Sym("class", name, self.file, lo, hi, "class " + name, doc)
            self.occ.append((lo, hi, ci.sym))
            self.classes[name] = ci
            fold[1] = hi
            self.features.add("class-without-body")
            self.bare_follow(ctx, container, depth)
            return
        if r.random() < 0.5 or forced:
            self.osp()
            self.emit_template_args(ci.params, children)
        sig = "class " + name
        if ci.params:
            sig += "<" + ", ".join("%s %s" % (p[0], p[1]) for p in ci.params) + ">"
        ci.sym = Sym("class", name, self.file, lo, hi, sig, doc)
        self.occ.append((lo, hi, ci.sym))
        scope = {p[1]: (p[0], p[3]) for p in ci.params}
        # the class is registered before its parents are resolved, but a self parent is refused: not generated
        ci.parents = self.emit_parents(ci, scope)
        self.classes[name] = ci
        for p in ci.parents:
            for fn, v in p.all_fields().items():
                scope.setdefault(fn, v)
        # template arguments shadow inherited fields?  find_local looks at fields first: drop clashes (none: fresh names)
        fold[1] = self.emit_body(ci, name, children, scope)
        self.features.add("class")

    def st_redef(self, ctx, container, depth):
        """the same class name defined twice with different template parameters (what a copy-paste-then-rename edit leaves
        behind): a reference with positional arguments to the first record, the second `class` statement, a reference with
        positional arguments to the second record.  Both records are listed; each reference binds the latest definition above it."""
        cands = [c for c in self.classes.values() if c.params and c.sym.file == self.file]
        if not cands or depth > 0:
            return self.st_class(ctx, container, depth)
        ci = self.rng.choice(sorted(cands, key=lambda c: c.name))
        self.quick_def(ci)
        self.force_class = ci.name
        self.st_class(ctx, container, depth)
        self.quick_def(self.classes[ci.name])
        self.features.add("class-redefined")

    def quick_def(self, ci):
        self.stmt_gap()
        start, _ = self.emit("def")
        fold = [start, None]
        self.folds.append(fold)
        self.sp()
        name = self.fresh("d")
        lo, hi = self.emit(name)
        sym = Sym("def", name, self.file, lo, hi, "def " + name, None)
        self.occ.append((lo, hi, sym))
        self.outline.append({"kind": "Def", "name": name, "range": [lo, hi], "children": []})
        self.osp()
        self.emit(":")
        self.osp()
        self.emit_class_ref(ci, None, force_pos=True)
        _, fold[1] = self.emit(";")
        self.last_stmt_end = fold[1]

    def bare_follow(self, ctx, container, depth):
        """after a body-less `class X` / `def X`: EOF or a statement that does not start like a body item"""
        if self.rng.random() < 0.25:
            self.stop = True          # the body-less declaration is the last statement of the file
            return
        self.sp() if self.rng.random() < 0.5 else self.newline()
        k = self.rng.choice(["class", "def", "multiclass", "foreach", "if"])
        getattr(self, "st_" + k)(ctx, container, depth + 1)

    def st_def(self, ctx, container, depth):
        r = self.rng
        anonymous = r.random() < 0.12
        doc = self.doc_gap()
        start, kwend = self.emit("def")
        fold = [start, None]
        self.folds.append(fold)
        rec = ClassInfo(None, None)
        children = []
        anon_name = None
        if anonymous:
            name = None
            anon_name = "anonymous_%d" % self.anon
            self.anon += 1
            self.features.add("def-anonymous" + ("-in-defset" if ctx == "defset" else ""))
            if ctx == "defset":
                container.append({"kind": "Def", "name": None, "optional": True, "children": children})
        else:
            self.sp()
            name = self.fresh("d")
            lo, hi = self.emit(name)
            sym = Sym("def", name, self.file, lo, hi, "def " + name, doc)
            self.occ.append((lo, hi, sym))
            self.defs[name] = sym
            container.append({"kind": "Def", "name": name, "range": [lo, hi], "children": children})
            rec.name = name
        scope = {}
        cands = sorted(self.classes.values(), key=lambda c: c.name)
        if cands and r.random() < 0.7:
            n = 1 if r.random() < 0.75 else 2
            ps = r.sample(cands, min(n, len(cands)))
            self.osp()
            self.emit(":")
            self.osp()
            for i, p in enumerate(ps):
                if i:
                    self.emit(",")
                    self.osp()
                self.emit_class_ref(p, None)
                self.osp()
            rec.parents = ps
            for p in ps:
                for fn, v in p.all_fields().items():
                    scope.setdefault(fn, v)
        elif anonymous:
            self.sp()
        fold[1] = self.emit_body(rec, name if name else anon_name, children if name or ctx == "defset" else [], scope)
        self.features.add("def" + ("-in-" + ctx if ctx != "top" else ""))

    def st_defvar(self, ctx, container, depth):
        doc = self.doc_gap()
        self.emit("defvar")
        self.sp()
        name = self.fresh("v")
        lo, hi = self.emit(name)
        t = self.rng.choice(["int", "string", "list<int>"])
        sym = Sym("var", name, self.file, lo, hi, "%s %s" % (t, name), doc)
        self.occ.append((lo, hi, sym))
        self.osp()
        self.emit("=")
        self.osp()
        self.emit({"int": "5", "string": '"s"', "list<int>": "[1, 2]"}[t])
        self.osp()
        self.emit(";")
        self.features.add("defvar")

    def block(self, ctx, container, depth, n=None, force_braces=False):
        """`{ statements }` or a single statement; returns the end offset of the last token"""
        r = self.rng
        if r.random() < 0.3 and not force_braces:
            self.statement(ctx, container, depth + 1)
            self.features.add("single-statement-body")
            return None     # end = end of the inner statement (filled by caller)
        self.emit("{")
        self.indent += 1
        n = r.randrange(0, 3) if n is None else n
        for _ in range(n):
            self.statement(ctx, container, depth + 1)
        self.indent -= 1
        if n:
            self.stmt_gap()
        else:
            self.osp()
        lo, hi = self.emit("}")
        return hi

    def st_foreach(self, ctx, container, depth):
        self.doc_gap()
        start, _ = self.emit("foreach")
        fold = [start, None]
        self.folds.append(fold)
        self.sp()
        name = self.fresh("i")
        lo, hi = self.emit(name)
        sym = Sym("var", name, self.file, lo, hi, "int " + name, None)
        self.occ.append((lo, hi, sym))
        self.osp()
        self.emit("=")
        self.osp()
        self.emit(self.rng.choice(["[1, 2]", "0...3", "{0-2}", "[0]"]))
        self.sp()
        self.emit("in")
        self.sp()
        end = self.block(ctx, container, depth)
        fold[1] = end if end is not None else self.last_stmt_end
        self.last_stmt_end = fold[1]
        self.features.add("foreach")

    def st_let(self, ctx, container, depth):
        self.doc_gap()
        start, _ = self.emit("let")
        fold = [start, None]
        self.folds.append(fold)
        self.sp()
        n = 1 if self.rng.random() < 0.7 else 2
        for i in range(n):
            if i:
                self.emit(",")
                self.osp()
            self.emit(self.fresh("lf"))
            self.osp()
            self.emit("=")
            self.osp()
            self.emit(self.rng.choice(["1", '"s"', "[1]"]))
        self.sp()
        self.emit("in")
        self.sp()
        end = self.block(ctx, container, depth)
        fold[1] = end if end is not None else self.last_stmt_end
        self.last_stmt_end = fold[1]
        self.features.add("let")

    def st_if(self, ctx, container, depth):
        self.doc_gap()
        start, _ = self.emit("if")
        fold = [start, None]
        self.folds.append(fold)
        self.sp()
        self.emit(self.rng.choice(["1", "0", "!eq(1, 1)"]))
        self.sp()
        self.emit("then")
        self.sp()
        has_else = self.rng.random() < 0.45
        end = self.block(ctx, container, depth, force_braces=has_else)   # no dangling else
        if end is None:
            end = self.last_stmt_end
        if has_else:
            self.sp()
            self.emit("else")
            self.sp()
            e2 = self.block(ctx, container, depth)
            end = e2 if e2 is not None else self.last_stmt_end
            self.features.add("if-else")
        fold[1] = end
        self.last_stmt_end = end
        self.features.add("if")

    def st_defset(self, ctx, container, depth):
        r = self.rng
        if not self.classes:
            return self.st_class(ctx, container, depth)
        doc = self.doc_gap()
        start, _ = self.emit("defset")
        fold = [start, None]
        self.folds.append(fold)
        self.sp()
        cname = r.choice(sorted(self.classes))
        t = "list<%s>" % cname
        self.emit("list<")
        lo, hi = self.emit(cname)
        self.occ.append((lo, hi, self.classes[cname].sym))
        self.emit(">")
        self.sp()
        name = self.fresh("S")
        lo, hi = self.emit(name)
        sym = Sym("defset", name, self.file, lo, hi, "%s %s" % (t, name), doc)
        self.occ.append((lo, hi, sym))
        children = []
        self.outline.append({"kind": "Defset", "name": name, "range": [lo, hi], "children": children})
        self.osp()
        self.emit("=")
        self.osp()
        self.emit("{")
        self.indent += 1
        if self.allow_defset_include and not self.extra and ctx != "defset" and depth == 0:
            self.include_in_defset()
        n = r.randrange(0, 4)
        for _ in range(n):
            self.statement("defset", children, depth + 1)
        if ctx != "defset" and depth < 2 and r.random() < 0.2:
            # an inner defset followed by a def of the OUTER defset
            self.st_defset("defset", children, depth + 1)
            self.st_def("defset", children, depth + 1)
            n += 2
            self.features.add("def-after-inner-defset")
        self.indent -= 1
        if n:
            self.stmt_gap()
        else:
            self.osp()
        _, fold[1] = self.emit("}")
        self.last_stmt_end = fold[1]
        self.features.add("defset-%d" % min(n, 3))
        if ctx == "defset":
            self.features.add("defset-nested")

    def include_in_defset(self):
        """`include "incd.td"` as the first statement of a defset body.  The defs of the included file are indexed while
        the defset is open, but they are declared in ANOTHER file: they are listed at the top level of the included file's
        outline (fix 7840bc6) and are NOT children of the defset in the includer's outline (fix 28899f7): the document
        symbols of a file list what is declared in that file."""
        g2 = Gen(self.rng, self.crlf, self.nonascii, 2, omit_semi=False, fname="incd.td")
        g2.last_stmt_end = 0
        g2.classes, g2.multiclasses, g2.defs = self.classes, self.multiclasses, self.defs
        g2.counter, g2.anon = self.counter, self.anon
        self.newline()
        self.emit('include "incd.td"')
        for _ in range(self.rng.randrange(1, 3)):
            g2.st_def("defset", g2.outline, 1)
        if self.rng.random() < 0.5:
            g2.st_class("top", g2.outline, 1)
        g2.emit(g2.nlc)
        self.counter, self.anon = g2.counter, g2.anon
        self.extra.append(g2)
        self.features.add("include-in-defset")

    def st_multiclass(self, ctx, container, depth):
        r = self.rng
        doc = self.doc_gap()
        start, _ = self.emit("multiclass")
        fold = [start, None]
        self.folds.append(fold)
        self.sp()
        name = self.fresh("M")
        lo, hi = self.emit(name)
        sym = Sym("multiclass", name, self.file, lo, hi, "multiclass " + name, doc)
        self.occ.append((lo, hi, sym))
        children = []
        self.outline.append({"kind": "Multiclass", "name": name, "range": [lo, hi], "children": children})
        params = []
        if r.random() < 0.5:
            self.osp()
            self.emit_template_args(params, children)
            self.features.add("multiclass-targs")
        else:
            self.features.add("multiclass-no-targs")
        if self.multiclasses and r.random() < 0.3:
            self.osp()
            self.emit(":")
            self.osp()
            pn = r.choice(sorted(self.multiclasses))
            plo, phi = self.emit(pn)
            self.occ.append((plo, phi, self.multiclasses[pn][0]))
            self.features.add("multiclass-parent")
        self.osp()
        self.emit("{")
        self.indent += 1
        n = r.randrange(1, 4)
        for _ in range(n):
            self.statement("mc", self.outline, depth + 1)
        self.indent -= 1
        self.stmt_gap()
        _, fold[1] = self.emit("}")
        self.last_stmt_end = fold[1]
        self.multiclasses[name] = (sym, params)

    def st_defm(self, ctx, container, depth):
        r = self.rng
        doc = self.doc_gap()
        self.emit("defm")
        self.sp()
        name = self.fresh("dm")
        lo, hi = self.emit(name)
        sym = Sym("defm", name, self.file, lo, hi, "defm " + name, doc)
        self.occ.append((lo, hi, sym))
        self.osp()
        self.emit(":")
        self.osp()
        mn = r.choice(sorted(self.multiclasses))
        msym, params = self.multiclasses[mn]
        mlo, mhi = self.emit(mn)
        self.occ.append((mlo, mhi, msym))
        if params:
            self.emit("<")
            for i, p in enumerate(params):
                if i:
                    self.emit(", ")
                self.emit_value(p[0])
            self.emit(">")
        self.osp()
        _, self.last_stmt_end = self.emit(";")
        self.features.add("defm")

    # ------------------------------------------------------------ driver
    def program(self):
        n = self.rng.randrange(1, self.size + 1)
        if self.rng.random() < 0.3:
            self.emit(self.rng.choice([self.nlc, "  ", self.nlc + self.nlc, "/* head */" + self.nlc]))
        again_at = self.rng.randrange(0, n) if (self.include_again and self.rng.random() < 0.7) else None
        # an include guard around the whole file / an enabled #ifdef region around some statements: what is inside is parsed
        # as usual; the closing `#endif` follows the last statement inside (trailing trivia of that statement)
        guard = self.rng.random() < 0.12
        if guard:
            if self.off > 0 and not self.last_nl:
                self.emit(self.nlc)
            self.emit("#ifndef GUARD_H" + self.nlc + "#define GUARD_H" + self.nlc)
            self.features.add("pp-include-guard")
        region = (self.rng.randrange(0, n), self.rng.randrange(1, 3)) if self.rng.random() < 0.15 else None
        open_region = False
        for k in range(n):
            if self.stop:
                break
            if region and k == region[0]:
                if self.off > 0 and not self.last_nl:
                    self.emit(self.nlc)
                self.emit("#ifndef NOT_DEFINED_%d" % k + self.nlc)
                open_region = True
                self.features.add("pp-enabled-region")
            if region and open_region and k == region[0] + region[1]:
                self.emit(self.nlc + "#endif" + self.nlc)
                open_region = False
            if k == again_at:
                # a second include of a file that is indexed already: ignored; what follows still belongs to THIS file
                self.stmt_gap()
                self.emit('include "%s"' % self.include_again)
                self.newline()
                self.features.add("include-twice")
            self.statement("top", self.outline)
        if open_region:
            self.emit(self.nlc + "#endif")
        if guard:
            self.emit(self.nlc + "#endif")
        if self.rng.random() < 0.8:
            self.emit(self.rng.choice([self.nlc, " ", self.nlc + self.nlc, " // end", self.nlc + "// end" + self.nlc]))


# The `fold[1] = end-of-inner-statement` bookkeeping: every st_* that can be the single statement of a block sets
# self.last_stmt_end; class/def set it through the wrappers below.
def _wrap(name):
    orig = getattr(Gen, name)

    def f(self, ctx, container, depth):
        nfold = len(self.folds)
        orig(self, ctx, container, depth)
        if len(self.folds) > nfold and self.folds[nfold][1] is not None:
            # a bare class followed by another statement: the LAST statement written decides
            self.last_stmt_end = max(f_[1] for f_ in self.folds[nfold:] if f_[1] is not None)
    setattr(Gen, name, f)


for _n in ("st_class", "st_def"):
    _wrap(_n)


def _defvar_end(orig):
    def f(self, ctx, container, depth):
        orig(self, ctx, container, depth)
        self.last_stmt_end = self.off
    return f


Gen.st_defvar = _defvar_end(Gen.st_defvar)


def gen_workspace(rng, size=6, crlf=None, nonascii=None, with_include=None, omit_semi=True):
    """returns dict: files [[path,text]], root, expected {file: {outline, folds, occ, hints}}, features"""
    crlf = (rng.random() < 0.2) if crlf is None else crlf
    nonascii = (rng.random() < 0.6) if nonascii is None else nonascii
    with_include = (rng.random() < 0.25) if with_include is None else with_include
    files, expected, feats = [], {}, set()
    anon0 = 0
    shared_classes, shared_mc = {}, {}
    counter = 0
    if with_include:
        g0 = Gen(rng, crlf, nonascii, max(2, size // 2), omit_semi=False, fname="inc.td")
        g0.last_stmt_end = 0
        # included file: classes / multiclasses only at its top level so that the includer can use them
        for _ in range(rng.randrange(1, 4)):
            getattr(g0, rng.choice(["st_class", "st_class", "st_multiclass", "st_def"]))("top", g0.outline, 0)
        g0.emit(g0.nlc)
        if rng.random() < 0.3:
            # an include cycle back to the includer: ignored (main.td is indexed already); declarations after it stay in inc.td
            g0.emit('include "main.td"' + g0.nlc)
            g0.st_class("top", g0.outline, 1)
            g0.emit(g0.nlc)
            feats.add("include-cycle")
        files.append(["inc.td", g0.text()])
        expected["inc.td"] = _expected(g0)
        shared_classes, shared_mc = g0.classes, g0.multiclasses
        counter = g0.counter
        anon0 = g0.anon
        feats |= g0.features | {"include"}
    g = Gen(rng, crlf, nonascii, size, omit_semi=omit_semi)
    g.last_stmt_end = 0
    g.classes, g.multiclasses, g.counter, g.anon = dict(shared_classes), dict(shared_mc), counter, anon0
    g.allow_defset_include = rng.random() < 0.3
    if with_include:
        g.emit('include "inc.td"' + g.nlc)
        g.include_again = "inc.td"
    g.program()
    files.append(["main.td", g.text()])
    expected["main.td"] = _expected(g)
    for g2 in g.extra:
        files.append([g2.file, g2.text()])
        expected[g2.file] = _expected(g2)
        feats |= g2.features
    feats |= g.features
    if crlf:
        feats.add("crlf")
    if any(ord(c) > 127 for f in files for c in f[1]):
        feats.add("non-ascii")
    return {"files": files, "root": "main.td", "expected": expected, "features": sorted(feats)}


def _expected(g):
    occ = [{"lo": lo, "hi": hi, "sig": s.sig, "doc": s.doc, "def": [s.file, s.lo, s.hi], "kind": s.kind, "name": s.name}
           for (lo, hi, s) in g.occ]
    return {"outline": g.outline, "folds": [list(f) for f in g.folds], "occ": occ, "hints": g.hints}


def tiny_hint_workspaces(rng, n):
    """small hand-shaped programs (<= ~120 bytes) with BOTH kinds of inlay hints, for exhaustive request ranges:
    a class with 1..3 parameters, a reference with positional (+ named) arguments in a parent list and/or as a class value,
    and a field override.  Positions are computed while the text is written."""
    out = []
    for _ in range(n):
        nl = rng.choice(["\n", "\n", "\r\n"])
        sp = lambda: rng.choice(["", " ", " ", "  "])
        parts, off, hints = [], [0], []

        def emit(s):
            lo = off[0]
            parts.append(s)
            off[0] += len(s.encode("utf-8"))
            return lo, off[0]
        k = rng.randrange(1, 4)
        ps = [(rng.choice(["int", "string", "bit"]), "p" + rng.choice("abcxyz") + str(i)) for i in range(k)]
        cname = "K" + rng.choice("abcdef")
        fname = "f" + rng.choice("uvw")
        emit("class " + cname + "<" + ("," + sp()).join("%s %s" % p for p in ps) + ">" + sp() + "{" + sp() + "int " + fname + ";" + sp() + "}" + nl)
        if rng.random() < 0.3:
            emit("// é" + nl)
        shape = rng.choice(["def", "class", "value"])
        vals = {"int": ["1", "42"], "string": ['"s"', '"é"'], "bit": ["0", "true"]}

        def ref():
            lo, hi = emit(cname)
            emit(sp() + "<" + sp())
            npos = rng.randrange(0, k + 1)
            for i in range(npos):
                if i:
                    emit("," + sp())
                pos, _ = emit(rng.choice(vals[ps[i][0]]))
                hints.append({"pos": pos, "label": ps[i][1] + ":", "kind": "TemplateArg", "owner": [lo, hi]})
                emit(sp())
            if npos < k and rng.random() < 0.5:
                if npos:
                    emit("," + sp())
                emit(ps[npos][1] + sp() + "=" + sp() + rng.choice(vals[ps[npos][0]]))
            emit(">")
        if shape in ("def", "class"):
            emit(("def d" if shape == "def" else "class D") + sp() + ":" + sp())
            ref()
            emit(sp() + "{" + sp() + "let" + " ")
            lo, hi = emit(fname)
            hints.append({"pos": hi, "label": ":int", "kind": "FieldLet", "owner": [lo, hi]})
            emit(sp() + "=" + sp() + "2;" + sp() + "}" + rng.choice(["", nl]))
        else:
            emit("def d" + sp() + "{" + sp() + cname + " g" + sp() + "=" + sp())
            ref()
            emit(";" + sp() + "}" + rng.choice(["", nl]))
        feats = ["tiny-hints"]
        if rng.random() < 0.35:
            # the class only as a TYPE inside the argument list of ANOTHER reference (`!cast<K>(..)`): the only hints of that list
            # are the enclosing reference's own parameter names; K's parameters must not show up there (wave 4: C19-mut6)
            oname = "O" + rng.choice("pqr")
            emit(nl + "class " + oname + "<" + cname + " r," + sp() + "int w>;" + nl)
            emit("def u" + sp() + ":" + sp())
            lo, hi = emit(oname)
            emit(sp() + "<" + sp())
            pos, _ = emit("!cast<" + cname + '>("d")')
            hints.append({"pos": pos, "label": "r:", "kind": "TemplateArg", "owner": [lo, hi]})
            emit(sp() + "," + sp())
            pos, _ = emit("8")
            hints.append({"pos": pos, "label": "w:", "kind": "TemplateArg", "owner": [lo, hi]})
            emit(sp() + ">;" + rng.choice(["", nl]))
            feats.append("cast-class-type-in-arguments")
        text = "".join(parts)
        out.append({"files": [["main.td", text]], "root": "main.td", "features": feats,
                    "expected": {"main.td": {"outline": [], "folds": [], "occ": [], "hints": hints}}})
    return out
