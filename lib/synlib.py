"""Helpers shared by the syntax-level checks (C01, C02, C04, C20): running the harness observers and
the extracted model on batches of texts, and canonical comparison of parse results."""
import json
import os
import subprocess
import sys

sys.path.insert(0, os.path.dirname(os.path.abspath(__file__)))
import vlib
import treeio

# parsedump prints nested JSON trees: nesting depth 256 of a bracketed construct is ~1500 levels of JSON
sys.setrecursionlimit(max(sys.getrecursionlimit(), 60000))


def _limits():
    # a runaway parse (non-terminating loop that keeps allocating) must die instead of exhausting the machine
    import resource
    try:
        resource.setrlimit(resource.RLIMIT_AS, (8 << 30, 8 << 30))
    except (ValueError, OSError):
        pass


def run_json(exe, args, cases, timeout=600):
    p = subprocess.run([exe] + args, input=json.dumps(cases), capture_output=True, text=True, timeout=timeout,
                       preexec_fn=_limits)
    if p.returncode != 0:
        return None, "exit status %s %s" % (p.returncode, p.stderr[-500:])
    try:
        return json.loads(p.stdout), ""
    except (ValueError, RecursionError):
        return None, "unparsable output"


def run_json_robust(exe, args, cases, timeout=600, budget=None):
    """Runs a batch.  The observers stop at the first case that exceeds their per-case watchdog (they report
    {"timeout": ms} for it and return fewer results than cases): the rest is resumed in a new process.  If the
    process dies (stack overflow / abort / out of memory / wall-clock limit) the batch is bisected to isolate the
    offending case(s), which are reported as {"crash": reason}.  `budget` = {"left": n}: once n cases have timed out
    or crashed the remaining cases are not run any more ({"skipped": true}): enough evidence, bounded wall time."""
    if not cases:
        return []
    if budget is not None and budget["left"] <= 0:
        return [{"skipped": True} for _ in cases]
    try:
        out, err = run_json(exe, args, cases, timeout)
    except subprocess.TimeoutExpired:
        out, err = None, "timeout"
    if out is not None:
        if len(out) < len(cases):
            if budget is not None:
                budget["left"] -= 1
            return out + run_json_robust(exe, args, cases[len(out):], timeout, budget)
        return out
    if len(cases) == 1:
        if budget is not None:
            budget["left"] -= 1
        return [{"crash": err or "process died"}]
    mid = len(cases) // 2
    return run_json_robust(exe, args, cases[:mid], timeout, budget) + run_json_robust(exe, args, cases[mid:], timeout, budget)


def model_lines(exe, cmd, texts, timeout=900, shards=None):
    """Runs `<unit>_run cmd` on texts (one per line as code points); returns list of output lines."""
    shards = shards or min(vlib.NCPU, max(1, len(texts) // 200))
    chunks = [texts[i::shards] for i in range(shards)]
    procs = []
    for ch in chunks:
        inp = "\n".join(treeio.text_line(t) for t in ch) + ("\n" if ch else "")
        # the extracted interpreter recurses deeply on long inputs: unlimited stack
        procs.append(subprocess.Popen(["bash", "-c", "ulimit -s unlimited 2>/dev/null || ulimit -s 1000000; exec \"$0\" \"$1\"", exe, cmd],
                                      stdin=subprocess.PIPE, stdout=subprocess.PIPE, stderr=subprocess.DEVNULL, text=True))
        procs[-1]._inp = inp
    outs = []
    for p in procs:
        try:
            o, _ = p.communicate(p._inp, timeout=timeout)
        except subprocess.TimeoutExpired:
            p.kill()
            o = ""
        outs.append(o.split("\n")[:-1] if o else [])
    res = [None] * len(texts)
    for si, ch in enumerate(chunks):
        for j in range(len(ch)):
            res[si + j * shards] = outs[si][j] if j < len(outs[si]) else "MODEL-CRASH"
    return res


def real_tree_line(node, sk_index):
    """parsedump tree -> the `( k .. ) [ k len ]` line the model prints"""
    out = []

    def go(n):
        if n[0] == "T":
            out.append("[ %d %d ]" % (sk_index.get(n[1], 65535), n[3] - n[2]))
        else:
            out.append("( %d" % sk_index.get(n[1], 65535))
            for c in n[4]:
                go(c)
            out.append(")")
    go(node)
    return " ".join(out)


def real_parse_line(r, sk_index, with_counts=None):
    if "panic" in r or "crash" in r or "timeout" in r:
        return "PANIC"
    errs = " ".join("%d:%d:%s" % (e[0], e[1], e[2].replace(" ", "_")) for e in r["errors"])
    return (real_tree_line(r["tree"], sk_index) + " | " + errs).strip()


def model_parse_core(line):
    """strip the work counters from a model parse line"""
    if line in ("PANIC", "OOF", "MODEL-CRASH"):
        return line
    tree, errs, _counts = line.split("|")
    return (tree.strip() + " | " + errs.strip()).strip()


# ------------------------------------------------------------------ C01 / C02 oracles on parsedump output

def char_boundaries(text):
    """set of byte offsets that lie between two characters of text (0 and len included)"""
    b, off = {0}, 0
    for ch in text:
        off += len(ch.encode("utf-8"))
        b.add(off)
    return b, off


def real_leaves(r):
    """[(kind, lo, hi)] of a parsedump result (tree or --flat form), in document order"""
    if "leaves" in r:
        return [tuple(x) for x in r["leaves"]]
    out = []
    stack = [r["tree"]]
    while stack:
        n = stack.pop()
        if n[0] == "T":
            out.append((n[1], n[2], n[3]))
        else:
            stack.extend(reversed(n[4]))
    return out


def lossless_oracle(text, r):
    """C01 stated on the real parser's observation; returns None or a description of the failure"""
    if "panic" in r or "crash" in r or "timeout" in r:
        return "parser did not produce a tree: " + str(r.get("panic", r.get("crash", "no result within %s ms" % r.get("timeout"))))[:200]
    if not r.get("text_ok"):
        return "syntax_node().text() != input"
    bnd, total = char_boundaries(text)
    pos = 0
    for (k, lo, hi) in real_leaves(r):
        if lo != pos:
            return "token %s range %d..%d does not start at the running offset %d" % (k, lo, hi, pos)
        if hi < lo:
            return "token %s has a reversed range %d..%d" % (k, lo, hi)
        if lo not in bnd or hi not in bnd:
            return "token %s range %d..%d is not on character boundaries" % (k, lo, hi)
        pos = hi
    if pos != total:
        return "leaves end at byte %d, the text has %d bytes" % (pos, total)
    return None


def errors_oracle(text, r):
    """C02 (error part): every error has a non-empty message and a range inside the text on char boundaries"""
    if "timeout" in r:
        return "parser did not return within %s ms" % r["timeout"]
    if "panic" in r or "crash" in r:
        return "parser panicked or died: " + str(r.get("panic", r.get("crash")))[:200]
    bnd, total = char_boundaries(text)
    for (lo, hi, msg) in r["errors"]:
        if msg == "":
            return "error at %d..%d has an empty message" % (lo, hi)
        if not (0 <= lo <= hi <= total):
            return "error range %d..%d outside the text (len %d)" % (lo, hi, total)
        if lo not in bnd or hi not in bnd:
            return "error range %d..%d not on character boundaries" % (lo, hi)
    return None


def stale_generated(ctx, fails, theorems, source_translators=("t_lexer", "t_prep", "t_parser")):
    """A translator that refuses the source leaves its previous output in coq/gen: the theorems that speak about that
    output are NOT established for the current tree, whatever coqc says about the stale file.  The `*_source` theorems
    depend on t_lexer / t_prep / t_parser; every theorem about grammar_prog depends on t_grammar / t_grammarcert /
    t_tokens / t_lextables / t_unicode; the `*lib_parse*` / `*_parse_is_source` theorems also on t_libglue."""
    tr_failed = {f["translator"] for f in fails if f.get("kind") == "translator"}
    if not tr_failed:
        return
    if tr_failed - set(source_translators) - {"t_libglue"}:
        stale = set(theorems)
    else:
        stale = set()
        if tr_failed & set(source_translators):
            stale |= {t for t in theorems if "source" in t or "lib_parse" in t}
        if "t_libglue" in tr_failed:       # lib.rs glue: only the theorems about the rendered `parse`
            stale |= {t for t in theorems if "lib_parse" in t or "parse_is_source" in t}
    ctx.cov["stale_generated_input"] = {"translators_failed": sorted(tr_failed), "theorems_not_established": sorted(stale)}
    ok = ctx.cov.get("axioms_per_theorem", {})
    ctx.cov["discharged"] = max(0, ctx.cov.get("discharged", 0) - len([t for t in stale if ok.get(t) == []]))


# --------------------------------------------------------------------------- ast.rs methods / lib.rs glue tie
AST_SOURCE_THEOREMS = ["Ast_methods_are_source", "Ast_methods_covered", "Ast_interpret_number_is_source",
                       "Ast_other_methods_total", "Lib_glue_is_source"]
AST_SOURCE_TRANSLATORS = ["t_tokens", "t_ast", "t_lexer", "t_astmethods", "t_libglue"]


def ast_source_step(ctx, fails):
    """For checks that rely on the bridge's hand models of the hand-written ast.rs methods (model/AstToCore.v:
    m_identifier, m_integer_value, m_string_value, m_is_single_element, m_bang_kind): regenerate GenAstMethods.v /
    GenLibGlue.v from the current sources and re-check props/AstSource.vo.  Call AFTER vlib.proof_step: appends the
    failures to `fails`, adds the obligations to the coverage counters.  (design/notes-translator-ast.md)"""
    tr = vlib.run_translators(AST_SOURCE_TRANSLATORS)
    bad = False
    for name, (ok, msg) in tr.items():
        ctx.cov.setdefault("translators", {})[name] = msg
        if not ok:
            bad = True
            fails.append({"kind": "translator", "translator": name, "error": msg})
    r = vlib.prove("TG.Props.AstSource", AST_SOURCE_THEOREMS, ["props/AstSource.vo"])
    fails += r["failures"]
    ctx.cov["obligations"] = ctx.cov.get("obligations", 0) + r["obligations"]
    ctx.cov["discharged"] = ctx.cov.get("discharged", 0) + (0 if bad else r["discharged"])
    ctx.cov["theorems"] = list(ctx.cov.get("theorems", [])) + AST_SOURCE_THEOREMS
    ctx.cov.setdefault("axioms_per_theorem", {}).update(r["assumptions"])
    return r
