"""Helpers shared by the syntax-level checks (C01, C02, C04, C20): running the harness observers and
the extracted model on batches of texts, and canonical comparison of parse results."""
import json
import os
import subprocess
import sys

sys.path.insert(0, os.path.dirname(os.path.abspath(__file__)))
import vlib
import treeio


def run_json(exe, args, cases, timeout=600):
    p = subprocess.run([exe] + args, input=json.dumps(cases), capture_output=True, text=True, timeout=timeout)
    if p.returncode != 0:
        return None, p.stderr[-2000:]
    return json.loads(p.stdout), ""


def run_json_robust(exe, args, cases, timeout=600):
    """Runs a batch; if the process dies (stack overflow / abort / timeout) bisects to isolate the
    offending case(s), which are reported as {"crash": reason}."""
    try:
        out, err = run_json(exe, args, cases, timeout)
    except subprocess.TimeoutExpired:
        out, err = None, "timeout"
    if out is not None:
        return out
    if len(cases) == 1:
        return [{"crash": err or "process died"}]
    mid = len(cases) // 2
    return run_json_robust(exe, args, cases[:mid], timeout) + run_json_robust(exe, args, cases[mid:], timeout)


def model_lines(exe, cmd, texts, timeout=900, shards=None):
    """Runs `<unit>_run cmd` on texts (one per line as code points); returns list of output lines."""
    shards = shards or min(vlib.NCPU, max(1, len(texts) // 200))
    chunks = [texts[i::shards] for i in range(shards)]
    procs = []
    for ch in chunks:
        inp = "\n".join(treeio.text_line(t) for t in ch) + ("\n" if ch else "")
        procs.append(subprocess.Popen([exe, cmd], stdin=subprocess.PIPE, stdout=subprocess.PIPE, text=True))
        procs[-1]._inp = inp
    outs = []
    for p in procs:
        try:
            o, _ = p.communicate(p._inp, timeout=timeout)
        except subprocess.TimeoutExpired:
            p.kill()
            o = ""
        outs.append(o.split("\n")[:-1] if o else [])
    res = [None] * len(texts)
    for si, ch in enumerate(chunks):
        for j in range(len(ch)):
            res[si + j * shards] = outs[si][j] if j < len(outs[si]) else "MODEL-CRASH"
    return res


def real_tree_line(node, sk_index):
    """parsedump tree -> the `( k .. ) [ k len ]` line the model prints"""
    out = []

    def go(n):
        if n[0] == "T":
            out.append("[ %d %d ]" % (sk_index[n[1]], n[3] - n[2]))
        else:
            out.append("( %d" % sk_index[n[1]])
            for c in n[4]:
                go(c)
            out.append(")")
    go(node)
    return " ".join(out)


def real_parse_line(r, sk_index, with_counts=None):
    if "panic" in r or "crash" in r:
        return "PANIC"
    errs = " ".join("%d:%d:%s" % (e[0], e[1], e[2].replace(" ", "_")) for e in r["errors"])
    return real_tree_line(r["tree"], sk_index) + " | " + errs


def model_parse_core(line):
    """strip the work counters from a model parse line"""
    if line in ("PANIC", "OOF", "MODEL-CRASH"):
        return line
    tree, errs, _counts = line.split("|")
    return (tree.strip() + " | " + errs.strip()).strip()
