"""Cross-check of the Coq extraction (DESIGN 1.2: "for small batches the same cases are also evaluated inside
Coq with vm_compute"): a sample of the texts of a run is evaluated by the Coq kernel's vm_compute on the model
itself and compared, inside Coq, with what the extracted OCaml executable printed for the same texts.  A
mismatch means the extracted program (or its hand-written driver) does not compute the Coq function.

Used by checks/C14.py (lex_text) and checks/C15.py (prep_text)."""
import os
import re

import vlib

HEADER = """From Coq Require Import List NArith Bool.
From TG.Gen Require Import GenTokens.
From TG.Model Require Import Chars Lexer Prep.
Import ListNotations.
Open Scope N_scope.
Definition some_b {A} (o : option A) : bool := match o with Some _ => true | None => false end.
Definition proj_lex (s : list N) : list (N * N * bool) :=
  map (fun x => match x with (k, e, a) => (tk_index k, bytes a, some_b e) end) (lex_text s).
Definition proj_prep (s : list N) : list (N * N * bool) :=
  map (fun x => match x with (k, len, e) => (tk_index k, len, some_b e) end) (prep_text s).
"""


def _triples(line):
    """`kind:len:err kind:len:err ...` (model driver output) -> [(kind, len, has_err)]"""
    out = []
    for w in line.split():
        k, n, e = w.split(":", 2)
        out.append((int(k), int(n), e != "-"))
    return out


def _coq_list(xs, f):
    return "[" + "; ".join(f(x) for x in xs) + "]"


def crosscheck(kind, texts, model_lines, tag):
    """kind: 'lex' | 'prep'; texts: list of str; model_lines: what the extracted executable printed for them
    (stream part only).  Returns (n_cases, failure or None)."""
    cases = [(t, l) for t, l in zip(texts, model_lines) if l and not l.startswith(("MODEL", "PANIC", "OOF"))]
    if not cases:
        return 0, None
    proj = "proj_lex" if kind == "lex" else "proj_prep"
    ins = _coq_list([t for t, _ in cases], lambda t: _coq_list([ord(c) for c in t], str))
    exp = _coq_list([l for _, l in cases],
                    lambda l: _coq_list(_triples(l), lambda x: "(%d, %d, %s)" % (x[0], x[1], "true" if x[2] else "false")))
    body = HEADER + "Example extraction_agrees :\n  map %s %s\n  = %s.\nProof. vm_compute. reflexivity. Qed.\n" % (proj, ins, exp)
    d = os.path.join(vlib.CACHE, "lexprep")
    os.makedirs(d, exist_ok=True)
    name = "cases_%s_%s_%d" % (tag, vlib.sha(body)[:10], os.getpid())
    path = os.path.join(d, name + ".v")
    with open(path, "w") as f:
        f.write(body)
    cmd = ["coqc", "-noglob", "-Q", "gen", "TG.Gen", "-Q", "model", "TG.Model", path]
    try:
        with vlib.Lock("coq"):
            rc, out = vlib.sh(cmd, cwd=vlib.COQ, timeout=600)
    finally:
        for ext in (".v", ".vo", ".vok", ".vos", ".glob"):
            try:
                os.remove(os.path.join(d, name + ext))
            except OSError:
                pass
    if rc == 0:
        return len(cases), None
    err = re.sub(r"\s+", " ", out)[-700:]
    return len(cases), {"kind": "correspondence",
                        "file": "extraction cross-check (%s): vm_compute of the Coq model vs the extracted executable on %d sampled texts" % (kind, len(cases)),
                        "error": err}
