"""Known deltas between the documented grammar (syntax.md + rule comments) and the parser, as grammar edits.

ACCEPT: the parser accepts (zero errors) token sequences that are NOT derivable from the documented grammar even with the
        trailing-separator allowance.  Each entry enlarges the grammar against which "zero errors => sentence" is stated
        (docG_sound = docG_trail + all ACCEPT edits), so that a NEW delta is still reported.
REJECT: the parser reports an error on sequences that ARE derivable.  Each entry restricts the grammar whose sentences must
        parse with zero errors (docG_must = docG + all REJECT edits).
Every entry has a `key` (matched against known_findings.txt `key=` tokens), a description and an example input.
The edits are EBNF text in the syntax of syntax.md (`@Kind` = one token kind)."""

ACCEPT = [
    {"key": "accepts:string-concatenation",
     "what": 'String ::= STRING is documented as one token; the parser takes a run of adjacent string literals',
     "example": 'include "a" "b"',
     "edits": [("String", 'STRING+')]},
    {"key": "accepts:slice-element-second-value",
     "what": 'SliceElement ::= ... | Value Integer is documented; the parser takes any second Value (`x[a b]`)',
     "example": 'defvar v = x[a b];',
     "edits": [("SliceElement", 'Value | Value "..." Value | Value "-" Value | Value Integer | Value Value')]},
    {"key": "accepts:empty-value-list",
     "what": 'ValueList ::= Value ( "," Value )* is documented as non-empty; the parser accepts `[]`, `{}` and `!op()`',
     "example": 'defvar v = [];',
     "edits": [("ValueList_Trail", '( Value ( "," Value )* ","? )?')]},
    {"key": "accepts:empty-template-arg-list",
     "what": 'TemplateArgList is documented as non-empty; the parser accepts `class A<>;`',
     "example": 'class A<>;',
     "edits": [("TemplateArgList", '"<" ( TemplateArgDecl ( "," TemplateArgDecl )* ","? )? ">"')]},
    {"key": "accepts:empty-cond-clause-list",
     "what": 'CondOperator is documented with at least one clause; the parser accepts `!cond()`',
     "example": 'defvar v = !cond();',
     "edits": [("CondOperator", 'CONDOP "(" ( CondClause ( "," CondClause )* ","? )? ")"')]},
    {"key": "accepts:code-type-everywhere",
     "what": 'CodeType ("code") is documented only in FieldDef; the parser accepts it wherever a Type is expected',
     "example": 'class A<code c>;',
     "edits": [("Type", 'BitType | IntType | StringType | DagType | BitsType | ListType | ClassId | CodeType')]},
    {"key": "accepts:dagarg-without-name",
     "what": 'DagArg ::= Value ( ":" VARNAME ) | VARNAME documents the name as mandatory; the parser makes `: $name` optional',
     "example": 'defvar v = (op 1, 2);',
     "edits": [("DagArg", 'Value ( ":" VARNAME )? | VARNAME')]},
    {"key": "accepts:list-element-type-suffix",
     "what": 'List ::= "[" ValueList "]" is documented; the parser also accepts a `<Type>` suffix (`[1]<int>`)',
     "example": 'defvar v = [1]<int>;',
     "edits": [("List", '"[" ValueList_Trail "]" ( "<" Type ">" )?')]},
]

REJECT = [
    {"key": "rejects:name-value-brace",
     "what": 'Def/Defm ::= .. Value? ..: in a def/defm name the parser never reads `{` as part of the value '
             '(no leading Bits, no RangeSuffix), so `def a{0};` and `def {1};` get errors',
     "example": 'def a{0};',
     "edits": [("Def", '"def" NameValue? RecordBody'), ("Defm", '"defm" NameValue? ParentClassList ";"'),
               ("NameValue", 'NameInner0 ( "#" NameInner )*'),
               ("NameInner0", 'SimpleValueNoBits NameSuffix*'), ("NameInner", 'SimpleValue NameSuffix*'),
               ("NameSuffix", 'SliceSuffix | FieldSuffix'),
               ("SimpleValueNoBits", 'Integer | String | Code | Boolean | Uninitialized | List | Dag | Identifier | ClassValue | BangOperator | CondOperator')]},
    {"key": "rejects:foreach-init-lookahead",
     "what": 'ForeachIteratorInit ::= "{" RangeList "}" | RangePiece | Value: the parser commits on the first token '
             '(`{` => range list, decimal integer => range piece), so a Value starting with `{` or a decimal integer is rejected',
     "example": 'foreach i = {a} in def X;',
     "edits": [("ForeachIteratorInit", '"{" RangeList "}" | RangePieceDec | ForeachValue'),
               ("RangePieceDec", '@IntVal | @IntVal "..." Integer | @IntVal "-" Integer | @IntVal @IntVal'),
               ("ForeachValue", 'ForeachInner0 ( "#" InnerValue )*'), ("ForeachInner0", 'SimpleValueFE ValueSuffix*'),
               ("SimpleValueFE", '@BinaryIntVal | String | Code | Boolean | Uninitialized | List | Dag | Identifier | ClassValue | BangOperator | CondOperator')]},
    {"key": "rejects:range-piece-second-binary",
     "what": 'RangePiece ::= ... | Integer Integer: the parser takes the second integer only when it is a decimal literal',
     "example": 'defvar v = x{1 0b1};',
     "edits": [("RangePiece", 'Integer | Integer "..." Integer | Integer "-" Integer | Integer @IntVal')]},
    {"key": "rejects:dag-operator",
     "what": 'Dag ::= ( DagArg DagArgList? ): the parser requires the operator to start with an identifier, `?`, !cast or !getdagop',
     "example": 'defvar v = (1:$a);',
     "edits": [("Dag", '"(" DagOperator DagArgList? ")"'), ("DagOperator", 'DagOpValue ":" VARNAME'),
               ("DagOpValue", 'DagOpInner ( "#" InnerValue )*'), ("DagOpInner", 'DagOpSimple ValueSuffix*'),
               ("DagOpSimple", 'Identifier | ClassValue | Uninitialized | CastOperator | GetDagOpOperator'),
               ("CastOperator", '@XCast ( "<" Type ">" )? "(" ValueList ")"'),
               ("GetDagOpOperator", '@XGetDagOp ( "<" Type ">" )? "(" ValueList ")"')]},
    {"key": "rejects:positional-after-named",
     "what": 'ArgValueList ::= ( ArgValue ( "," ArgValue )* )?: the parser reports a positional argument after a named one',
     "example": 'def d : A<x = 1, 2>;',
     "edits": [("ArgValueList", '( PositionalArgValue ( "," PositionalArgValue )* ( "," NamedArgValue )* | NamedArgValue ( "," NamedArgValue )* )?')]},
]
