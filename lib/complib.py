"""Helpers of the C20 check (completion vocabulary): workspace generator with a known class table,
runners for the harness observers and the extracted completion model, independent snippet reader."""
import json
import os
import re
import subprocess
import sys

sys.path.insert(0, os.path.dirname(os.path.abspath(__file__)))
import vlib
import treeio


def codes(s):
    return ",".join(str(ord(c)) for c in s) if s else "-"


def uncodes(f):
    return "" if f == "-" else "".join(chr(int(x)) for x in f.split(","))


def run_json(exe, cases, args=(), timeout=900):
    p = subprocess.run([exe] + list(args), input=json.dumps(cases), capture_output=True, text=True, timeout=timeout)
    if p.returncode != 0:
        raise vlib.BuildError("%s failed: %s" % (os.path.basename(exe), p.stderr[-2000:]))
    return json.loads(p.stdout)


def run_model(exe, cmd, lines, timeout=900):
    inp = "\n".join(lines) + ("\n" if lines else "")
    p = subprocess.run(["bash", "-c", 'ulimit -s unlimited 2>/dev/null; exec "$0" "$1"', exe, cmd],
                       input=inp, capture_output=True, text=True, timeout=timeout)
    if p.returncode != 0:
        raise vlib.BuildError("compl_run %s failed: %s" % (cmd, p.stderr[-2000:]))
    out = p.stdout.split("\n")
    if out and out[-1] == "":
        out.pop()
    return out


# ----------------------------------------------------------------------------------------------
# independent reading of an LSP snippet: tab stops `$n` / `${n}` (also `${n:default}`), `\$` escapes

TABSTOP = re.compile(r"\\.|\$\{(\d+)(?::[^}]*)?\}|\$(\d+)")


def snippet_tabstops(s):
    out = []
    for m in TABSTOP.finditer(s):
        if m.group(0).startswith("\\"):
            continue
        out.append(int(m.group(1) or m.group(2)))
    return out


# ----------------------------------------------------------------------------------------------
# workspace generator.  Every generated program is well formed w.r.t. syntax.md; the generator records
# the class table (name -> number of template parameters of the LAST declaration in include order)
# and nothing else is assumed about the implementation.

TYPES = ["int", "bit", "string", "dag", "code", "bits<4>", "list<int>", "list<string>"]
VALUES = ["1", "0b101", '"s"', "true", "false", "?", "[1, 2]", "!add(1, 2)", "{1, 0}", "[{ code }]"]


class Gen:
    def __init__(self, rng):
        self.rng = rng
        self.n = 0

    def fresh(self, pre):
        self.n += 1
        return "%s%d" % (pre, self.n)

    def params(self, k):
        ps = []
        for i in range(k):
            ty = self.rng.choice(TYPES[:4] + ["bits<2>", "list<int>"])
            dflt = ""
            if self.rng.random() < 0.4:
                dflt = " = " + self.rng.choice({
                    "int": ["1", "!add(1, 2)", "!cond(1: 1, true: 2)", "!if(1, 2, 3)", "!cond(!lt(1, 2): 3, true: 4)"],
                    "bit": ["true", "!eq(1, 2)", "!cond(1: true, true: false)"],
                    "string": ['"d"', '!strconcat("a", "b")', '!cond(1: "x", true: "y")'],
                    "dag": ["(op 1)"], "bits<2>": ["{1, 0}", "?"], "list<int>": ["[1]", "[]", "!cond(1: [1], true: [2])"]}.get(ty, ["?"]))
            ps.append("%s p%d%s" % (ty, i, dflt))
        return "<" + ", ".join(ps) + ">" if ps else ""

    def args_for(self, n):
        if n == 0:
            return "" if self.rng.random() < 0.7 else "<>"
        return "<" + ", ".join(self.rng.choice(["1", "2", "0"]) for _ in range(n)) + ">"

    def parents(self, known, maxp=2):
        """known: list of (name, ntargs) usable as parents"""
        if not known or self.rng.random() < 0.25:
            return ""
        k = self.rng.randint(1, min(maxp, len(known)))
        ps = self.rng.sample(known, k)
        return " : " + ", ".join(nm + self.args_for(n) for nm, n in ps)

    def body(self, known):
        r = self.rng.random()
        if r < 0.4:
            return ";"
        items = []
        for _ in range(self.rng.randint(0, 3)):
            c = self.rng.random()
            if c < 0.6:
                ty = self.rng.choice(TYPES + ([self.rng.choice(known)[0]] if known else []))
                val = ""
                if ty in ("int", "bit", "string") and self.rng.random() < 0.6:
                    val = " = " + {"int": "1", "bit": "true", "string": '"x"'}[ty]
                items.append("%s %s%s;" % (ty, self.fresh("f"), val))
            elif c < 0.8:
                items.append("defvar %s = %s;" % (self.fresh("v"), self.rng.choice(VALUES)))
            else:
                items.append('assert 1, "m";')
        return " { " + " ".join(items) + " }" if items else " { }"

    def class_stmt(self, known, table, name=None):
        name = name or self.fresh("C")
        known = [x for x in known if x[0] != name]
        k = self.rng.choice([0, 0, 1, 1, 2, 3, 5, 11])
        s = "class %s%s%s%s" % (name, self.params(k), self.parents(known), self.body(known))
        table[name] = k
        return s

    def stmt(self, known, table, depth=0):
        r = self.rng.random()
        kn = list(known)
        if r < 0.35:
            s = self.class_stmt(kn, table)
            known[:] = [(n, table[n]) for n in table]
            return s
        if r < 0.55:
            return "def %s%s%s" % (self.fresh("D"), self.parents(kn), self.body(kn))
        if r < 0.62:
            return "defvar %s = %s;" % (self.fresh("g"), self.rng.choice(VALUES))
        if r < 0.70 and kn:
            mc = self.fresh("M")
            inner = "def %s%s;" % (self.fresh("X"), self.parents(kn))
            return "multiclass %s%s { %s }" % (mc, self.params(self.rng.choice([0, 1, 2])), inner)
        if r < 0.80 and depth < 2:
            inner = " ".join(self.stmt(known, table, depth + 1) for _ in range(self.rng.randint(1, 2)))
            return "let %s = 1 in { %s }" % (self.fresh("l"), inner)
        if r < 0.87 and depth < 2:
            return "foreach %s = [1, 2] in def %s%s;" % (self.fresh("i"), self.fresh("E"), self.parents(kn))
        if r < 0.93 and depth < 2:
            return "if 1 then { %s }" % self.stmt(known, table, depth + 1)
        if kn:
            nm, n = self.rng.choice(kn)     # re-declaration of an existing class (forward declaration / redefinition)
            s = self.class_stmt(kn, table, name=nm)
            known[:] = [(x, table[x]) for x in table]
            return s
        return 'dump "m";'

    def workspace(self, nfiles=None, nstmts=None):
        """returns (files [[path, text]], root, class table {name: ntargs}, unreachable classes)"""
        nfiles = nfiles or self.rng.choice([1, 1, 2, 3])
        table, known = {}, []
        files = []
        # included files first in index order: root includes f1, f2 at its top, so their classes are indexed first
        texts = {}
        order = ["f%d.td" % i for i in range(1, nfiles)] + ["root.td"]
        for p in order:
            parts = []
            if p == "root.td":
                for q in order[:-1]:
                    parts.append('include "%s"' % q)
            for _ in range(nstmts or self.rng.randint(1, 5)):
                parts.append(self.stmt(known, table))
            sep = self.rng.choice(["\n", "\n\n", " "])
            # non-ASCII text before everything else in a quarter of the files (byte offsets != character indices)
            pre = self.rng.choice(["", "", "", "// caf\u00e9 \u65e5\u672c\n", "/* \U0001F600 */ "])
            texts[p] = pre + sep.join(parts) + self.rng.choice(["", "\n"])
        files = [[p, texts[p]] for p in order]
        # a file that is NOT included: its classes are not classes of the workspace
        outside = {}
        if self.rng.random() < 0.4:
            g2 = Gen(self.rng)
            g2.n = 1000 + self.n
            t2, k2 = {}, []
            files.append(["unused.td", "\n".join(g2.stmt(k2, t2) for _ in range(2))])
            outside = {k: v for k, v in t2.items() if k not in table}
        return files, "root.td", table, outside


# ----------------------------------------------------------------------------------------------
# tree helpers (parsedump tree = ["N", kind, lo, hi, [children]] | ["T", kind, lo, hi])

def leaves_with_ancestors(tree):
    out = []

    def go(n, anc):
        if n[0] == "T":
            out.append((n[1], n[2], n[3], anc))
        else:
            for c in n[4]:
                go(c, [n[1]] + anc)
    go(tree, [])
    return out


def token_left_of(leaves, off):
    """rowan token_at_offset(off).left_biased(): first non-empty leaf whose [lo, hi] contains off"""
    for k, lo, hi, anc in leaves:
        if hi > lo and lo <= off <= hi:
            return k, lo, hi, anc
    return None


def expand_runs(runs, offsets):
    """idedump run-length compressed per-offset entries -> dict off -> entry"""
    res, cur, i = {}, None, 0
    runs = sorted(runs, key=lambda r: r["o"])
    for o in offsets:
        while i < len(runs) and runs[i]["o"] <= o:
            cur = runs[i]
            i += 1
        res[o] = cur
    return res


# ----------------------------------------------------------------------------------------------
# symbol-map op log (hook H3, `ide::symbol_map::verif_take_oplog()`) -> token form read by `compl_run symcomp`
# (same line format as the C06/C18 groups use; the `Type` strings are irrelevant for completion and sent empty)

def encode_op(line):
    p = line.split("\t")
    k = p[0]
    if k == "add_record":
        return ["AR", codes(p[1]), "C" if p[2] == "Class" else "D", p[3], p[4], p[5], p[6], p[7]]
    if k == "add_anonymous_def":
        return ["AAD", codes(p[1]), p[2], p[3], p[4], p[5]]
    if k == "add_template_argument":
        return ["ATA", codes(p[1]), "-", p[2], p[3], p[4], p[5]]
    if k == "add_record_field":
        return ["ARF", codes(p[1]), "-", p[2], p[3], p[4], p[5], p[6]]
    if k == "add_variable":
        return ["AV", codes(p[1]), "-", p[2], p[3], p[4], p[5]]
    if k == "add_defset":
        return ["ADS", codes(p[1]), "-", p[2], p[3], p[4], p[5]]
    if k == "add_multiclass":
        return ["AMC", codes(p[1]), p[2], p[3], p[4], p[5]]
    if k == "add_defm":
        return ["ADM", codes(p[1]), p[2], p[3], p[4], p[5], p[6]]
    if k == "add_anonymous_defm":
        return ["AADM", codes(p[1]), p[2], p[3], p[4], p[5]]
    if k == "add_reference":
        return ["REF", p[1], p[2], p[3], p[4], p[5]]
    simple = {"record_mut": "RM", "defset_mut": "DSM", "multiclass_mut": "MCM", "defm_mut": "DMM", "record.add_parent": "RP",
              "defset.add_def": "DAD", "multiclass.add_parent": "MP", "defm.add_parent": "DMP"}
    if k in simple:
        return [simple[k], p[1]]
    named = {"record.add_template_arg": "RTA", "record.add_record_field": "RF", "multiclass.add_template_arg": "MTA"}
    if k in named:
        return [named[k], codes(p[1]), p[2]]
    if k == "error":
        return ["ERR", p[1], p[2], p[3]]
    raise ValueError("unknown op-log line: %r" % line)


def parse_items(part):
    """`NONE` | `ITEMS item ..` of compl_run -> None | [[label, snippet|None, kind], ...]"""
    part = part.strip()
    if part == "NONE":
        return None
    out = []
    for it in part.split()[1:]:
        l, s, k = it.split("|")
        out.append([uncodes(l), None if s == "null" else uncodes(s), k])
    return out
