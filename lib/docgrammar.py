"""The documented TableGen grammar of the repository (syntax.md, extended by the `// Rule ::= ...` comments of
crates/syntax/src/grammar/*.rs) as data, the grammars derived from it, an independent Earley recogniser over
token kinds and a sentence generator.  Used by tools/translate/t_docgrammar.py (-> GenDocGrammar.v) and by
checks/C04.py.  Nothing here looks at the parser's code.

Regular right-hand sides:  ("lit", text) | ("term", NAME) | ("nt", Name) | ("seq", [..]) | ("alt", [..])
                           | ("star", x) | ("plus", x) | ("opt", x) | ("group", x)   (group = explicit parentheses)
"""
import re

TERMINALS = {"INT": ["IntVal", "BinaryIntVal"], "STRING": ["StrVal"], "CODE": ["CodeFragment"], "ID": ["Id"],
             "VARNAME": ["VarName"], "BANGOP": None, "CONDOP": None}   # None: filled from token_kind.rs (is_bang / is_cond)
OPEN = {"<": ">", "[": "]", "{": "}", "(": ")"}


class GrammarError(Exception):
    pass


# ------------------------------------------------------------------------------------------------ EBNF reader

TOK = re.compile(r'\s*(?:"((?:[^"\\]|\\.)*)"|([A-Za-z_][A-Za-z0-9_]*(?:\([A-Za-z]+\))?)|(::=|:=)|([()?*+|;])|@([A-Za-z0-9_]+))')


def tokenize(s, where):
    out, i = [], 0
    s = s.rstrip()
    while i < len(s):
        m = TOK.match(s, i)
        if not m:
            raise GrammarError("%s: cannot read EBNF near %r" % (where, s[i:i + 30]))
        if m.group(1) is not None:
            out.append(("lit", m.group(1)))
        elif m.group(2) is not None:
            out.append(("id", m.group(2)))
        elif m.group(3) is not None:
            out.append(("def", m.group(3)))
        elif m.group(5) is not None:
            out.append(("kind", m.group(5)))       # `@Kind`: one token kind (only used by the delta edits, never by the documents)
        else:
            out.append(("op", m.group(4)))
        i = m.end()
    return out


def parse_rule(line, where):
    """`Name ::= rhs` -> (name, rhs) ; a trailing bare `;` is a terminator"""
    toks = tokenize(line, where)
    if len(toks) < 3 or toks[0][0] != "id" or toks[1][0] != "def":
        raise GrammarError("%s: not a rule: %r" % (where, line))
    name = toks[0][1].replace("(", "_").replace(")", "")
    body = toks[2:]
    if body and body[-1] == ("op", ";"):
        body = body[:-1]
    pos = [0]

    def peek():
        return body[pos[0]] if pos[0] < len(body) else None

    def alt():
        items = [seq()]
        while peek() == ("op", "|"):
            pos[0] += 1
            items.append(seq())
        return items[0] if len(items) == 1 else ("alt", items)

    def seq():
        items = []
        while peek() is not None and peek() not in (("op", "|"), ("op", ")")):
            items.append(postfix())
        if not items:
            return ("seq", [])
        return items[0] if len(items) == 1 else ("seq", items)

    def postfix():
        t = peek()
        pos[0] += 1
        if t[0] == "lit":
            x = ("lit", t[1])
        elif t[0] == "kind":
            x = ("kind", t[1])
        elif t[0] == "id":
            nm = t[1].replace("(", "_").replace(")", "")
            x = ("term", nm) if nm in TERMINALS else ("nt", nm)
        elif t == ("op", "("):
            inner = alt()
            if peek() != ("op", ")"):
                raise GrammarError("%s: unbalanced parenthesis in %r" % (where, line))
            pos[0] += 1
            x = ("group", inner)
        else:
            raise GrammarError("%s: unexpected %r in %r" % (where, t[1], line))
        while peek() in (("op", "?"), ("op", "*"), ("op", "+")):
            op = peek()[1]
            pos[0] += 1
            x = ({"?": "opt", "*": "star", "+": "plus"}[op], x)
        return x
    r = alt()
    if pos[0] != len(body):
        raise GrammarError("%s: trailing input in %r" % (where, line))
    return name, r


def strip_groups(r):
    k = r[0]
    if k == "group":
        return strip_groups(r[1])
    if k in ("seq", "alt"):
        items = [strip_groups(x) for x in r[1]]
        flat = []
        for x in items:
            if x[0] == k:
                flat += x[1]
            else:
                flat.append(x)
        return (k, flat) if len(flat) != 1 else flat[0]
    if k in ("star", "plus", "opt"):
        return (k, strip_groups(r[1]))
    return r


def nts_of(r, acc=None):
    acc = set() if acc is None else acc
    if r[0] == "nt":
        acc.add(r[1])
    elif r[0] in ("seq", "alt"):
        for x in r[1]:
            nts_of(x, acc)
    elif r[0] in ("star", "plus", "opt", "group"):
        nts_of(r[1], acc)
    return acc


def rename_nts(r, mp):
    k = r[0]
    if k == "nt":
        return ("nt", mp.get(r[1], r[1]))
    if k in ("seq", "alt"):
        return (k, [rename_nts(x, mp) for x in r[1]])
    if k in ("star", "plus", "opt", "group"):
        return (k, rename_nts(r[1], mp))
    return r


def read_documented(repo):
    """returns dict: rules (name -> rhs, groups stripped), order, notes (list of strings: every place where the two
    sources were reconciled), sources (name -> list of (where, text))"""
    notes, sources = [], {}
    md, order = {}, []
    for ln, line in enumerate(open(repo + "/syntax.md", encoding="utf-8").read().split("\n"), 1):
        if not line.strip():
            continue
        name, rhs = parse_rule(line, "syntax.md:%d" % ln)
        if name in md:
            raise GrammarError("syntax.md:%d: duplicate rule %s" % (ln, name))
        md[name] = rhs
        order.append(name)
        sources.setdefault(name, []).append(("syntax.md:%d" % ln, line.strip()))
    com = {}
    for f in ("grammar.rs", "grammar/statement.rs", "grammar/value.rs", "grammar/type.rs"):
        path = repo + "/crates/syntax/src/" + f
        for ln, line in enumerate(open(path, encoding="utf-8").read().split("\n"), 1):
            m = re.match(r"\s*//\s*([A-Za-z_][A-Za-z0-9_]*(?:\([A-Za-z]+\))?\s*:?:=.*)$", line)
            if not m:
                continue
            name, rhs = parse_rule(m.group(1), "%s:%d" % (f, ln))
            com.setdefault(name, []).append((rhs, "%s:%d" % (f, ln), m.group(1).strip()))
            sources.setdefault(name, []).append(("%s:%d" % (f, ln), m.group(1).strip()))
    defined = set(md) | set(com)

    def repair(r, where):
        mp = {}
        for n in nts_of(r):
            if n not in defined:
                cands = [d for d in defined if d.lower() == n.lower()]
                if len(cands) == 1:
                    mp[n] = cands[0]
                    notes.append("%s: undefined nonterminal %s read as %s (case)" % (where, n, cands[0]))
        return rename_nts(r, mp)

    def outer_group_literal(name, r, where):
        # an outermost group spanning the whole right-hand side is redundant as grouping: read as literal parentheses
        if r[0] == "group":
            notes.append("%s: rule %s is one parenthesised group: the parentheses are read as the literal tokens \"(\" \")\"" % (where, name))
            return ("seq", [("lit", "("), r[1], ("lit", ")")])
        return r
    rules = {}
    for name in order:
        r = outer_group_literal(name, repair(md[name], "syntax.md rule " + name), "syntax.md")
        rules[name] = strip_groups(r)
    for name, lst in com.items():
        for rhs, where, text in lst:
            r = strip_groups(outer_group_literal(name, repair(rhs, where), where))
            undef = [n for n in nts_of(r) if n not in defined]
            if undef:
                notes.append("%s: rule comment for %s mentions undefined %s: comment ignored" % (where, name, ", ".join(sorted(undef))))
                continue
            if name not in rules:
                rules[name] = r
                order.append(name)
                notes.append("%s: rule %s exists only as a rule comment: added" % (where, name))
            elif rules[name] != r:
                old = rules[name]
                alts = (old[1] if old[0] == "alt" else [old]) + [x for x in (r[1] if r[0] == "alt" else [r])
                                                                 if x not in (old[1] if old[0] == "alt" else [old])]
                rules[name] = ("alt", alts)
                notes.append("%s: rule comment for %s differs from syntax.md: union of both (%s)" % (where, name, text))
    for name, r in rules.items():
        undef = [n for n in nts_of(r) if n not in rules]
        if undef:
            raise GrammarError("documented rule %s mentions undefined nonterminal(s) %s" % (name, undef))
    if "SourceFile" not in rules:
        raise GrammarError("documented grammar has no SourceFile rule")
    return {"rules": rules, "order": order, "notes": notes, "sources": sources}


# ------------------------------------------------------------------------------------------------ transforms

def is_sep_list(r):
    """X ( sep X )*  ->  (X, sep) else None"""
    if r[0] == "seq" and len(r[1]) == 2 and r[1][1][0] == "star":
        x, st = r[1][0], r[1][1][1]
        if st[0] == "seq" and len(st[1]) == 2 and st[1][0][0] == "lit" and st[1][1] == x:
            return x, st[1][0]
    return None


def trailing_transform(rules):
    """The property allows a trailing separator in bracketed lists.  Returns (new rules, list of places).
    A separated list `X ( "," X )*` (inline, or the whole right-hand side of a nonterminal, possibly optional) that stands
    immediately before a closing bracket literal whose opening bracket occurs earlier in the same sequence gets `","?`."""
    new = dict(rules)
    places = []
    variants = {}

    def list_variant(nt):
        if nt in variants:
            return variants[nt]
        r = rules[nt]
        inner = r[1] if r[0] == "opt" else r
        sl = is_sep_list(inner)
        if not sl:
            variants[nt] = None
            return None
        x, sep = sl
        v = ("seq", [inner, ("opt", sep)])
        if r[0] == "opt":
            v = ("opt", v)
        name = nt + "_Trail"
        new[name] = v
        variants[nt] = name
        return name

    def walk(r, owner):
        k = r[0]
        if k == "seq":
            items = [walk(x, owner) for x in r[1]]
            opened = []
            i = -1
            while i + 1 < len(items):
                i += 1
                x = items[i]
                if x[0] == "lit" and x[1] in OPEN:
                    opened.append(OPEN[x[1]])
                if x[0] == "lit" and x[1] in opened and i > 0:
                    prev = items[i - 1]
                    core = prev[1] if prev[0] == "opt" else prev
                    done = False
                    sl = is_sep_list(core)
                    if sl:
                        nv = ("seq", [core, ("opt", sl[1])])
                        items[i - 1] = ("opt", nv) if prev[0] == "opt" else nv
                        done = True
                    elif core[0] == "nt":
                        vn = list_variant(core[1])
                        if vn:
                            items[i - 1] = ("opt", ("nt", vn)) if prev[0] == "opt" else ("nt", vn)
                            done = True
                    if not done and i > 1 and prev[0] == "star":
                        st, x0 = prev[1], items[i - 2]
                        if st[0] == "seq" and len(st[1]) == 2 and st[1][0][0] == "lit" and st[1][1] == x0:
                            items.insert(i, ("opt", st[1][0]))
                            done = True
                    if done:
                        places.append("%s: list before %r" % (owner, x[1]))
            return ("seq", items)
        if k == "alt":
            return ("alt", [walk(x, owner) for x in r[1]])
        if k in ("star", "plus", "opt"):
            return (k, walk(r[1], owner))
        return r
    for name in list(rules):
        new[name] = walk(rules[name], name)
    return new, places


# ------------------------------------------------------------------------------------------------ CFG + Earley

class CFG:
    """plain context-free grammar over token-kind sets: productions nt -> [symbols], symbol = ("N", name) | ("T", frozenset(kinds))"""

    def __init__(self, rules, start, lit_kind, term_kinds):
        self.prods = {}
        self.start = start
        self.n = 0
        self.lit_kind = lit_kind
        self.term_kinds = term_kinds
        for name, r in rules.items():
            self.prods.setdefault(name, [])
            for alt in self.alts(r):
                self.prods[name].append(self.seq(alt, name))
        self._nullable()

    def fresh(self, owner):
        self.n += 1
        return "%s#%d" % (owner, self.n)

    @staticmethod
    def alts(r):
        return r[1] if r[0] == "alt" else [r]

    def seq(self, r, owner):
        items = r[1] if r[0] == "seq" else [r]
        return [self.sym(x, owner) for x in items]

    def sym(self, r, owner):
        k = r[0]
        if k == "lit":
            return ("T", frozenset([self.lit_kind(r[1])]))
        if k == "term":
            return ("T", frozenset(self.term_kinds[r[1]]))
        if k == "kind":
            return ("T", frozenset([r[1]]))
        if k == "nt":
            return ("N", r[1])
        f = self.fresh(owner)
        if k in ("seq", "alt"):
            self.prods[f] = [self.seq(a, owner) for a in self.alts(r)]
        elif k == "opt":
            self.prods[f] = [[]] + [self.seq(a, owner) for a in self.alts(r[1])]
        elif k == "star":
            g = self.fresh(owner)
            self.prods[g] = [self.seq(a, owner) for a in self.alts(r[1])]
            self.prods[f] = [[], [("N", g), ("N", f)]]
        elif k == "plus":
            g = self.fresh(owner)
            self.prods[g] = [self.seq(a, owner) for a in self.alts(r[1])]
            self.prods[f] = [[("N", g)], [("N", g), ("N", f)]]
        else:
            raise GrammarError("bad regex node %r" % (k,))
        return ("N", f)

    def _nullable(self):
        nul = set()
        changed = True
        while changed:
            changed = False
            for a, ps in self.prods.items():
                if a not in nul and any(all(s[0] == "N" and s[1] in nul for s in p) for p in ps):
                    nul.add(a)
                    changed = True
        self.nullable = nul

    def recognise(self, kinds, start=None):
        """Earley recogniser (Aycock-Horspool nullable handling).  kinds: list of token-kind names."""
        start = start or self.start
        n = len(kinds)
        prods = self.prods
        chart = [dict() for _ in range(n + 1)]     # item (nt, pi, dot, origin) -> True
        order = [[] for _ in range(n + 1)]

        def add(i, it):
            if it not in chart[i]:
                chart[i][it] = True
                order[i].append(it)
        for pi in range(len(prods[start])):
            add(0, (start, pi, 0, 0))
        for i in range(n + 1):
            j = 0
            while j < len(order[i]):
                nt, pi, dot, org = order[i][j]
                j += 1
                p = prods[nt][pi]
                if dot < len(p):
                    s = p[dot]
                    if s[0] == "N":
                        for qi in range(len(prods[s[1]])):
                            add(i, (s[1], qi, 0, i))
                        if s[1] in self.nullable:
                            add(i, (nt, pi, dot + 1, org))
                    elif i < n and kinds[i] in s[1]:
                        add(i + 1, (nt, pi, dot + 1, org))
                else:
                    for (nt2, pi2, dot2, org2) in list(order[org]):
                        p2 = prods[nt2][pi2]
                        if dot2 < len(p2) and p2[dot2] == ("N", nt):
                            add(i, (nt2, pi2, dot2 + 1, org2))
        return any(nt == start and dot == len(prods[nt][pi]) and org == 0 for (nt, pi, dot, org) in chart[n])


# ------------------------------------------------------------------------------------------------ grammar edits (known deltas)

def apply_edits(rules, edits):
    """edits: list of (nonterminal, new right-hand side as EBNF text) replacing / adding rules"""
    new = dict(rules)
    for nt, text in edits:
        name, r = parse_rule("%s ::= %s" % (nt, text), "delta")
        new[name] = strip_groups(r)
    return new


# ------------------------------------------------------------------------------------------------ generation

def min_lengths(rules):
    INF = 10 ** 9
    ml = {n: INF for n in rules}

    def mlen(r):
        k = r[0]
        if k in ("lit", "term", "kind"):
            return 1
        if k == "nt":
            return ml[r[1]]
        if k == "seq":
            return min(INF, sum(mlen(x) for x in r[1]))
        if k == "alt":
            return min(mlen(x) for x in r[1])
        if k in ("star", "opt"):
            return 0
        if k == "plus":
            return mlen(r[1])
        return INF
    changed = True
    while changed:
        changed = False
        for n, r in rules.items():
            v = mlen(r)
            if v < ml[n]:
                ml[n] = v
                changed = True
    return ml, mlen


class SentenceGen:
    """random derivations of a regex grammar with a size budget; records which (nonterminal, alternative) were used"""

    def __init__(self, rules, rng, lexeme_of_lit, lexeme_of_term):
        self.rules = rules
        self.rng = rng
        self.ml, self.mlen = min_lengths(rules)
        self.lit = lexeme_of_lit
        self.term = lexeme_of_term
        self.used = set()
        self._dcache = {}

    def gen(self, start, budget, force=None):
        """returns list of (kind, lexeme).  force = (nt, alt index) to be taken at its first opportunity."""
        self.force = force
        self.forced_done = force is None
        out = []
        self._g(("nt", start), budget, out, start)
        return out

    def _g(self, r, budget, out, owner):
        k = r[0]
        if k == "lit":
            out.append(self.lit(r[1]))
        elif k == "term":
            out.append(self.term(r[1], self.rng))
        elif k == "kind":
            out.append(self.term("@" + r[1], self.rng))
        elif k == "nt":
            rr = self.rules[r[1]]
            if rr[0] == "alt":
                self._alt(rr, budget, out, r[1])
            else:
                self.used.add((r[1], 0))
                if not self.forced_done and r[1] == self.force[0]:
                    self.forced_done = True
                self._g(rr, budget, out, r[1])
        elif k == "seq":
            need = [self.mlen(x) for x in r[1]]
            spare = max(0, budget - sum(need))
            carrier = None
            if not self.forced_done:
                ds = [(self._dist(x), i) for i, x in enumerate(r[1]) if self._dist(x) is not None]
                if ds:
                    best = min(d for d, _ in ds)
                    carrier = self.rng.choice([i for d, i in ds if d == best])
            for i, (x, m) in enumerate(zip(r[1], need)):
                give = self.rng.randint(0, spare) if spare > 0 else 0
                before = len(out)
                if not self.forced_done and carrier is not None and i != carrier:
                    # only the chosen element carries the forced alternative; the others are generated freely
                    self.forced_done = True
                    self._g(x, m + give, out, owner)
                    self.forced_done = False
                else:
                    self._g(x, m + give, out, owner)
                spare = max(0, spare - max(0, (len(out) - before) - m))
        elif k == "alt":
            self._alt(r, budget, out, None)
        elif k == "opt":
            m = self.mlen(r[1])
            if (not self.forced_done and self._contains_force(r[1])) or (budget >= m and self.rng.random() < 0.5):
                self._g(r[1], budget, out, owner)
        elif k in ("star", "plus"):
            m = max(1, self.mlen(r[1]))
            cnt = 1 if k == "plus" else 0
            want = self.rng.choice([0, 0, 1, 1, 2, 3])
            reps = max(cnt, min(want, budget // m if m else want))
            if not self.forced_done and self._contains_force(r[1]):
                reps = max(reps, 1)
            for _ in range(reps):
                self._g(r[1], max(m, budget // max(1, reps)), out, owner)

    def _dist(self, r):
        """minimal number of nonterminal expansions from regex r to the forced nonterminal (None = unreachable)"""
        if self.force is None:
            return None
        tgt = self.force[0]
        if tgt not in self._dcache:
            INF = 10 ** 9
            d = {n: INF for n in self.rules}
            d[tgt] = 0
            changed = True
            while changed:
                changed = False
                for n, rr in self.rules.items():
                    if n == tgt:
                        continue
                    v = min([d[m] + 1 for m in nts_of(rr)] + [INF])
                    if v < d[n]:
                        d[n] = v
                        changed = True
            self._dcache[tgt] = d
        d = self._dcache[tgt]
        vals = [d[m] for m in nts_of(r)]
        v = min(vals) if vals else 10 ** 9
        return None if v >= 10 ** 9 else v

    def _contains_force(self, r):
        return self._dist(r) is not None

    def _alt(self, r, budget, out, nt):
        alts = r[1]
        idx = None
        if not self.forced_done and nt is not None and nt == self.force[0]:
            idx = self.force[1]
            self.forced_done = True
        elif not self.forced_done:
            ds = [(self._dist(a), i) for i, a in enumerate(alts) if self._dist(a) is not None]
            if ds:
                best = min(d for d, _ in ds)
                idx = self.rng.choice([i for d, i in ds if d == best])
        if idx is None:
            fit = [i for i, a in enumerate(alts) if self.mlen(a) <= budget]
            if not fit:
                m = min(self.mlen(a) for a in alts)
                fit = [i for i, a in enumerate(alts) if self.mlen(a) == m]
            idx = self.rng.choice(fit)
        if nt is not None:
            self.used.add((nt, idx))
        self._g(alts[idx], budget, out, nt)
