"""Serialise real parse trees (harness `parsedump` JSON + the source text) into the one-line
format the OCaml model drivers read:   ( k child child ... )   for a node of SyntaxKind index k,
[ k cp cp ... ]   for a token of SyntaxKind index k with its text as decimal code points.
Kind indices are positions in the SyntaxKind enum of the CURRENT source (tools/translate/t_tokens)."""
import os
import sys

sys.path.insert(0, os.path.join(os.path.dirname(os.path.dirname(os.path.abspath(__file__))), "tools", "translate"))


def kind_tables(repo):
    import t_tokens
    d = t_tokens.parse(repo)
    return ({k: i for i, k in enumerate(d["sks"])}, {k: i for i, k in enumerate(d["tks"])}, d)


def tree_line(node, text_bytes, sk_index):
    """node = parsedump tree (["N",kind,lo,hi,[..]] / ["T",kind,lo,hi]); text_bytes = UTF-8 bytes of the source."""
    out = []

    def go(n):
        if n[0] == "T":
            s = text_bytes[n[2]:n[3]].decode("utf-8")
            out.append("[ %d %s]" % (sk_index[n[1]], "".join("%d " % ord(c) for c in s)))
        else:
            out.append("( %d" % sk_index[n[1]])
            for c in n[4]:
                go(c)
            out.append(")")
    go(node)
    return " ".join(out)


def text_line(s):
    return " ".join(str(ord(c)) for c in s)
