"""Shared machinery for the per-property checks (see DESIGN.md section 1.4).

Everything here is offline.  A check module `checks/Cxx.py` exposes `run(ctx)`; it uses
the helpers below to (1) build the Rust harness against the *current* /repo tree,
(2) regenerate the Coq tables/programs from the current sources, (3) re-check the Coq
cone of the property, (4) run model-vs-implementation correspondence and the
implementation-side oracle, (5) write evidence and print the verdict.
"""
import hashlib
import json
import os
import random
import re
import shutil
import subprocess
import sys
import time

VERIF = os.path.dirname(os.path.dirname(os.path.abspath(__file__)))
REPO = os.environ.get("VERIF_REPO", "/repo")
CACHE = os.path.join(VERIF, ".cache")
COQ_MAIN = os.path.join(VERIF, "coq")
# A run against a scratch tree (VERIF_REPO=...) works on a private copy of the Coq project, so that the
# tables/programs regenerated from the scratch tree never disturb the development that describes /repo.
COQ = COQ_MAIN if REPO == "/repo" else os.path.join(CACHE, "coq-" + ("r" + hashlib.sha256(REPO.encode()).hexdigest()[:10]))
GUARD = "tablegen_lsp_verif"
NCPU = os.cpu_count() or 4

FORBIDDEN = re.compile(
    r"\b(Admitted|admit|Axiom|Axioms|Parameter|Parameters|Conjecture|Conjectures|"
    r"Hypothesis|Hypotheses|Variable|Variables|Admit Obligations|"
    r"Unset Guard Checking|Unset Positivity Checking|Unset Universe Checking|bypass_check|"
    r"type-in-type|impredicative-set)\b")


def sh(cmd, cwd=None, timeout=None, env=None, input=None, check=False):
    e = dict(os.environ)
    e.update({"CARGO_NET_OFFLINE": "true", "GOPROXY": "off", "PIP_NO_INDEX": "1"})
    if env:
        e.update(env)
    try:
        p = subprocess.run(cmd, cwd=cwd, timeout=timeout, env=e, input=input,
                           stdout=subprocess.PIPE, stderr=subprocess.STDOUT,
                           shell=isinstance(cmd, str), text=True, errors="replace")
        rc, out = p.returncode, p.stdout
    except subprocess.TimeoutExpired as ex:
        rc, out = 124, (ex.stdout or "") if isinstance(ex.stdout, str) else ""
        out += "\n[timeout]"
    if check and rc != 0:
        raise RuntimeError("command failed (%s): %s\n%s" % (rc, cmd, out[-4000:]))
    return rc, out


def sha(s):
    if isinstance(s, str):
        s = s.encode("utf-8", "surrogatepass")
    return hashlib.sha256(s).hexdigest()


# --------------------------------------------------------------------------- harness

def _repo_tag():
    return "default" if REPO == "/repo" else "r" + sha(REPO)[:10]


def harness_dir(hooks):
    return os.path.join(CACHE, "harness", _repo_tag() + ("-hooks" if hooks else ""))


def build_harness(hooks=False, bins=None):
    """Build /verif/harness against REPO's current working tree.  Returns dir with binaries.
    Raises BuildError when the harness does not compile (treated as a broken tie)."""
    d = harness_dir(hooks)
    os.makedirs(d, exist_ok=True)
    tmpl = open(os.path.join(VERIF, "harness", "Cargo.toml.in")).read()
    toml = tmpl.replace("{REPO}", REPO)
    _write_if_changed(os.path.join(d, "Cargo.toml"), toml)
    src = os.path.join(d, "src")
    if not os.path.islink(src):
        if os.path.exists(src):
            shutil.rmtree(src)
        os.symlink(os.path.join(VERIF, "harness", "src"), src)
    lock = os.path.join(d, "Cargo.lock")
    if not os.path.exists(lock):
        shutil.copy(os.path.join(REPO, "Cargo.lock"), lock)
    os.makedirs(os.path.join(d, ".cargo"), exist_ok=True)
    _write_if_changed(os.path.join(d, ".cargo", "config.toml"), "[net]\noffline = true\n")
    env = {}
    if hooks:
        env["RUSTFLAGS"] = "--cfg " + GUARD
    cmd = ["cargo", "build", "--offline", "-j", str(NCPU)]
    if bins:
        for b in bins:
            cmd += ["--bin", b]
    with Lock("cargo-" + os.path.basename(d)):
        rc, out = sh(cmd, cwd=d, timeout=1500, env=env)
        if rc != 0:
            # a stale lock (repo lock changed) is repaired once
            shutil.copy(os.path.join(REPO, "Cargo.lock"), lock)
            rc, out = sh(cmd, cwd=d, timeout=1500, env=env)
    if rc != 0:
        raise BuildError("harness build failed against %s\n%s" % (REPO, out[-6000:]))
    return os.path.join(d, "target", "debug")


class BuildError(Exception):
    pass


def _write_if_changed(path, content):
    try:
        if open(path).read() == content:
            return False
    except OSError:
        pass
    os.makedirs(os.path.dirname(path), exist_ok=True)
    with open(path, "w") as f:
        f.write(content)
    return True


# --------------------------------------------------------------------------- translators

def run_translators(names=None):
    """Regenerate coq/gen/*.v from REPO.  Returns dict name -> (ok, message)."""
    sys.path.insert(0, os.path.join(VERIF, "tools", "translate"))
    import importlib
    _coq_private_copy()
    os.makedirs(os.path.join(COQ, "gen"), exist_ok=True)
    if names is not None:
        # generated files that must never be staler than the file they certify
        names = list(names)
        for a, b in (("t_grammar", "t_grammarcert"),):
            if a in names and b not in names and os.path.exists(os.path.join(VERIF, "tools", "translate", b + ".py")):
                names.append(b)
    res = {}
    tdir = os.path.join(VERIF, "tools", "translate")
    for fn in sorted(os.listdir(tdir)):
        if not fn.startswith("t_") or not fn.endswith(".py"):
            continue
        name = fn[:-3]
        if names is not None and name not in names:
            continue
        mod = importlib.import_module(name)
        try:
            outs = mod.translate(REPO)          # dict filename -> content
            for f, content in outs.items():
                _write_if_changed(os.path.join(COQ, "gen", f), content)
            res[name] = (True, "ok: " + ", ".join(sorted(outs)))
        except Exception as ex:                  # translator refuses the source: broken tie
            res[name] = (False, "%s: %s" % (type(ex).__name__, ex))
    return res


# --------------------------------------------------------------------------- coq

def coq_files():
    out = []
    for sub in ("gen", "model", "proofs", "props", "extract"):
        d = os.path.join(COQ, sub)
        for fn in sorted(os.listdir(d)):
            if fn.endswith(".v"):
                out.append(sub + "/" + fn)
    return out


def _coq_private_copy():
    """scratch-tree runs: refresh the private copy from the main development (sources always; build
    products only when missing, so that it stays warm but gen/ keeps the scratch tree's versions)."""
    if COQ == COQ_MAIN:
        return
    os.makedirs(COQ, exist_ok=True)
    sh(["rsync", "-a", "--update", "--exclude", "gen/*.v", "--exclude", ".lia.cache", "--exclude", ".nia.cache",
        COQ_MAIN + "/", COQ + "/"])
    for fn in os.listdir(os.path.join(COQ_MAIN, "gen")):
        dst = os.path.join(COQ, "gen", fn)
        if fn.endswith(".v") and not os.path.exists(dst):
            shutil.copy2(os.path.join(COQ_MAIN, "gen", fn), dst)


def coq_prepare():
    _coq_private_copy()
    files = coq_files()
    proj = "-Q gen TG.Gen\n-Q model TG.Model\n-Q proofs TG.Proofs\n-Q props TG.Props\n-Q extract TG.Extract\n" + \
        "-arg -w -arg -notation-overridden,-deprecated-hint-without-locality,-deprecated-instance-without-locality,-extraction-opaque-accessed,-extraction-reserved-identifier\n" + \
        "\n".join(files) + "\n"
    changed = _write_if_changed(os.path.join(COQ, "_CoqProject"), proj)
    if changed or not os.path.exists(os.path.join(COQ, "Makefile")):
        sh(["coq_makefile", "-f", "_CoqProject", "-o", "Makefile"], cwd=COQ, check=True)


def coq_make(targets, timeout=1500):
    """Full .vo build of the given targets (never -vos).  Returns (ok, log)."""
    with Lock("coq" if COQ == COQ_MAIN else "coq-" + os.path.basename(COQ)):
        coq_prepare()
        rc, out = sh(["make", "-j", str(NCPU), "-k"] + list(targets), cwd=COQ, timeout=timeout)
    return rc == 0, out


def coq_assumptions(module, theorems, timeout=300):
    """Print Assumptions for each theorem; returns dict thm -> list of axiom names ([] = closed)
    or None when the theorem does not exist / does not check."""
    body = "Require Import %s.\n" % module
    for t in theorems:
        body += 'Goal True. idtac "@@BEGIN %s". Abort.\nPrint Assumptions %s.\nGoal True. idtac "@@END %s". Abort.\n' % (t, t, t)
    tmpd = os.path.join(CACHE, "pa")
    os.makedirs(tmpd, exist_ok=True)
    name = "PA_" + sha(body)[:12]
    path = os.path.join(tmpd, name + ".v")
    open(path, "w").write(body)
    rc, out = sh(["coqc", "-noglob", "-Q", "gen", "TG.Gen", "-Q", "model", "TG.Model", "-Q", "proofs", "TG.Proofs",
                  "-Q", "props", "TG.Props", "-Q", "extract", "TG.Extract", path], cwd=COQ, timeout=timeout)
    for ext in (".vo", ".vok", ".vos", ".glob"):
        try:
            os.remove(os.path.join(tmpd, name + ext))
        except OSError:
            pass
    res = {}
    for t in theorems:
        m = re.search(r"@@BEGIN %s\n(.*?)@@END %s" % (re.escape(t), re.escape(t)), out, re.S)
        if not m:
            res[t] = None
            continue
        txt = m.group(1)
        if "Closed under the global context" in txt:
            res[t] = []
        else:
            axs = re.findall(r"^([A-Za-z_][\w.']*)\s*:", txt, re.M)
            res[t] = axs
    return res, out


def coq_forbidden_scan(files=None):
    """grep the development for declarations that would add to the trusted base."""
    hits = []
    for rel in (files or coq_files()):
        p = os.path.join(COQ, rel)
        txt = open(p).read()
        txt_nc = strip_coq_comments(txt)
        in_section = 0
        for ln, line in enumerate(txt_nc.split("\n"), 1):
            line = re.sub(r'"[^"]*"', '""', line)     # string literals cannot declare anything
            if re.match(r"\s*Section\b", line):
                in_section += 1
            if re.match(r"\s*End\b", line) and in_section:
                in_section -= 1
            for m in FORBIDDEN.finditer(line):
                w = m.group(1)
                if w in ("Variable", "Variables", "Hypothesis", "Hypotheses") and in_section:
                    continue   # section-local: discharged as explicit premises at End
                hits.append("%s:%d: %s" % (rel, ln, line.strip()[:120]))
    return hits


NS = {"Gen": "gen", "Model": "model", "Proofs": "proofs", "Props": "props", "Extract": "extract"}


def coq_cone(module):
    """Files of the development the given module (e.g. TG.Props.C10) transitively depends on, itself
    included, computed from the `From TG.x Require [Import|Export] A B.` / `Require Import TG.x.A.` lines.
    Falls back to the whole development when the module's file is missing."""
    def path_of(ns, name):
        return NS.get(ns, "") + "/" + name + ".v"
    parts = module.split(".")
    if len(parts) != 3 or parts[1] not in NS:
        return coq_files()
    todo, seen = [path_of(parts[1], parts[2])], []
    while todo:
        rel = todo.pop()
        if rel in seen:
            continue
        fp = os.path.join(COQ, rel)
        if not os.path.exists(fp):
            if not seen:
                return coq_files()
            continue
        seen.append(rel)
        txt = strip_coq_comments(open(fp).read())
        for m in re.finditer(r"From\s+TG\.(\w+)\s+Require\s+(?:Import\s+|Export\s+)?([^.]*)\.", txt):
            for name in m.group(2).split():
                todo.append(path_of(m.group(1), name))
        for m in re.finditer(r"\bTG\.(\w+)\.(\w+)", txt):
            todo.append(path_of(m.group(1), m.group(2)))
    return sorted(seen)


def strip_coq_comments(s):
    out, depth, i, n = [], 0, 0, len(s)
    instr = False
    while i < n:
        c = s[i]
        if depth == 0 and c == '"':
            instr = not instr
            out.append(c)
            i += 1
            continue
        if not instr and s.startswith("(*", i):
            depth += 1
            i += 2
            continue
        if not instr and depth and s.startswith("*)", i):
            depth -= 1
            i += 2
            continue
        if depth == 0:
            out.append(c)
        elif c == "\n":
            out.append(c)
        i += 1
    return "".join(out)


ALLOWED_AXIOMS = set()   # target: none (DESIGN section 2); extended only with stdlib axioms named in DESIGN


def prove(prop_module, theorems, targets, allowed=None):
    """Re-check the Coq cone of a property.  Returns dict with obligations, discharged, failures."""
    allowed = set(allowed or ()) | ALLOWED_AXIOMS
    t0 = time.time()
    ok, log = coq_make(targets)
    failures = []
    if not ok:
        errs = re.findall(r'File "([^"]+)", line (\d+).*?\n(Error:.*?)(?:\n\n|\nmake)', log, re.S)
        for f, ln, e in errs[:10]:
            failures.append({"kind": "coq-build", "file": f, "line": int(ln), "error": e.strip()[:600]})
        if not errs:
            failures.append({"kind": "coq-build", "error": log[-1500:]})
    assum, pa_out = ({}, "")
    if ok:
        assum, pa_out = coq_assumptions(prop_module, theorems)
    discharged = 0
    for t in theorems:
        a = assum.get(t)
        if a is None:
            failures.append({"kind": "theorem-missing-or-broken", "theorem": t})
        elif [x for x in a if x not in allowed]:
            failures.append({"kind": "axioms", "theorem": t, "axioms": a})
        else:
            discharged += 1
    scan = coq_forbidden_scan(coq_cone(prop_module))
    for h in scan:
        failures.append({"kind": "forbidden-declaration", "where": h})
    return {"obligations": len(theorems), "discharged": discharged, "failures": failures,
            "assumptions": assum, "wall_s": round(time.time() - t0, 2), "log_tail": log[-1200:] if not ok else ""}


# --------------------------------------------------------------------------- extraction / modelrun

def build_model(name, timeout=900):
    """Extract one model unit and compile its driver:
    coq/extract/Extract_<name>.v  writes  extract/<name>_core.ml(i);  extract/<name>_driver.ml is the
    hand-written driver;  result: extract/<name>_run.  Returns the executable path."""
    ok, log = coq_make(["extract/Extract_%s.vo" % name], timeout=timeout)
    if not ok:
        raise BuildError("extraction of %s failed\n%s" % (name, log[-4000:]))
    ex = os.path.join(COQ, "extract")
    exe = os.path.join(ex, name + "_run")
    srcs = [os.path.join(ex, f) for f in (name + "_core.ml", name + "_core.mli", name + "_driver.ml")]
    newest = max(os.path.getmtime(s) for s in srcs)
    if os.path.exists(exe) and os.path.getmtime(exe) >= newest:
        return exe
    with Lock("ocaml-" + name + "-" + _repo_tag()):
        bdir = os.path.join(CACHE, "ocaml", name if REPO == "/repo" else name + "-" + _repo_tag())
        os.makedirs(bdir, exist_ok=True)
        for s_ in srcs:
            shutil.copy(s_, bdir)
        rc, out = sh("ocamlfind ocamlopt -O3 -w -a -package str,unix %s_core.mli %s_core.ml %s_driver.ml -linkpkg -o %s_run"
                     % (name, name, name, name), cwd=bdir, timeout=timeout)
        if rc != 0:
            raise BuildError("ocaml build of %s failed\n%s" % (name, out[-4000:]))
        shutil.copy(os.path.join(bdir, name + "_run"), exe)
    return exe


def model_units():
    return sorted(f[len("Extract_"):-2] for f in os.listdir(os.path.join(COQ, "extract"))
                  if f.startswith("Extract_") and f.endswith(".v"))


class Lock:
    """inter-process lock (several checks / builders may run at once)"""
    def __init__(self, name):
        os.makedirs(os.path.join(CACHE, "locks"), exist_ok=True)
        self.path = os.path.join(CACHE, "locks", name + ".lock")

    def __enter__(self):
        import fcntl
        self.f = open(self.path, "w")
        fcntl.flock(self.f, fcntl.LOCK_EX)
        return self

    def __exit__(self, *a):
        import fcntl
        fcntl.flock(self.f, fcntl.LOCK_UN)
        self.f.close()


# --------------------------------------------------------------------------- known findings

def known_findings(prop):
    """Lines of known_findings.txt for this property: list of (status, text)."""
    res = []
    p = os.path.join(VERIF, "known_findings.txt")
    if not os.path.exists(p):
        return res
    for line in open(p):
        line = line.strip()
        if not line or line.startswith("#"):
            continue
        m = re.match(r"(known|fixed): property=(C\d+) (.*)", line)
        if m and m.group(2) == prop:
            res.append((m.group(1), m.group(3)))
    return res


def known_keys(prop):
    """`key=<token>` of every `known:` line of this property."""
    keys = {}
    for st, txt in known_findings(prop):
        if st == "known":
            m = re.search(r"key=(\S+)", txt)
            if m:
                keys[m.group(1)] = txt
    return keys


# --------------------------------------------------------------------------- context / verdict

class Ctx:
    def __init__(self, prop, tier, seed):
        self.prop = prop
        self.tier = tier
        self.seed = seed
        self.rng = random.Random(seed)
        self.t0 = time.time()
        self.violations = []       # list of dict(replay=..., note=..., nofail=bool)
        self.known_hit = {}        # key -> description
        self.cov = {}
        self.assumptions = []
        self.level = "proof"

    @property
    def quick(self):
        return self.tier == "quick"

    def violation(self, what, replay_obj, no_failing_input=False):
        os.makedirs(os.path.join(VERIF, "replays"), exist_ok=True)
        body = json.dumps(replay_obj, indent=1, sort_keys=True, ensure_ascii=False, default=str)
        path = os.path.join(VERIF, "replays", "%s-%s.json" % (self.prop, sha(body)[:12]))
        with open(path, "w") as f:
            f.write(body)
        self.violations.append({"what": what, "replay": path, "nofail": no_failing_input})
        return path

    def known(self, key, desc):
        self.known_hit[key] = desc

    def finish(self):
        wall = round(time.time() - self.t0, 2)
        cov = dict(self.cov)
        cov.setdefault("known_findings_hit", sorted(self.known_hit))
        _sanitize_coverage(cov)
        ev = {"property_id": self.prop, "tier": self.tier, "seed": self.seed, "level": self.level,
              "coverage": cov, "assumptions": self.assumptions, "wall_s": wall,
              "violations": len(self.violations)}
        # evidence/ describes /repo itself; a run against a scratch tree (VERIF_REPO) writes elsewhere
        evdir = os.path.join(VERIF, "evidence") if REPO == "/repo" else os.path.join(CACHE, "evidence-" + _repo_tag())
        os.makedirs(evdir, exist_ok=True)
        tmp = os.path.join(evdir, self.prop + ".json.tmp")
        with open(tmp, "w") as f:
            json.dump(ev, f, indent=1, sort_keys=True, ensure_ascii=False, default=str)
        os.replace(tmp, os.path.join(evdir, self.prop + ".json"))
        for k in sorted(self.known_hit):
            print("KNOWN-FINDING: property=%s %s" % (self.prop, self.known_hit[k]))
        seen = set()
        for v in self.violations:
            if v["replay"] in seen:
                continue
            seen.add(v["replay"])
            print("# %s" % v["what"])
            print("VIOLATION property=%s replay=%s%s" % (self.prop, v["replay"],
                                                        " no-failing-input-found" if v["nofail"] else ""))
        sys.stdout.flush()
        return 1 if self.violations else 0


INT_KEYS = ("evaluations", "distinct_nontrivial", "states", "transitions", "traces_validated_against_impl",
            "obligations", "discharged", "programs", "disagreements_checked")


def _sanitize_coverage(cov):
    """Keep the evidence file valid against EVIDENCE.schema.json whatever a check module put in."""
    if "exhaustive" in cov and not isinstance(cov["exhaustive"], bool):
        cov["exhaustive_note"] = str(cov["exhaustive"])
        cov["exhaustive"] = False
    for k in INT_KEYS:
        if k in cov and not (isinstance(cov[k], int) and not isinstance(cov[k], bool)):
            try:
                cov[k] = int(cov[k])
            except (TypeError, ValueError):
                cov[k + "_note"] = str(cov.pop(k))
    for k in ("rule", "checker_cmd", "explanation"):
        if k in cov and not isinstance(cov[k], str):
            cov[k] = json.dumps(cov[k], ensure_ascii=False, default=str)
    if "samples" in cov and not isinstance(cov["samples"], list):
        cov["samples"] = [cov["samples"]]
    if "trusted_base" in cov:
        tb = cov["trusted_base"]
        cov["trusted_base"] = [str(x) for x in (tb if isinstance(tb, list) else [tb])]


def proof_step(ctx, module, theorems, targets, trusted_base, allowed=None, translators=None):
    """Common step 2+3 of section 1.4: translators, make, Print Assumptions, forbidden scan.
    Records coverage; returns list of failures (each later turned into a violation by the caller
    after the search for a failing input)."""
    fails = []
    tr = run_translators(translators)
    for name, (ok, msg) in tr.items():
        if not ok:
            fails.append({"kind": "translator", "translator": name, "error": msg})
    r = prove(module, theorems, targets, allowed)
    fails += r["failures"]
    ctx.cov["obligations"] = r["obligations"]
    ctx.cov["discharged"] = r["discharged"]
    ctx.cov["theorems"] = theorems
    ctx.cov["axioms_per_theorem"] = {k: v for k, v in r["assumptions"].items()}
    ctx.cov["checker_cmd"] = "cd /verif/coq && coq_makefile -f _CoqProject -o Makefile && make -j%d %s && coqc <Print Assumptions %s>" % (
        NCPU, " ".join(targets), ", ".join(theorems))
    ctx.cov["trusted_base"] = trusted_base
    ctx.cov["translators"] = {k: v[1] for k, v in tr.items()}
    ctx.cov["coq_wall_s"] = r["wall_s"]
    return fails


def broken_ties_to_violations(ctx, fails, found_failing_input):
    """A proof obligation / translator / correspondence broke.  If the oracle already produced a
    concrete failing input the violation is reported there; otherwise report no-failing-input-found."""
    if not fails:
        return
    if found_failing_input:
        return
    ctx.violation("proof obligation or tie no longer checks: " + "; ".join(
        sorted({f.get("theorem") or f.get("translator") or f.get("file") or f["kind"] for f in fails})),
        {"property": ctx.prop, "broken": fails,
         "note": "no concrete failing input was found by the search; the property is no longer shown to hold"},
        no_failing_input=True)


def chunked(xs, n):
    for i in range(0, len(xs), n):
        yield xs[i:i + n]
