"""Shared machinery of the M-host checks C16 (include graphs), C07 (incremental consistency) and
C12 (editor buffers): text templates, the text -> abstract content mapping (through the harness'
own scan of the real parse tree), encoding of cases for the extracted Coq model (unit "host"),
running the Rust harness `hostdrive` (with restart after a hang / stack overflow), normalisation of
both observations to one projection, and the implementation-side oracles (independent Python
statements of the properties on the implementation's observations).

A case is {"mode","files":[[path,text]..],"include_dir":None|str,"history":[[kind,path,text]..]}.
"""
import json
import os
import posixpath
import subprocess

import vlib

NOT_FOUND = "include file not found"

# ----------------------------------------------------------------------------- texts

# reached flag of every include statement of a generated text, in document order (the indexer does
# not descend into the body of a foreach whose iterator has no element type: DESIGN appendix D)
REACHED = {}


# A syntactically broken statement (foreach without an iterator name: already a syntax error) whose body
# the indexer does not enter today: an include statement in there is resolved, linked and followed by
# collect_sources, but gets no not-found diagnostic (DESIGN appendix D, carved out of the not-found clause).
# Whether the indexer arrives there is MEASURED on the tree under test by `calibrate` (a probe with a missing
# target), not assumed: a tree that starts indexing such bodies is not reported as a violation.
UNREACHED_TEMPLATE = 'foreach = [1, 2] in { include "%s" }'
UNREACHED = {"reached": False, "calibrated": False}


def calibrate(bindir):
    probe = UNREACHED_TEMPLATE % "zz-probe-missing.td"
    case = {"mode": "memfs", "files": [], "include_dir": None, "history": [["touch", "probe.td", probe + "\n"]]}
    r = run_harness(bindir, [case], 4000)[0]
    if "steps" in r:
        ds = r["steps"][0]["diagnostics"].get("probe.td", [])
        UNREACHED["reached"] = any(m.startswith(NOT_FOUND) for _, _, m in ds)
    UNREACHED["calibrated"] = True
    return UNREACHED["reached"]


def build_text(parts, eol="\n"):
    """parts: list of tuples; returns the text (lines ended by `eol`).  Registers the `reached` flags of its includes."""
    out, flags = [], []
    for p in parts:
        k = p[0]
        if k == "inc":
            out.append('include "%s"' % p[1]); flags.append(True)
        elif k == "inc_if":
            out.append('if 1 then { include "%s" }' % p[1]); flags.append(True)
        elif k == "inc_else":
            out.append('if 0 then { class Unused%d; } else { include "%s" }' % (len(out), p[1])); flags.append(True)
        elif k == "inc_let":
            out.append('let x = 1 in { include "%s" }' % p[1]); flags.append(True)
        elif k == "inc_foreach":
            out.append('foreach i = [1, 2] in { include "%s" }' % p[1]); flags.append(True)
        elif k == "inc_deep":
            out.append('if 1 then { let x = 1 in { foreach i = 1...2 in include "%s" } }' % p[1]); flags.append(True)
        elif k == "inc_foreach_unknown":
            out.append('foreach i = undefinedvar in { include "%s" }' % p[1]); flags.append(True)
        elif k == "inc_unreached":
            out.append(UNREACHED_TEMPLATE % p[1]); flags.append(UNREACHED["reached"])
        elif k == "inc_nopath":
            out.append('include ;'); flags.append(True)
        elif k == "decl":
            out.append('class %s;' % p[1])
        elif k == "semerr":
            out.append('def : Missing%s;' % p[1])
        elif k == "synerr":
            out.append('class ;')
        elif k == "raw":
            out.append(p[1])
        else:
            raise ValueError(k)
    text = eol.join(out) + (eol if out else "")
    if REACHED.setdefault(text, flags) != flags:
        raise ValueError("same text with different flags")
    return text


# ----------------------------------------------------------------------------- harness

def hostdrive(bindir):
    return os.path.join(bindir, "hostdrive")


_ABS = {}


def abstract(bindir, texts):
    """text -> list of items ({"inc":[lo,hi],"path":None|[value,llo,lhi]} | {"decl":name}) via the harness."""
    todo = sorted({t for t in texts if t not in _ABS})
    if todo:
        p = subprocess.run([hostdrive(bindir), "abs"], input=json.dumps(todo), stdout=subprocess.PIPE,
                           stderr=subprocess.PIPE, text=True, timeout=300)
        if p.returncode != 0:
            raise vlib.BuildError("hostdrive abs failed: " + p.stderr[-2000:])
        for t, a in zip(todo, json.loads(p.stdout)):
            _ABS[t] = a
    return {t: _ABS[t] for t in texts}


def run_harness(bindir, cases, timeout_ms=4000, stop_after_hangs=6):
    """(all cases of one call have the same mode: memfs -> bin hostdrive, vfs -> bin vfsdrive)
    One result per case: {"steps":[..]} | {"panic":..} | {"timeout":True} | {"crash":rc} | {"skipped":True}.
    The process is restarted after a timeout (it exits) or an abort (stack overflow); after
    `stop_after_hangs` such cases the remaining ones are skipped (the violations are already there)."""
    res = []
    i = 0
    while i < len(cases):
        if sum(1 for r in res if r.get("timeout")) + 0.2 * sum(1 for r in res if "crash" in r) >= stop_after_hangs:
            res += [{"skipped": True}] * (len(cases) - i)
            break
        batch = cases[i:]
        exe = os.path.join(bindir, "vfsdrive") if batch[0].get("mode") == "vfs" else hostdrive(bindir)
        try:
            p = subprocess.run([exe, "run", str(timeout_ms)], input=json.dumps(batch),
                               stdout=subprocess.PIPE, stderr=subprocess.PIPE, text=True,
                               timeout=120 + len(batch) * (timeout_ms / 1000.0 + 0.5))
            out, rc = p.stdout, p.returncode
        except subprocess.TimeoutExpired as ex:
            out, rc = (ex.stdout or b"").decode() if isinstance(ex.stdout, bytes) else (ex.stdout or ""), 124
        lines = [l for l in out.split("\n") if l.strip()]
        got = []
        for l in lines:
            try:
                g = json.loads(l)
            except ValueError:
                break
            for st in g.get("steps", []):
                normalize_step(st)
            got.append(g)
        res += got
        i += len(got)
        if len(got) < len(batch):
            if got and got[-1].get("timeout"):
                continue                      # the timed-out case was reported; go on with the rest
            res.append({"crash": rc})         # the case after the last complete line killed the process
            i += 1
        elif got and got[-1].get("timeout"):
            continue
    return res


# ----------------------------------------------------------------------------- model encoding

class Interner:
    def __init__(self):
        self.segs, self.names = {}, {}
        self.rsegs, self.rnames = {}, {}

    def seg(self, s):
        if s not in self.segs:
            self.segs[s] = len(self.segs) + 1
            self.rsegs[self.segs[s]] = s
        return self.segs[s]

    def name(self, s):
        if s not in self.names:
            self.names[s] = len(self.names) + 1
            self.rnames[self.names[s]] = s
        return self.names[s]

    def path(self, p):
        """relative path / include string -> segment numbers.  Only the fragment on which the
        segment-list instance of the model coincides with PathBuf::join / Path::parent."""
        if p == "":
            return []
        segs = p.split("/")
        if any(s in ("", ".", "..") for s in segs):
            raise ValueError("path outside the modelled fragment: %r" % p)
        return [self.seg(s) for s in segs]

    def unpath(self, s):
        if s == "":
            return ""
        if s.startswith("?"):
            return s
        return "/".join(self.rsegs[int(x)] for x in s.split("/"))


def enc_list(xs):
    return [len(xs)] + [y for x in xs for y in x]


def encode_struct(case, absmap, it, reached=None):
    """the model's view of a case: contents [(tag, [item])], disk [(path, cidx)], extra [path],
    hist [(raw, path, cidx)], texts (by content index); item = ("decl", name) | ("inc", lo, hi, reached, None | (istr, llo, lhi))"""
    reached = reached if reached is not None else REACHED
    texts = []
    for _, t in case["files"]:
        if t not in texts:
            texts.append(t)
    for _, _, t in case["history"]:
        if t not in texts:
            texts.append(t)
    contents = []
    for tag, t in enumerate(texts):
        items = []
        flags = reached.get(t)
        k = 0
        for a in absmap[t]:
            if "decl" in a:
                items.append(("decl", it.name(a["decl"])))
            else:
                fl = True if flags is None else flags[k]
                k += 1
                lo, hi = a["inc"]
                if a["path"] is None:
                    items.append(("inc", lo, hi, bool(fl), None))
                else:
                    v, llo, lhi = a["path"]
                    items.append(("inc", lo, hi, bool(fl), (it.path(v), llo, lhi)))
        if flags is not None and k != len(flags):
            raise ValueError("reached flags do not match the includes of %r" % t)
        contents.append((tag, items))
    return {"contents": contents,
            "disk": [(it.path(p), texts.index(t)) for p, t in case["files"]],
            "extra": [it.path(case["include_dir"])] if case.get("include_dir") is not None else [],
            "hist": [(k == "raw", it.path(p), texts.index(t)) for k, p, t in case["history"]],
            "texts": texts}


def encode_case(case, absmap, it, fuel=400, reached=None):
    """-> (line of ints for host_run, list of texts by content index)"""
    st = encode_struct(case, absmap, it, reached)
    contents = []
    for tag, items in st["contents"]:
        enc = []
        for x in items:
            if x[0] == "decl":
                enc.append([0, x[1]])
            elif x[4] is None:
                enc.append([1, x[1], x[2], int(x[3]), 0])
            else:
                sp, llo, lhi = x[4]
                enc.append([1, x[1], x[2], int(x[3]), 1, len(sp)] + sp + [llo, lhi])
        contents.append([tag] + enc_list(enc))
    disk = [[len(p)] + p + [c] for p, c in st["disk"]]
    extra = [[len(p)] + p for p in st["extra"]]
    hist = [[int(raw), len(p)] + p + [c] for raw, p, c in st["hist"]]
    ints = [fuel] + enc_list(contents) + enc_list(disk) + enc_list(extra) + enc_list(hist)
    return " ".join(map(str, ints)), st["texts"]


# ---- cross-check of the extracted OCaml model against vm_compute inside Coq (DESIGN 1.2)

def _coq_list(xs):
    return "[" + "; ".join(xs) + "]"


def _coq_path(p):
    return _coq_list([str(x) for x in p])


def coq_case(st, fuel, k):
    """Gallina text evaluating TG.Model.HostInst.run_digests on one case"""
    out = []
    for tag, items in st["contents"]:
        its = []
        for x in items:
            if x[0] == "decl":
                its.append("IDecl %d" % x[1])
            else:
                tgt = "None" if x[4] is None else "(Some (%s, (%d, %d)))" % (_coq_path(x[4][0]), x[4][1], x[4][2])
                its.append("IInc (%d, %d) %s %s" % (x[1], x[2], "true" if x[3] else "false", tgt))
        out.append("Definition k%d_c%d : scontent := {| c_tag := %d; c_items := %s |}." % (k, tag, tag, _coq_list(its)))
    disk = _coq_list(["(%s, k%d_c%d)" % (_coq_path(p), k, c) for p, c in st["disk"]])
    extra = _coq_list([_coq_path(p) for p in st["extra"]])
    hist = _coq_list(["(%s, %s, k%d_c%d)" % ("true" if raw else "false", _coq_path(p), k, c) for raw, p, c in st["hist"]])
    out.append("Definition k%d_w : sworld := mk_world %s %s." % (k, disk, extra))
    out.append('Goal True. idtac "@@CASE %d". Abort.' % k)
    out.append("Eval vm_compute in (run_digests %d%%nat k%d_w st_init %s)." % (fuel, k, hist))
    return "\n".join(out)


def crosscheck_extraction(cases, model_out, absmap, it, fuel=400, reached=None, limit=40):
    """Evaluates a slice of the batch inside Coq with vm_compute and compares the per-step digests with the
    extracted program's.  Returns (number compared, list of mismatches)."""
    import re
    idx = [i for i, m in enumerate(model_out) if m and all(s.get("outcome") == "done" for s in m)]
    idx = sorted(idx, key=lambda i: case_size(cases[i]))
    step = max(1, len(idx) // limit)
    pick = idx[::step][:limit]
    if not pick:
        return 0, []
    body = ["From Coq Require Import List NArith.", "From TG.Model Require Import Includes Host HostInst.",
            "Import ListNotations.", "Open Scope N_scope."]
    for k, i in enumerate(pick):
        body.append(coq_case(encode_struct(cases[i], absmap, it, reached), fuel, k))
    d = os.path.join(vlib.CACHE, "host", "cases-%d" % os.getpid())
    os.makedirs(d, exist_ok=True)
    path = os.path.join(d, "HostCases.v")
    open(path, "w").write("\n".join(body) + "\n")
    try:
        rc, out = vlib.sh(["coqc", "-noglob", "-Q", "gen", "TG.Gen", "-Q", "model", "TG.Model", path], cwd=vlib.COQ, timeout=600)
    finally:
        import shutil
        shutil.rmtree(d, ignore_errors=True)
    if rc != 0:
        return 0, [{"error": "coqc failed on the generated cases file: " + out[-800:]}]
    bad = []
    for k, i in enumerate(pick):
        m = re.search(r"@@CASE %d\n\s*=\s*(.*?):\s*list \(list N\)" % k, out, re.S)
        if not m:
            bad.append({"case": i, "error": "no vm_compute result"})
            continue
        rows = re.findall(r"\[([0-9;\s]*)\]", m.group(1).strip()[1:-1]) if m.group(1).strip() != "[]" else []
        coq = [[int(x) for x in r.replace("\n", " ").split(";") if x.strip()] for r in rows]
        ocaml = [s.get("digest") for s in model_out[i]]
        if coq != ocaml:
            bad.append({"case": i, "vm_compute": coq, "extracted": ocaml})
    return len(pick), bad


def run_model(exe, lines):
    p = subprocess.run([exe], input="\n".join(lines) + "\n", stdout=subprocess.PIPE, stderr=subprocess.PIPE,
                       text=True, timeout=600)
    if p.returncode != 0:
        raise vlib.BuildError("host_run failed: " + p.stderr[-2000:])
    return [json.loads(l) for l in p.stdout.split("\n") if l.strip()]


# ----------------------------------------------------------------------------- projections

def norm_impl_step(s, with_reads=True):
    """harness step -> common projection"""
    o = {"ids": [[p, i] for p, i in s["ids"]],
         "fc": {p: c for p, c in s["fc"]},
         "rim": {p: (None if m is None else sorted([a, b, t] for a, b, t in m)) for p, m in s["rim"]},
         "root": s.get("root")}
    if with_reads and "reads" in s:
        # PathBuf::join(dir, "") renders as "dir/", which is the same PathBuf as "dir" (Eq/Hash are by components)
        o["reads"] = [r.rstrip("/") if len(r) > 1 else r for r in s["reads"]]
    if s.get("root") is None:
        return o
    o["files"] = sorted(s["files"])
    o["links"] = {p: [list(x) for x in (l or [])] for p, l in s["links"].items()}
    o["notfound"] = {p: sorted([a, b] for a, b, m in ds if m.startswith(NOT_FOUND))
                     for p, ds in s["diagnostics"].items()}
    # the model abstracts the class declarations only (IDecl); other outline kinds are compared by C07 / C18
    o["outline"] = {p: [n for n, k in (l or []) if k == "Class"] for p, l in s["outline"].items()}
    return o


def norm_model_step(s, it, texts, with_reads=True):
    """model step -> common projection (paths, names and texts un-interned)"""
    if s["outcome"] != "done":
        return {"outcome": s["outcome"]}
    up = it.unpath
    o = {"ids": [[up(p), i] for p, i in s["ids"]],
         "fc": {up(p): (None if c is None else texts[c]) for p, c in s["fc"]},
         "rim": {up(p): (None if m is None else sorted([a, b, up(t)] for a, b, t in m)) for p, m in s["rim"]},
         "root": None if s["root"] is None else up(s["root"])}
    if with_reads:
        o["reads"] = [up(p) for p in s["reads"]]
    if s["root"] is None:
        return o
    o["files"] = sorted(up(p) for p in s["files"])
    o["links"] = {up(p): [[a, b, up(t)] for a, b, t in l] if isinstance(l, list) else l for p, l in s["links"]}
    if s["index"] != "done":
        o["index"] = s["index"]
        return o
    o["notfound"] = {up(p): sorted([a, b] for a, b in l) for p, l in s["notfound"]}
    o["outline"] = {up(p): [it.rnames[n] for n in l] for p, l in s["outline"]}
    return o


def diff_obs(a, b):
    """first differing key of two projections (None when equal)"""
    for k in sorted(set(a) | set(b)):
        if a.get(k) != b.get(k):
            return k
    return None


# ----------------------------------------------------------------------------- reference semantics (oracle)

def overlay_after(case, upto=None):
    """effective file system after the first `upto` operations: disk overlaid by the touched texts"""
    fsys = {p: t for p, t in case["files"]}
    for k, p, t in case["history"][:upto]:
        fsys[p] = t
    return fsys


def pnorm(p):
    """std::path component normalisation of a relative path as used by PathBuf's Eq / Hash: redundant separators and
    interior / trailing `.` components do not count (no `..`, no leading `./` in this group's generators)"""
    if p is None or p.startswith("?"):
        return p
    segs = [x for x in p.split("/") if x not in ("", ".")]
    return "/".join(segs)


def normalize_step(s):
    """all path names of a harness step normalised by components (identity for the plain spellings)"""
    n = pnorm
    if "ids" in s:
        s["ids"] = [[n(p), i] for p, i in s["ids"]]
    if "fc" in s:
        s["fc"] = [[n(p), c] for p, c in s["fc"]]
    if "rim" in s:
        s["rim"] = [[n(p), None if m is None else [[a, b, n(t)] for a, b, t in m]] for p, m in s["rim"]]
    if s.get("root") is not None:
        s["root"] = n(s["root"])
    for k in ("files", "diag_keys"):
        if s.get(k) is not None:
            s[k] = sorted(n(p) for p in s[k])
    for k in ("diagnostics", "outline"):
        if s.get(k) is not None:
            s[k] = {n(p): v for p, v in s[k].items()}
    if s.get("links") is not None:
        s["links"] = {n(p): (None if l is None else [[a, b, n(t)] for a, b, t in l]) for p, l in s["links"].items()}
    if "reads" in s:
        s["reads"] = [n(p) if len(p) > 1 else p for p in s["reads"]]
    if "host" in s:
        normalize_step(s["host"])
    return s


def pjoin(d, s):
    # PathBuf::join on the modelled fragment (relative, no "." / ".." / empty segments)
    if s == "":
        return d + "/" if d else ""
    return s if d == "" else d + "/" + s


def resolve_ref(fsys, path, s, include_dir):
    dirs = [posixpath.dirname(path)]
    if include_dir is not None:
        dirs.append(include_dir)
    for d in dirs:
        c = pnorm(pjoin(d, s))
        if c in fsys:
            return c
    return None


def reference(fsys, absmap, root, include_dir, reached=None):
    """The property, stated directly: workspace = files reachable from the root through resolvable
    includes (independent DFS); expected links; expected not-found ranges and outline of the files the
    indexer arrives at (first arrival in document order, each file once)."""
    reached = reached if reached is not None else REACHED
    files, stack = set(), [root]
    while stack:
        p = stack.pop()
        if p in files:
            continue
        files.add(p)
        for a in absmap[fsys[p]]:
            if "inc" in a and a["path"] is not None:
                q = resolve_ref(fsys, p, a["path"][0], include_dir)
                if q is not None:
                    stack.append(q)
    links, notfound, outline = {}, {p: [] for p in files}, {p: [] for p in files}
    for p in files:
        ls = []
        for a in absmap[fsys[p]]:
            if "inc" in a and a["path"] is not None:
                q = resolve_ref(fsys, p, a["path"][0], include_dir)
                if q is not None:
                    ls.append([a["path"][1], a["path"][2], q])
        links[p] = ls
    seen = set()

    def visit(p):
        seen.add(p)
        flags = reached.get(fsys[p])
        k = 0
        for a in absmap[fsys[p]]:
            if "decl" in a:
                outline[p].append(a["decl"])
                continue
            fl = True if flags is None else flags[k]
            k += 1
            if not fl:
                continue
            q = None if a["path"] is None else resolve_ref(fsys, p, a["path"][0], include_dir)
            if q is None:
                notfound[p].append(list(a["inc"]))
            elif q not in seen:
                visit(q)
    visit(root)
    for p in notfound:
        notfound[p].sort()
    return {"files": sorted(files), "links": links, "notfound": notfound, "outline": outline,
            "indexed": sorted(seen)}


def oracle_step(obs, ref, root, fsys):
    """obs: norm_impl_step of the implementation.  Returns a list of (clause, detail)."""
    bad = []
    if obs.get("root") != root:
        bad.append(("root", {"expected": root, "observed": obs.get("root")}))
    if obs.get("files") != ref["files"]:
        bad.append(("reach", {"expected": ref["files"], "observed": obs.get("files")}))
        return bad
    for p in ref["files"]:
        if obs["links"].get(p) != ref["links"][p]:
            bad.append(("links", {"file": p, "expected": ref["links"][p], "observed": obs["links"].get(p)}))
        if obs["notfound"].get(p) != ref["notfound"][p]:
            bad.append(("notfound", {"file": p, "expected": ref["notfound"][p], "observed": obs["notfound"].get(p)}))
        if obs["outline"].get(p) != ref["outline"][p]:
            bad.append(("once", {"file": p, "expected": ref["outline"][p], "observed": obs["outline"].get(p)}))
        if obs["fc"].get(p) != fsys[p]:
            bad.append(("content", {"file": p, "expected": fsys[p], "observed": obs["fc"].get(p)}))
    return bad


# ----------------------------------------------------------------------------- one evaluation pass

LAST_BATCH = {}


def crosscheck_last_batch(limit=40):
    b = LAST_BATCH
    return crosscheck_extraction(b["cases"], b["model"], b["absmap"], b["it"], b["fuel"], b["reached"], limit)


def evaluate(bindir, exe, cases, timeout_ms=3000, stop_after_hangs=6, reached=None, fuel=400):
    """Runs every case through the implementation (harness), the extracted model and the reference.
    Returns one record per case:
      {"impl": raw harness result, "bad": [(clause, detail, step)], "tie": None | (step, key, impl, model),
       "obs": [projection per step]}"""
    texts = set()
    for c in cases:
        texts.update(t for _, t in c["files"])
        texts.update(t for _, _, t in c["history"])
    absmap = abstract(bindir, texts)
    for t, items in absmap.items():
        sids = [tuple(a["inc"]) for a in items if "inc" in a]
        if len(sids) != len(set(sids)):
            raise vlib.BuildError("two Include nodes with the same range in %r: hypothesis NoDup (inc_sids ..) "
                                  "of C16_links / C16_notfound does not hold for the real parser" % t)
    impl = run_harness(bindir, cases, timeout_ms, stop_after_hangs)
    it = Interner()
    lines, ctexts = [], []
    in_model = []
    for c in cases:
        if c.get("no_model"):          # spellings outside the Coq path algebra ('.', '//'): oracle only
            in_model.append(False)
            ctexts.append(None)
            continue
        l, tx = encode_case(c, absmap, it, fuel=fuel, reached=reached)
        lines.append(l)
        ctexts.append(tx)
        in_model.append(True)
    mres = iter(run_model(exe, lines) if lines else [])
    model = [next(mres) if f else None for f in in_model]
    LAST_BATCH.update({"cases": cases, "model": model, "absmap": absmap, "it": it, "fuel": fuel, "reached": reached})
    out = []
    for c, r, m, tx in zip(cases, impl, model, ctexts):
        rec = {"impl": r, "bad": [], "tie": None, "obs": [], "model": m}
        out.append(rec)
        if r.get("skipped"):
            continue
        if "steps" not in r:
            clause = "terminates" if (r.get("timeout") or "crash" in r) else "panic"
            rec["bad"].append((clause, r, None))
            continue
        memfs = c.get("mode", "memfs") == "memfs"
        has_raw = any(k == "raw" for k, _, _ in c["history"])
        root = None
        for k, (s, ms) in enumerate(zip(r["steps"], m if m is not None else [None] * len(r["steps"]))):
            kind, p, _ = c["history"][k]
            if kind != "raw":
                root = p
            obs = norm_impl_step(s, with_reads=memfs)
            rec["obs"].append(obs)
            if memfs and s.get("host_agrees") is False:
                rec["bad"].append(("analysis-host-differs-from-database", s.get("host"), k))
            if s.get("root") is not None and s.get("diag_keys") != s.get("files"):
                rec["bad"].append(("reach", {"diagnostics keys": s.get("diag_keys"), "file set": s.get("files")}, k))
            if not has_raw:
                fsys = overlay_after(c, k + 1)
                ref = reference(fsys, absmap, root, c.get("include_dir"), reached)
                for clause, detail in oracle_step(obs, ref, root, fsys):
                    rec["bad"].append((clause, detail, k))
            if m is None:
                continue
            mo = norm_model_step(ms, it, tx, with_reads=memfs)
            key = diff_obs(obs, mo)
            if key is not None and rec["tie"] is None:
                rec["tie"] = (k, key, obs.get(key), mo.get(key))
        if m is not None and len(m) != len(r["steps"]) and rec["tie"] is None:
            rec["tie"] = (min(len(m), len(r["steps"])), "length", len(r["steps"]), len(m))
    return out


def case_size(c):
    return (len(c["files"]) + len(c["history"]), sum(len(t) for _, t in c["files"]) + sum(len(t) for _, _, t in c["history"]))


def reached_of(case):
    ts = {t for _, t in case["files"]} | {t for _, _, t in case["history"]}
    return {t: REACHED[t] for t in ts if t in REACHED}


# ----------------------------------------------------------------------------- C07 / C12 helpers

def case_key(c):
    return vlib.sha(json.dumps([c.get("mode", "memfs"), sorted(map(list, c["files"])), c.get("include_dir"), c["history"]], sort_keys=True))


def run_isolated(bindir, cases, timeout_ms=4000, workers=None):
    """every case in a NEW hostdrive process (a freshly started analysis, literally: no process-wide state of an
    earlier analysis can leak into it); same result shapes as run_harness"""
    from concurrent.futures import ThreadPoolExecutor

    def one(c):
        r = run_harness(bindir, [c], timeout_ms, stop_after_hangs=1)
        return r[0] if r else {"crash": -1}
    with ThreadPoolExecutor(max_workers=workers or max(2, min(8, vlib.NCPU - 2))) as ex:
        return list(ex.map(one, cases))


def fresh_case(case, k, full=False):
    """the fresh host of C07 for the state after the first k+1 operations: it is given only the
    final file contents (disk overlaid by every touched text) and touches the final root once"""
    fsys = overlay_after(case, k + 1)
    root = [p for kind, p, _ in case["history"][:k + 1] if kind != "raw"][-1]
    c = {"mode": "memfs", "files": sorted([p, t] for p, t in fsys.items()), "include_dir": case.get("include_dir"),
         "history": [["touch", root, fsys[root]]]}
    if full:
        c["full"] = True
    c["host_only"] = True
    return c


def proj_inputs(s):
    """the three salsa inputs of a harness step keyed by path, restricted to the workspace
    (= the [view] of the C07 theorem) plus every query result"""
    files = s.get("files") or []
    fset = set(files)
    if "host" in s:      # the real AnalysisHost disagrees with the harness' own database: the property speaks of the host
        s = dict(s, diagnostics=s["host"]["diagnostics"], links=s["host"]["links"], outline=s["host"]["outline"],
                 diag_keys=sorted(s["host"]["diagnostics"]))
    o = {"root": s.get("root"), "files": sorted(files),
         "file_content": {p: c for p, c in s["fc"] if p in fset},
         "resolved_include_map": {p: (None if m is None else sorted(map(list, m))) for p, m in s["rim"] if p in fset},
         "diag_keys": s.get("diag_keys"),
         "diagnostics": {p: sorted(map(list, v)) for p, v in (s.get("diagnostics") or {}).items()},
         "links": s.get("links"), "outline": s.get("outline")}
    if "queries" in s:
        o["queries"] = s["queries"]
    return o


def first_diff(a, b):
    for k in sorted(set(a) | set(b)):
        if a.get(k) != b.get(k):
            return k, a.get(k), b.get(k)
    return None


# ----------------------------------------------------------------------------- the real Server (lspdrive, C12)

LSP_TMP = os.path.join(vlib.CACHE, "host", "lspdrive")


def lsp_script(case, files_per_step):
    """lspdrive session for a history of touches: didOpen for the first touch of a path, didChange afterwards;
    after every notification a documentSymbol request for every file of the reference workspace at that step
    (a request for a document the server has never seen makes from_proto.rs unwrap a None and the main loop exit:
    not this property's matter)."""
    steps, seen, marks = [], [], []
    for k, (kind, p, t) in enumerate(case["history"]):
        steps.append({"open": p, "text": t} if p not in seen else {"change": p, "text": t})
        if p not in seen:
            seen.append(p)
        steps.append({"wait_idle": True})
        req = {}
        for q in sorted(files_per_step[k] if k < len(files_per_step) else []):
            req[q] = len(steps)
            steps.append({"request": "documentSymbol", "path": q, "line": 0, "character": 0})
        steps.append({"wait_idle": True})
        marks.append(req)
    # (server group) two sessions out of three run in a workspace directory whose name needs percent-encoding in a
    # file: URI or contains URI-reserved / percent-like characters: the Vfs keys (editor buffers, file ids) and the URIs
    # the server sends must not depend on how the path is spelled in the URI
    subdirs = ["", "w #1", "\u00e9t\u00e9 dir", "", "c%41", "q?x"]
    sub = subdirs[(len(case["history"]) + 2 * len(case["files"]) + len(steps)) % len(subdirs)]
    return {"files_on_disk": case["files"], "mode": "settled", "steps": steps, "workspace_subdir": sub,
            "watchdog_ms": 10000, "quiet_ms": 300, "hard_ms": 60000}, marks


def run_lsp(bindir, script):
    os.makedirs(LSP_TMP, exist_ok=True)
    try:
        p = subprocess.run([os.path.join(bindir, "lspdrive")], input=json.dumps(script), stdout=subprocess.PIPE,
                           stderr=subprocess.PIPE, text=True, timeout=90, env=dict(os.environ, LSPDRIVE_TMP=LSP_TMP))
        return json.loads(p.stdout)
    except Exception as ex:          # noqa: a session that cannot be used is counted, not judged (C08's matter)
        return {"unusable": "%s: %s" % (type(ex).__name__, ex)}


def lsp_observe(out, script, marks):
    """per touch: ({path: sorted published diagnostics [l0,c0,l1,c1,msg]}, {path: [symbol names] | None});
    None when the session cannot be used (hang, crash, unanswered request: C08's matter)."""
    if out.get("unusable") or out.get("timed_out") or out.get("unanswered") or out.get("server_exited") or out.get("crashed"):
        return None
    resp = {e["step"]: e for e in out["log"] if e.get("ev") == "response" and e.get("step", -1) >= 0}
    snaps, cur, k = [], {}, -1
    for e in out["log"]:
        if e.get("ev") == "sent" and e.get("what") in ("didOpen", "didChange"):
            if k >= 0:
                snaps.append(dict(cur))          # everything published before the next notification was sent
            k += 1
        elif e.get("ev") == "publish":
            cur[pnorm(e["path"])] = sorted([list(d["range"]) + [d["message"]] for d in e["diagnostics"]])
    if k >= 0:
        snaps.append(dict(cur))
    if len(snaps) != len(marks):
        return None
    res = []
    for k, diags in enumerate(snaps):
        syms = {}
        for q, stp in marks[k].items():
            e = resp.get(stp)
            if e is None or "result" not in e:
                return None
            r = e["result"]
            syms[q] = None if r is None else [x.get("name") for x in r]
        res.append((diags, syms))
    return res


def offsets_to_lsp(text, a, b):
    """byte offsets -> [l0, c0, l1, c1] (ASCII texts, '\n' line breaks: the generators of this group)"""
    def conv(o):
        pre = text[:o]
        return [pre.count("\n"), len(pre) - (pre.rfind("\n") + 1)]
    return conv(a) + conv(b)
