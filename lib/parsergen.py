"""Input families for the parser-level properties (C01, C02): all draw from a caller-supplied
random.Random.  A "program" is a list of token strings; `render` joins them with generated trivia.

families:
  token_class_sequences(n)  exhaustive sequences of token-class representatives up to length n
  alphabet_strings(n)       exhaustive strings over an alphabet of lexically significant characters
  gen_program(rng, size)    random TableGen programs from a hand-written grammar (syntax.md)
  mutate(rng, toks)         token-level deletion / insertion / duplication / transposition
  noise(rng, text)          byte noise and non-ASCII insertions
  unterminated(...)         adversarial unterminated constructs at every position (C02)
  nesting(depth)            deep nesting of every recursive construct (C02)
"""
import itertools

# ---------------------------------------------------------------------------- token classes

KEYWORDS = ["assert", "bit", "bits", "class", "code", "dag", "def", "defm", "defset", "defvar", "dump", "else",
            "false", "field", "foreach", "if", "in", "include", "int", "let", "list", "multiclass", "string",
            "then", "true"]
PUNCT = ["-", "+", "[", "]", "{", "}", "(", ")", "<", ">", ":", ";", ",", ".", "=", "?", "#", "...", ".."]
BANGOPS = ["!add", "!cond", "!cast", "!foreach", "!if", "!getdagop", "!bogus", "!"]
LITERALS = ["0", "42", "-7", "+3", "0b101", "0x1F", "0b", "0x", "4x", "99999999999999999999999", "\"s\"", "\"a\\\"b\"",
            "\"unterminated", "[{ code }]", "[{ unterminated", "$v", "$", "X", "_a1", "é", "\\"]
TRIVIA = [" ", "\n", "\r\n", "\t", "// c\n", "// c", "/* c */", "/* a /* b */ c */", "/* unterminated"]
DIRECTIVES = ["#ifdef X\n", "#ifndef X\n", "#else\n", "#endif\n", "#define X\n", "#ifdef\n", "#define 1\n", "#ifdef X", "#else",
              "#endif", "#define X", "#include"]

# one representative per token class that the grammar distinguishes (plus the error / trivia / directive classes)
TOKEN_CLASSES = (["class", "def", "defm", "defset", "defvar", "dump", "foreach", "if", "then", "else", "let", "in",
                  "multiclass", "include", "assert", "field", "int", "bits", "list", "code", "true"]
                 + ["-", "[", "]", "{", "}", "(", ")", "<", ">", ":", ";", ",", ".", "=", "?", "#", "..."]
                 + ["!add", "!cond", "!bogus"]
                 + ["1", "0b1", "\"s\"", "\"u", "[{c}]", "[{u", "$v", "X", "é"]
                 + ["// c\n", "/* c */", "/* u"]
                 + ["#ifdef X\n", "#ifndef X\n", "#else\n", "#endif\n", "#define X\n", "#ifdef\n"])


def token_class_sequences(n, seps=(" ", "")):
    """every sequence of at most n token-class representatives, joined by each separator"""
    for k in range(0, n + 1):
        for seq in itertools.product(TOKEN_CLASSES, repeat=k):
            for sep in (seps if k > 1 else seps[:1]):
                yield sep.join(seq)


LEX_ALPHABET = ["#", "/", "*", "\"", "\\", "[", "{", "}", "]", "(", ")", "<", ">", "!", "$", ".", "-", "+", "0", "1",
                "x", "b", "a", "_", " ", "\n", "\r", "é", "€", "\U0001F600", " ", ";"]


def alphabet_strings(n):
    for k in range(0, n + 1):
        for seq in itertools.product(LEX_ALPHABET, repeat=k):
            yield "".join(seq)


# ---------------------------------------------------------------------------- grammar-generated programs

class Gen:
    def __init__(self, rng, budget):
        self.r = rng
        self.budget = budget
        self.out = []

    def t(self, *toks):
        self.out.extend(toks)
        self.budget -= len(toks)

    def small(self):
        return self.budget <= 0

    def ident(self):
        return self.r.choice(["A", "B", "Foo", "bar", "x", "y1", "_z", "Inst", "R0", "NAME", "4x", "0_f"])

    def integer(self):
        return self.r.choice(["0", "1", "42", "-1", "+7", "0b1010", "0x1f", "0xFF"])

    def string(self):
        return self.r.choice(["\"\"", "\"abc\"", "\"a b\"", "\"q\\\"q\"", "\"x\\\\\"", "\"é€\"", "\"tab\\t\""])

    def code(self):
        return self.r.choice(["[{ }]", "[{ return 1; }]", "[{ a ] } b }]", "[{\n multi\n line\n}]", "[{é}]"])

    def type(self, d=0):
        c = self.r.randrange(9 if d < 2 and not self.small() else 7)
        if c == 0:
            self.t("bit")
        elif c == 1:
            self.t("int")
        elif c == 2:
            self.t("string")
        elif c == 3:
            self.t("dag")
        elif c == 4:
            self.t("code")
        elif c == 5:
            self.t("bits", "<", self.integer(), ">")
        elif c == 6:
            self.t(self.ident())
        else:
            self.t("list", "<")
            self.type(d + 1)
            self.t(">")

    def range_piece(self):
        c = self.r.randrange(4)
        self.t(self.r.choice(["0", "1", "7", "31"]))
        if c == 1:
            self.t("...", self.r.choice(["3", "15"]))
        elif c == 2:
            self.t("-", self.r.choice(["3", "15"]))
        elif c == 3:
            self.t("-3")

    def range_list(self):
        self.range_piece()
        while self.r.random() < 0.3:
            self.t(",")
            self.range_piece()

    def value(self, d=0):
        self.inner_value(d)
        while self.r.random() < 0.12 and not self.small():
            self.t("#")
            self.inner_value(d + 1)

    def inner_value(self, d):
        self.simple_value(d)
        while self.r.random() < 0.18 and not self.small():
            c = self.r.randrange(3)
            if c == 0:
                self.t("{")
                self.range_list()
                self.t("}")
            elif c == 1:
                self.t("[")
                self.slice_elements(d + 1)
                self.t("]")
            else:
                self.t(".", self.ident())

    def slice_elements(self, d):
        self.value(d)
        c = self.r.randrange(4)
        if c == 0:
            self.t("...")
            self.value(d)
        elif c == 1:
            self.t("-")
            self.value(d)
        elif c == 2:
            self.t(",")
            self.value(d)
            if self.r.random() < 0.3:
                self.t(",")

    def simple_value(self, d):
        deep = d >= 3 or self.small()
        c = self.r.randrange(7 if deep else 13)
        if c == 0:
            self.t(self.integer())
        elif c == 1:
            self.t(self.string())
            while self.r.random() < 0.15:
                self.t(self.string())
        elif c == 2:
            self.t(self.code())
        elif c == 3:
            self.t(self.r.choice(["true", "false"]))
        elif c == 4:
            self.t("?")
        elif c in (5, 6):
            self.t(self.ident())
        elif c == 7:
            self.t("{")
            self.value_list(d + 1)
            self.t("}")
        elif c == 8:
            self.t("[")
            if self.r.random() < 0.8:
                self.value_list(d + 1)
            self.t("]")
            if self.r.random() < 0.3:
                self.t("<")
                self.type()
                self.t(">")
        elif c == 9:
            self.t("(")
            op = self.r.random()
            if op < 0.75:
                self.t(self.ident())
                if self.r.random() < 0.3:
                    self.t(":", "$" + self.ident())
            elif op < 0.85:
                self.t("?")
            elif op < 0.95:
                self.t("!cast", "<", self.ident(), ">", "(", self.string(), ")")
            else:
                self.dagarg(d + 1)          # (not a dag operator: exercises the error path)
            first = True
            while self.r.random() < 0.5 and not self.small():
                if not first:
                    self.t(",")
                first = False
                self.dagarg(d + 1)
            self.t(")")
        elif c == 10:
            self.t(self.ident(), "<")
            if self.r.random() < 0.8:
                self.arg_value_list(d + 1)
            self.t(">")
        elif c == 11:
            self.t(self.r.choice(["!add", "!strconcat", "!if", "!foreach", "!cast", "!eq", "!listconcat", "!size", "!isa"]))
            if self.r.random() < 0.3:
                self.t("<")
                self.type()
                self.t(">")
            self.t("(")
            self.value_list(d + 1)
            self.t(")")
        else:
            self.t("!cond", "(")
            self.value(d + 1)
            self.t(":")
            self.value(d + 1)
            while self.r.random() < 0.4:
                self.t(",")
                self.value(d + 1)
                self.t(":")
                self.value(d + 1)
            self.t(")")

    def dagarg(self, d):
        c = self.r.randrange(3)
        if c == 0:
            self.t("$" + self.ident())
        else:
            self.value(d)
            if c == 1:
                self.t(":", "$" + self.ident())

    def value_list(self, d):
        self.value(d)
        while self.r.random() < 0.4 and not self.small():
            self.t(",")
            self.value(d)
        if self.r.random() < 0.05:
            self.t(",")

    def arg_value_list(self, d):
        named = False
        while True:
            if named or self.r.random() < 0.25:
                named = True
                self.value(d)
                self.t("=")
                self.value(d)
            else:
                self.value(d)
            if self.r.random() > 0.4 or self.small():
                break
            self.t(",")

    def template_args(self):
        self.t("<")
        while True:
            self.type()
            self.t(self.ident())
            if self.r.random() < 0.4:
                self.t("=")
                self.value(2)
            if self.r.random() > 0.4:
                break
            self.t(",")
        self.t(">")

    def parent_classes(self):
        self.t(":")
        while True:
            self.t(self.ident())
            if self.r.random() < 0.4:
                self.t("<")
                if self.r.random() < 0.8:
                    self.arg_value_list(2)
                self.t(">")
            if self.r.random() > 0.3:
                break
            self.t(",")

    def body(self):
        if self.r.random() < 0.3:
            self.t(";")
            return
        self.t("{")
        while self.r.random() < 0.7 and not self.small():
            c = self.r.randrange(6)
            if c in (0, 1):
                if self.r.random() < 0.2:
                    self.t("field")
                self.type()
                self.t(self.ident())
                if self.r.random() < 0.6:
                    self.t("=")
                    self.value(1)
                self.t(";")
            elif c == 2:
                self.t("let", self.ident())
                if self.r.random() < 0.2:
                    self.t("{")
                    self.range_list()
                    self.t("}")
                self.t("=")
                self.value(1)
                self.t(";")
            elif c == 3:
                self.defvar()
            elif c == 4:
                self.t("assert")
                self.value(1)
                self.t(",")
                self.value(2)
                self.t(";")
            else:
                self.t("dump")
                self.value(1)
                self.t(";")
        self.t("}")

    def record_body(self):
        if self.r.random() < 0.5:
            self.parent_classes()
        self.body()

    def defvar(self):
        self.t("defvar", self.ident(), "=")
        self.value(1)
        self.t(";")

    def object_name(self):
        if self.r.random() < 0.8:
            self.value(2)

    def block_or_stmt(self, d, multi):
        if self.r.random() < 0.6:
            self.t("{")
            while self.r.random() < 0.6 and not self.small():
                self.statement(d + 1, multi)
            self.t("}")
        else:
            self.statement(d + 1, multi)

    def statement(self, d=0, multi=False):
        deep = d >= 3 or self.small()
        opts = ["def", "defm", "assert", "dump", "defvar"] if deep else \
            ["def", "def", "defm", "assert", "dump", "foreach", "if", "let", "defvar", "class", "class", "multiclass",
             "defset", "include"]
        if multi:
            opts = [o for o in opts if o in ("def", "defm", "assert", "dump", "foreach", "if", "let")] or ["def"]
        c = self.r.choice(opts)
        if c == "include":
            self.t("include", self.string())
        elif c == "class":
            self.t("class", self.ident())
            if self.r.random() < 0.5:
                self.template_args()
            self.record_body()
        elif c == "def":
            self.t("def")
            self.object_name()
            self.record_body()
        elif c == "defm":
            self.t("defm")
            self.object_name()
            self.parent_classes()
            self.t(";")
        elif c == "defset":
            self.t("defset")
            self.type()
            self.t(self.ident(), "=", "{")
            while self.r.random() < 0.5 and not self.small():
                self.statement(d + 1)
            self.t("}")
        elif c == "defvar":
            self.defvar()
        elif c == "dump":
            self.t("dump")
            self.value(1)
            self.t(";")
        elif c == "assert":
            self.t("assert")
            self.value(1)
            self.t(",")
            self.value(2)
            self.t(";")
        elif c == "foreach":
            self.t("foreach", self.ident(), "=")
            k = self.r.randrange(3)
            if k == 0:
                self.t("{")
                self.range_list()
                self.t("}")
            elif k == 1:
                self.range_piece()
            else:
                self.value(2)
            self.t("in")
            self.block_or_stmt(d, multi)
        elif c == "if":
            self.t("if")
            self.value(1)
            self.t("then")
            self.block_or_stmt(d, multi)
            if self.r.random() < 0.4:
                self.t("else")
                self.block_or_stmt(d, multi)
        elif c == "let":
            self.t("let")
            while True:
                self.t(self.ident())
                if self.r.random() < 0.2:
                    self.t("<")
                    self.range_list()
                    self.t(">")
                self.t("=")
                self.value(1)
                if self.r.random() > 0.3:
                    break
                self.t(",")
            self.t("in")
            self.block_or_stmt(d, multi)
        elif c == "multiclass":
            self.t("multiclass", self.ident())
            if self.r.random() < 0.4:
                self.template_args()
            if self.r.random() < 0.3:
                self.parent_classes()
            self.t("{")
            self.statement(d + 1, True)
            while self.r.random() < 0.5 and not self.small():
                self.statement(d + 1, True)
            self.t("}")


def gen_program(rng, size):
    """token list of a random (mostly valid) TableGen program of roughly `size` tokens"""
    g = Gen(rng, size)
    while not g.small():
        g.statement()
    return g.out


DIRECTIVE_LINES = ["#ifdef X", "#ifndef X", "#ifdef Y", "#else", "#endif", "#define X", "#define Y", "#ifdef", "#define",
                   "#ifndef 1"]


def render(rng, toks, trivia=0.25, directives=0.0, crlf=False):
    """join tokens with whitespace / comments / newlines (and optionally preprocessor lines)"""
    out = []
    nl = "\r\n" if crlf else "\n"
    for i, t in enumerate(toks):
        x = rng.random()
        if i:
            if x < trivia * 0.3:
                out.append(nl)
            elif x < trivia * 0.5:
                out.append(" // " + rng.choice(["c", "é comment", "TODO", ""]) + nl)
            elif x < trivia * 0.6:
                out.append(" /* " + rng.choice(["c", "a\nb", "/* n */", "€"]) + " */ ")
            elif x < trivia * 0.65:
                out.append("")
            else:
                out.append(" ")
        if directives and rng.random() < directives:
            out.append(nl + rng.choice(DIRECTIVE_LINES) + nl)
        out.append(t)
    if rng.random() < 0.7:
        out.append(nl)
    return "".join(out)


def balanced_directives(rng, toks, n=2):
    """insert n well-formed #ifdef/#else/#endif structures (as pseudo tokens with their own newlines)"""
    toks = list(toks)
    for _ in range(n):
        if len(toks) < 2:
            break
        i = rng.randrange(len(toks))
        j = rng.randrange(i, len(toks))
        m = rng.choice(["X", "Y"])
        head = rng.choice(["\n#ifdef %s\n", "\n#ifndef %s\n"]) % m
        if rng.random() < 0.5:
            k = rng.randrange(i, j + 1)
            toks[j:j] = ["\n#endif\n"]
            toks[k:k] = ["\n#else\n"]
        else:
            toks[j:j] = ["\n#endif\n"]
        toks[i:i] = [head]
        if rng.random() < 0.5:
            toks[0:0] = ["#define %s\n" % m]
    return toks


INSERT_POOL = KEYWORDS + PUNCT + BANGOPS + LITERALS + ["#ifdef X\n", "#else\n", "#endif\n", "#define X\n", "// c\n", "/* c */"]


def mutate(rng, toks, n=1):
    toks = list(toks)
    for _ in range(n):
        if not toks:
            toks.append(rng.choice(INSERT_POOL))
            continue
        c = rng.randrange(5)
        i = rng.randrange(len(toks))
        if c == 0:
            del toks[i]
        elif c == 1:
            toks.insert(i, rng.choice(INSERT_POOL))
        elif c == 2:
            toks.insert(i, toks[i])
        elif c == 3 and len(toks) > 1:
            j = min(i + 1, len(toks) - 1)
            toks[i], toks[j] = toks[j], toks[i]
        else:
            toks[i] = rng.choice(INSERT_POOL)
    return toks


NOISE_CHARS = ["é", "€", "\U0001F600", " ", " ", "　", "\x00", "\x0b", "\x0c", "\r", "\t", "\\", "\"", "'",
               "`", "@", "~", "%", "^", "&", "|", "﻿", "\U0010FFFF", "ǅ", "ⅷ", "١"]


def noise(rng, text, n=3):
    cs = list(text)
    for _ in range(n):
        c = rng.randrange(4)
        i = rng.randrange(len(cs) + 1)
        if c == 0 and cs:
            del cs[min(i, len(cs) - 1)]
        elif c == 1:
            cs.insert(i, rng.choice(NOISE_CHARS))
        elif c == 2:
            cs.insert(i, chr(rng.choice([rng.randrange(1, 128), rng.randrange(128, 0x800), rng.randrange(0x800, 0xD800),
                                         rng.randrange(0xE000, 0x10000), rng.randrange(0x10000, 0x110000)])))
        elif cs:
            j = min(i, len(cs) - 1)
            cs[j] = rng.choice(NOISE_CHARS)
    return "".join(cs)


def random_text(rng, n):
    """n random characters, half of them from the lexical alphabet"""
    return "".join(rng.choice(LEX_ALPHABET) if rng.random() < 0.6 else rng.choice(NOISE_CHARS + KEYWORDS[:6]) for _ in range(n))


# ---------------------------------------------------------------------------- C02 adversarial families

UNTERMINATED = ["\"", "\"abc", "\"abc\\", "[{", "[{ code ]", "/*", "/* a /* b */", "#ifdef X\n", "#ifdef X\n#else\n",
                "#ifndef X\n", "#ifdef", "#define", "(", "[", "{", "<", "!cond(", "!add(", "let x =", "class A<", "def :",
                "foreach i =", "if", "multiclass M {", "defset", "include", "[1,", "(op a,", "x{", "x[", "x."]


def unterminated_at_every_position(toks, max_pos=None):
    """for every token boundary of toks: the prefix followed by each unterminated opener (and the same
    with the rest of the program appended after it)"""
    n = len(toks) if max_pos is None else min(len(toks), max_pos)
    for i in range(n + 1):
        pre = " ".join(toks[:i])
        post = " ".join(toks[i:])
        for u in UNTERMINATED:
            yield (pre + " " + u).strip()
            yield (pre + " " + u + " " + post).strip()


def nesting(depth):
    """every recursive construct nested `depth` deep (bracketed and unbracketed), closed and unclosed"""
    d = depth
    yield "def x { int v = " + "[" * d + "1" + "]" * d + "; }"
    yield "def x { int v = " + "[" * d
    yield "def x { int v = " + "(a " * d + ")" * d + "; }"
    yield "def x { int v = " + "(a " * d
    yield "def x { int v = " + "{" * d + "1" + "}" * d + "; }"
    yield "def x { int v = " + "{" * d
    yield "def x { int v = " + "!add(" * d + "1" + ")" * d + "; }"
    yield "def x { int v = " + "!add(" * d
    yield "def x { int v = " + "!cond(" * d + "1" + ": 1)" * d + "; }"
    yield "def x { int v = " + "A<" * d + "1" + ">" * d + "; }"
    yield "def x { int v = " + "A<" * d
    yield "def x { int v = a" + "[" * d + "1" + "]" * d + "; }"
    yield "def x { " + "list<" * d + "int" + ">" * d + " v; }"
    yield "def x { " + "list<" * d
    yield "let a = 1 in " * d + "def x;"
    yield "let a = 1 in { " * d + "def x;" + " }" * d
    yield "let a = 1 in { " * d
    yield "foreach i = [1] in " * d + "def x;"
    yield "foreach i = [1] in { " * d + " }" * d
    yield "if 1 then " * d + "def x;"
    yield "if 1 then { " * d + "}" * d
    yield "if 1 then def a; else " * d + "def x;"
    yield "defset list<A> s = { " * d + "}" * d
    yield "multiclass M { " + "let a = 1 in { " * d + "def x;" + " }" * d + " }"
    yield "def x { int v = " + "1 # " * d + "1; }"
    yield "def x { int v = a" + ".b" * d + "; }"
    yield "def x { int v = a" + "{1}" * d + "; }"
    yield "#ifdef X\n" * d + "class A;\n" + "#endif\n" * d
    yield "#ifndef X\n" * d + "class A;\n"
    yield "/*" * d + "*/" * d
    yield "/*" * d
    yield "[{" * d
    yield "class A : " + "B<" * d + "1" + ">" * d + ";"


DEEP_OPENERS = [("[", "]", "1"), ("(op ", ")", "a"), ("!add(", ")", "1"), ("A<", ">", "1"), ("{", "}", "1"), ("!cond(", ": 1)", "1"),
                ("list<", ">", None)]
DEEP_TAILS = ["; }\nclass Z { int z = 1; } // tail comment\n#ifdef X\nq q\n#else\ndef t;\n#endif\n/* end */\n",
              "\n; def u : V<1>; \"s\" é\n"]


def deep_with_tail(depths, tails=2):
    """values / types nested `d` deep (closed and unclosed) FOLLOWED by more text: statements, comments, directive
    regions, an error token.  Whatever a parser does at some nesting limit, the text after it must stay in the tree."""
    for d in depths:
        for (o, c, atom) in DEEP_OPENERS:
            for tail in DEEP_TAILS[:tails]:
                if atom is None:
                    yield "def x { " + o * d + "int" + c * d + " v" + tail
                    yield "def x { " + o * d + "int" + c * (d // 2) + tail
                else:
                    yield "def x { int v = " + o * d + atom + c * d + tail
                    yield "def x { int v = " + o * d + atom + c * (d // 2) + tail
                    yield "def x { int v = " + o * d + tail
