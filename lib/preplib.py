"""Helpers of checks/C15.py (property C15, preprocessor):

* `ref_eval`     the REFERENCE EVALUATOR of conditional regions over the raw token list of the real lexer
                 (written from the property text and the TableGen Programmer's Reference, "Preprocessing
                 Facilities"; it does not look at the Coq model nor at preprocessor.rs);
* `judge`        the implementation-side oracle: rules (i)-(iv) on the observations of the real code
                 (prepdump = PreProcessor<Lexer> token stream with the errors taken as ParserBase::save does,
                 parsedump = syntax::parse tree / leaves / errors());
* `structure`    a small structure parser: raw token list -> the arrangement (item tree by token index) that
                 `prepspec_run select` turns into PrepSpec.item values (tie Coq SPEC <-> reference evaluator);
* `metamorphic`  parse(full text) vs parse(text with everything that is not selected blanked out);
* generators     exhaustive directive/token sequences and random nested programs;
* `examine`      runs everything on a batch of texts and returns per-text verdicts.
"""
import itertools
import json
import os
import re
import subprocess
import sys

sys.path.insert(0, os.path.dirname(os.path.abspath(__file__)))
import vlib
import treeio
import synlib

TRIVIA = ("Whitespace", "LineComment", "BlockComment")
NOT_DELIVERED = ("Whitespace", "LineComment", "BlockComment", "PreProcessor", "Eof")
MSG = {"Ifdef": "expected macro name after #ifdef",
       "Ifndef": "expected macro name after #ifndef",
       "Define": "expected macro name after #define"}
MSG_EOF = "reached EOF without matching #endif"
PREP_MSGS = set(MSG.values()) | {MSG_EOF}
LEX_MSGS = set()        # filled by Tables (messages of the current lexer.rs)


# ------------------------------------------------------------------------------------- reference evaluator

def ref_eval(raw, tb):
    """raw: [[kind, start, end, err], ...] of the real lexer WITHOUT the final Eof; tb: UTF-8 bytes of the text.

    Enabled context : plain tokens are selected; `#define NAME` defines NAME; `#ifdef/#ifndef NAME` opens a
                      conditional whose first branch is enabled iff NAME is (not) defined NOW; `#else` switches
                      to the other branch; `#endif` closes.  NAME = the next token that is not white space / a
                      comment, which must be an identifier.
    Disabled context: only the nesting is tracked (#ifdef/#ifndef +1 whatever follows, #endif -1, #else matters
                      only at the level of the disabled conditional); #define is ignored; nothing is selected;
                      nothing is diagnosed.
    Result classes  : "i"   well nested, every enabled directive has its name;
                      "ii"  an ENABLED #ifdef/#ifndef/#define lacks its name (evaluation stops there);
                      "iii" end of file inside >= 1 open conditional;
                      "iv"  stray #else / #endif or a second #else (the property is silent; evaluation stops).
    """
    n = len(raw)
    selected, disabled = [], []
    macros = set()
    stack = []                 # open conditionals in enabled context: [has_else]
    st = {"cond": 0, "cond_enabled": 0, "else": 0, "define": 0, "define_ignored": 0, "maxdepth": 0,
          "else_deep_disabled": 0, "else_deep_enabled": 0, "endif_deep_disabled": 0, "skips": 0,
          "nameless_in_disabled": 0, "lexerr_disabled": 0, "lexerr_selected": 0}
    i = 0

    def name_after(i):
        j = i + 1
        while j < n and raw[j][0] in TRIVIA:
            j += 1
        if j < n and raw[j][0] == "Id":
            return j
        return None

    def result(cls, stop=None):
        return {"cls": cls, "selected": selected, "disabled": disabled, "macros": sorted(macros),
                "stop": stop, "open": len(stack), "stats": st}

    def skip(i):
        """disabled region starting at token i; returns (index of the terminator or n, kind of terminator)"""
        depth = 1
        st["skips"] += 1
        while i < n:
            k = raw[i][0]
            if k in ("Ifdef", "Ifndef"):
                depth += 1
                st["cond"] += 1
                st["maxdepth"] = max(st["maxdepth"], len(stack) + depth - 1)
                if name_after(i) is None:
                    st["nameless_in_disabled"] += 1
            elif k == "Endif":
                depth -= 1
                if depth == 0:
                    return i, "Endif"
                st["endif_deep_disabled"] += 1
            elif k == "Else":
                if depth == 1:
                    return i, "Else"
                st["else_deep_disabled"] += 1
            elif k == "Define":
                st["define_ignored"] += 1
            elif k == "Error":
                st["lexerr_disabled"] += 1
            disabled.append(i)
            i += 1
        return n, None

    while i < n:
        k = raw[i][0]
        if k == "Define":
            j = name_after(i)
            if j is None:
                return result("ii", {"at": i, "msg": MSG["Define"]})
            macros.add(tb[raw[j][1]:raw[j][2]].decode("utf-8"))
            st["define"] += 1
            i = j + 1
        elif k in ("Ifdef", "Ifndef"):
            j = name_after(i)
            if j is None:
                return result("ii", {"at": i, "msg": MSG[k]})
            name = tb[raw[j][1]:raw[j][2]].decode("utf-8")
            taken = (name in macros) == (k == "Ifdef")
            stack.append([False])
            st["cond"] += 1
            st["cond_enabled"] += 1
            st["maxdepth"] = max(st["maxdepth"], len(stack))
            i = j + 1
            if not taken:
                i, term = skip(i)
                if term is None:
                    return result("iii")
                if term == "Else":
                    stack[-1][0] = True
                    st["else"] += 1
                else:
                    stack.pop()
                i += 1
        elif k == "Else":
            if not stack:
                return result("iv", {"at": i, "what": "stray #else"})
            if stack[-1][0]:
                return result("iv", {"at": i, "what": "second #else"})
            stack[-1][0] = True
            st["else"] += 1
            if len(stack) >= 2:
                st["else_deep_enabled"] += 1
            i, term = skip(i + 1)
            if term is None:
                return result("iii")
            if term == "Else":
                return result("iv", {"at": i, "what": "second #else"})
            stack.pop()
            i += 1
        elif k == "Endif":
            if not stack:
                return result("iv", {"at": i, "what": "stray #endif"})
            stack.pop()
            i += 1
        else:
            if k == "Error":
                st["lexerr_selected"] += 1
            selected.append(i)
            i += 1
    if stack:
        return result("iii")
    return result("i")


# ------------------------------------------------------------------------------------- implementation-side oracle

def delivered(prep_tokens):
    """non-trivia entries of the real preprocessed stream: what the parser is handed"""
    return [t for t in prep_tokens if t[0] not in NOT_DELIVERED]


def expected_tokens(raw, idxs):
    return [[raw[i][0], raw[i][1], raw[i][2], raw[i][3]] for i in idxs if raw[i][0] not in TRIVIA]


def judge(tb, raw, ev, prep, parse, tk2sk, sk_triv):
    """Rules (i)-(iv).  prep: prepdump object; parse: parsedump --flat object or None.  Returns a list of
    failures {"rule", "expected", "observed"}; demands exactly what the property states."""
    fails = []
    if "panic" in prep or "crash" in prep:
        return [{"rule": "observer", "expected": "a token stream", "observed": prep}]
    cls = ev["cls"]
    if cls == "iv":
        return fails
    exp = expected_tokens(raw, ev["selected"])
    real = delivered(prep["tokens"])
    perr = [e[2] for e in parse["errors"]] if parse and "errors" in parse else None
    pleaves = None
    if parse and "leaves" in parse:
        pleaves = [l for l in parse["leaves"] if l[0] not in sk_triv and l[0] != "Eof"]
    exp_leaves = [[tk2sk[t[0]], t[1], t[2]] for t in exp]
    if parse is not None and ("panic" in parse or "crash" in parse):
        fails.append({"rule": cls + "-parse-panic", "expected": "a tree", "observed": parse})
        pleaves = perr = None

    def first_diff(a, b):
        k = 0
        while k < len(a) and k < len(b) and a[k] == b[k]:
            k += 1
        return {"index": k, "expected": a[k] if k < len(a) else None, "observed": b[k] if k < len(b) else None,
                "expected_count": len(a), "observed_count": len(b)}

    # every Error TOKEN of the tree carries exactly one lexer / preprocessor message (ParserBase::save takes one)
    if parse and "leaves" in parse and perr is not None and LEX_MSGS:
        n_tok = sum(1 for l in parse["leaves"] if l[0] == "Error")
        n_msg = sum(1 for m in perr if m in PREP_MSGS or m in LEX_MSGS)
        if n_tok != n_msg:
            fails.append({"rule": cls + "-one-message-per-error-token",
                          "expected": "%d Error tokens in the tree -> %d lexer/preprocessor messages in Parse::errors()" % (n_tok, n_tok),
                          "observed": [m for m in perr if m in PREP_MSGS or m in LEX_MSGS][:20]})
    if cls == "i":
        if real != exp:
            d = first_diff(exp, real)
            spurious = [t for t in real if t[0] == "Error" and t[3] in PREP_MSGS]
            fails.append({"rule": "i-delivered-tokens",
                          "expected": "delivered non-trivia tokens == tokens selected by the reference evaluation"
                                      " (kind, range, lexer message); no preprocessor diagnostic",
                          "observed": {"first_difference": d, "preprocessor_diagnostics": spurious}})
        if sorted(prep.get("macros", [])) != ev["macros"]:
            fails.append({"rule": "i-macros", "expected": ev["macros"], "observed": prep.get("macros")})
        if pleaves is not None and pleaves != exp_leaves:
            fails.append({"rule": "i-parse-leaves", "expected": "non-trivia leaves of syntax::parse == selected tokens",
                          "observed": first_diff(exp_leaves, pleaves)})
        if perr is not None:
            bad = [m for m in perr if m in PREP_MSGS]
            if bad:
                fails.append({"rule": "i-parse-diagnostic", "expected": "no preprocessor message in Parse::errors()",
                              "observed": bad})
    elif cls == "ii":
        d = ev["stop"]["at"]
        cut = raw[d][1]
        real_before = [t for t in real if t[2] <= cut]
        if real_before != exp:
            fails.append({"rule": "ii-tokens-before", "expected": "tokens selected before the directive delivered exactly",
                          "observed": first_diff(exp, real_before)})
        msg = ev["stop"]["msg"]
        if not any(t[0] == "Error" and t[3] == msg for t in prep["tokens"]):
            fails.append({"rule": "ii-not-reported", "expected": "Error token with message %r" % msg,
                          "observed": [t for t in prep["tokens"] if t[0] == "Error"]})
        if perr is not None and msg not in perr:
            fails.append({"rule": "ii-not-reported-parse", "expected": "%r in Parse::errors()" % msg, "observed": perr})
        if pleaves is not None:
            lb = [l for l in pleaves if l[2] <= cut]
            if lb != exp_leaves:
                fails.append({"rule": "ii-parse-leaves-before", "expected": "leaves before the directive == selected tokens",
                              "observed": first_diff(exp_leaves, lb)})
    elif cls == "iii":
        real2 = [t for t in real if not (t[0] == "Error" and t[3] == MSG_EOF)]
        if real2 != exp:
            fails.append({"rule": "iii-delivered-tokens", "expected": "delivered tokens == selected tokens (+ the EOF report)",
                          "observed": first_diff(exp, real2)})
        if not any(t[0] == "Error" and t[3] == MSG_EOF for t in prep["tokens"]):
            fails.append({"rule": "iii-not-reported", "expected": "Error token with message %r" % MSG_EOF,
                          "observed": [t for t in prep["tokens"] if t[0] == "Error"]})
        if perr is not None and MSG_EOF not in perr:
            fails.append({"rule": "iii-not-reported-parse", "expected": "%r in Parse::errors()" % MSG_EOF, "observed": perr})
        if pleaves is not None:
            # the preprocessor's report at the end of the file is a zero-length Error leaf
            pl = [l for l in pleaves if not (l[0] == "Error" and l[1] == l[2])]
            if pl != exp_leaves:
                fails.append({"rule": "iii-parse-leaves", "expected": "non-trivia leaves of syntax::parse == selected tokens",
                              "observed": first_diff(exp_leaves, pl)})
    return fails


# ------------------------------------------------------------------------------------- metamorphic form

def blank_unselected(tb, raw, ev):
    """the text in which every raw token that the reference evaluation does not select (directives with their
    names, disabled regions) is replaced by blanks of the same byte length"""
    out = bytearray(tb)
    sel = set(ev["selected"])
    for i, t in enumerate(raw):
        if i not in sel:
            out[t[1]:t[2]] = b" " * (t[2] - t[1])
    return bytes(out).decode("utf-8")


def blank_disabled(tb, raw, ev):
    """the text in which the CONTENT of every disabled region (the tokens the reference evaluation skips, nested
    directives included, but not the #else / #endif that ends the region) is replaced by blanks: the arrangement,
    the selected text and every preprocessor-level error stay what they were"""
    out = bytearray(tb)
    for i in ev["disabled"]:
        t = raw[i]
        out[t[1]:t[2]] = b" " * (t[2] - t[1])
    return bytes(out).decode("utf-8")


def strip_tree(node, sk_triv):
    """parsedump tree without trivia leaves: nodes as [kind, children], leaves as [kind, lo, hi]"""
    if node[0] == "T":
        return None if node[1] in sk_triv else [node[1], node[2], node[3]]
    kids = []
    for c in node[4]:
        s = strip_tree(c, sk_triv)
        if s is not None:
            kids.append(s)
    return [node[1], kids]


def metamorphic_disabled(full, reduced, sk_triv, cls):
    """classes ii / iii (and i): the same file with the content of its disabled regions blanked must give the same
    nodes / non-trivia leaves and the SAME diagnostics, message by message ("disabled text produces neither
    declarations nor diagnostics", also when a preprocessor error is reported later in the file)"""
    if "tree" not in full or "tree" not in reduced:
        if ("tree" in full) != ("tree" in reduced):
            return [{"rule": cls + "-metamorphic-panic", "expected": reduced if "tree" not in reduced else "a tree",
                     "observed": full if "tree" not in full else "a tree"}]
        return []
    fails = []
    ea, eb = [e[2] for e in full["errors"]], [e[2] for e in reduced["errors"]]
    if ea != eb:
        fails.append({"rule": cls + "-disabled-text-diagnostic",
                      "expected": {"diagnostics of the same file with the disabled text blanked": eb[:20]},
                      "observed": {"diagnostics": ea[:20]}})
    a, b = strip_tree(full["tree"], sk_triv), strip_tree(reduced["tree"], sk_triv)
    if a != b:
        fails.append({"rule": cls + "-disabled-text-nodes",
                      "expected": "same nodes and non-trivia leaves as the file with the disabled text blanked",
                      "observed": {"full": json.dumps(a)[:600], "blanked": json.dumps(b)[:600]}})
    return fails


def metamorphic(full, reduced, sk_triv):
    """both parsedump (tree mode) objects"""
    if "tree" not in full or "tree" not in reduced:
        if ("tree" in full) != ("tree" in reduced):
            return [{"rule": "i-metamorphic-panic", "expected": reduced if "tree" not in reduced else "a tree",
                     "observed": full if "tree" not in full else "a tree"}]
        return []
    fails = []
    a, b = strip_tree(full["tree"], sk_triv), strip_tree(reduced["tree"], sk_triv)
    if a != b:
        fails.append({"rule": "i-metamorphic-tree",
                      "expected": "parse(text) and parse(text with unselected tokens blanked) have the same nodes and non-trivia leaves",
                      "observed": {"full": json.dumps(a)[:600], "blanked": json.dumps(b)[:600]}})
    ea, eb = [e[2] for e in full["errors"]], [e[2] for e in reduced["errors"]]
    if ea != eb:
        fails.append({"rule": "i-metamorphic-errors", "expected": eb[:20], "observed": ea[:20]})
    return fails


# ------------------------------------------------------------------------------------- structure parser (Coq SPEC tie)

class NotAnArrangement(Exception):
    pass


def structure(raw):
    """Parses the raw token list as  items [partial]  of PrepSpec.v (every directive, enabled or not, has its
    name; #else/#endif matched).  Returns the arrangement string for `prepspec_run select` and whether it is
    partial; raises NotAnArrangement otherwise."""
    n = len(raw)

    def head(i):
        j = i + 1
        while j < n and raw[j][0] in TRIVIA:
            j += 1
        if j < n and raw[j][0] == "Id":
            return "( " + " ".join(str(x) for x in range(i, j + 1)) + " )", j + 1
        raise NotAnArrangement("directive %d without name" % i)

    def seq(i):
        """items until #else / #endif / end; returns (strings, next index, partial string or None)"""
        out = []
        while i < n:
            k = raw[i][0]
            if k in ("Else", "Endif"):
                break
            if k == "Define":
                h, i = head(i)
                out.append("D " + h)
            elif k in ("Ifdef", "Ifndef"):
                kk = "d" if k == "Ifdef" else "n"
                h, j = head(i)
                th, j, p = seq(j)
                if p is not None or j >= n:
                    return out, n, "P %s %s [ %s ] - %s" % (kk, h, " ".join(th), p or ".")
                if raw[j][0] == "Endif":
                    out.append("C %s %s [ %s ] - %d" % (kk, h, " ".join(th), j))
                    i = j + 1
                    continue
                et = j
                els, j, p = seq(et + 1)
                if p is not None or j >= n:
                    return out, n, "P %s %s [ %s ] E %d [ %s ] %s" % (kk, h, " ".join(th), et, " ".join(els), p or ".")
                if raw[j][0] != "Endif":
                    raise NotAnArrangement("second #else")
                out.append("C %s %s [ %s ] [ %d %s ] %d" % (kk, h, " ".join(th), et, " ".join(els), j))
                i = j + 1
            else:
                out.append("T %d" % i)
                i += 1
        return out, i, None

    items, j, p = seq(0)
    if p is None and j < n:
        raise NotAnArrangement("stray #else/#endif")
    return " ".join(items) + ((" " + p) if p else ""), p is not None


def spec_token(raw_t, tb, tk_index):
    s = tb[raw_t[1]:raw_t[2]].decode("utf-8")
    return "%d:%d:%s" % (tk_index[raw_t[0]], 1 if raw_t[3] is not None else 0, ",".join(str(ord(c)) for c in s))


def spec_compare(line, raw, tb, ev, partial, tk_index):
    """line = output of `prepspec_run select`.  Returns None when Coq SPEC and reference evaluator agree."""
    if line is None or line.startswith("BAD") or line == "MODEL-CRASH":
        return {"what": "driver", "coq": line}
    parts = line.split("|")
    if len(parts) != 4:
        return {"what": "driver-format", "coq": line[:300]}
    flags = parts[0].split()
    if flags != ["1", "1", "1"]:
        return {"what": "items_ok / render_items = raw_lex / partial_ok not all 1", "coq": flags}
    sel = parts[1].split()
    want = [spec_token(raw[i], tb, tk_index) for i in ev["selected"]]
    if sel != want:
        return {"what": "selected tokens", "coq": sel[:40], "oracle": want[:40]}
    if not partial:
        ms = sorted("".join(chr(int(c)) for c in m.split(",")) for m in parts[2].split())
        if ms != ev["macros"]:
            return {"what": "macros", "coq": ms, "oracle": ev["macros"]}
        dis = parts[3].split()
        wantd = [spec_token(raw[i], tb, tk_index) for i in ev["disabled"]]
        if dis != wantd:
            return {"what": "disabled tokens", "coq": dis[:40], "oracle": wantd[:40]}
    return None


# ------------------------------------------------------------------------------------- running the tools

def run_bin(bindir, name, args, texts, timeout=400):
    return synlib.run_json_robust(os.path.join(bindir, name), args, texts, timeout)


def run_model(exe, cmd, lines, timeout=400):
    """lines: already formatted input lines; deep recursion of the extracted code needs an unlimited stack"""
    if not lines:
        return []
    p = subprocess.run(["bash", "-c", "ulimit -s unlimited 2>/dev/null; exec %s %s" % (exe, cmd)],
                       input="".join(l + "\n" for l in lines), stdout=subprocess.PIPE, stderr=subprocess.PIPE,
                       text=True, timeout=timeout)
    out = p.stdout.split("\n")
    if out and out[-1] == "":
        out.pop()
    while len(out) < len(lines):
        out.append("MODEL-CRASH")
    return out


def real_stream_line(prep, tk_index):
    """prepdump object under the projection (kind, byte length, error text) in the model's output format"""
    if "tokens" not in prep:
        return "PANIC", []
    out = []
    for k, s, e, err in prep["tokens"]:
        out.append("%d:%d:%s" % (tk_index[k], e - s, "-" if err is None else err.replace(" ", "_")))
    return " ".join(out), sorted(prep["macros"])


def model_stream(line):
    if "|" not in line:
        return line, []
    a, b = line.split("|", 1)
    return a.strip(), sorted("".join(chr(int(c)) for c in m.split(",")) for m in b.split())


class Tables:
    def __init__(self, repo):
        sk_index, tk_index, d = treeio.kind_tables(repo)
        self.tk_index = tk_index
        try:
            import t_lextables
            LEX_MSGS.update(t_lextables.parse(repo)["msgs"])
        except Exception:                      # noqa: BLE001  (the rule is skipped when the tables cannot be read)
            pass
        self.tk2sk = d["tk2sk"]
        self.sk_triv = set(d["sk_triv"])


def examine(bindir, exe, tab, texts, parse=True, meta=False, spec=True):
    """Everything on a batch of texts.  Returns one dict per text:
       cls, ev, fails (oracle), corr (model-vs-real disagreement or None), spec (SPEC-vs-oracle disagreement,
       None, or "n/a"), real (stream line), model (stream line), parse errors."""
    tbs = [t.encode("utf-8") for t in texts]
    lex = run_bin(bindir, "lexdump", [], texts)
    prep = run_bin(bindir, "prepdump", [], texts)
    mod = run_model(exe, "prepm", [treeio.text_line(t) for t in texts])
    # reference evaluation first: syntax::parse is observed on every text the property speaks about (classes
    # i-iii); on class iv (stray #else/#endif) nothing is demanded, so nothing is parsed
    evs = [ref_eval([x for x in l["tokens"] if x[0] != "Eof"], tb) if "tokens" in l else None for l, tb in zip(lex, tbs)]
    par = [None] * len(texts)
    if parse:
        sub = [k for k, e in enumerate(evs) if e is not None and e["cls"] != "iv"]
        for k, o in zip(sub, run_bin(bindir, "parsedump", ["--flat"], [texts[k] for k in sub]) if sub else []):
            par[k] = o
    res = []
    spec_lines, spec_idx = [], []
    meta_texts, meta_idx = [], []
    meta2_texts, meta2_idx = [], []
    miss_lines, miss_idx = [], []
    for k, t in enumerate(texts):
        r = {"text": t, "fails": [], "corr": None, "spec": "n/a", "meta": False}
        res.append(r)
        if "tokens" not in lex[k]:
            r["cls"] = "lexer-panic"
            r["ev"] = None
            r["fails"].append({"rule": "observer", "expected": "tokens", "observed": lex[k]})
            continue
        raw = [x for x in lex[k]["tokens"] if x[0] != "Eof"]
        r["raw"] = raw
        ev = evs[k]
        r["ev"], r["cls"] = ev, ev["cls"]
        r["fails"] = judge(tbs[k], raw, ev, prep[k], par[k], tab.tk2sk, tab.sk_triv)
        rl, rm = real_stream_line(prep[k], tab.tk_index)
        ml, mm = model_stream(mod[k])
        r["real"], r["real_macros"], r["model"], r["model_macros"] = rl, rm, ml, mm
        r["parse_errors"] = par[k].get("errors") if par[k] else None
        if rl != ml:
            r["corr"] = {"what": "stream (kind:bytelen:error)", "real": rl, "model": ml}
        elif rm != mm:
            r["corr"] = {"what": "final macro set", "real": rm, "model": mm}
        if spec and ev["cls"] in ("i", "iii"):
            try:
                arr, partial = structure(raw)
                if partial == (ev["cls"] == "iii"):
                    spec_lines.append(treeio.text_line(t) + " | " + arr)
                    spec_idx.append((k, partial, arr))
                else:
                    r["spec"] = {"what": "structure parser and reference evaluator disagree on termination", "arr": arr}
            except NotAnArrangement:
                pass
        if spec and ev["cls"] == "ii":
            d = ev["stop"]["at"]
            j = d + 1
            while j < len(raw) and raw[j][0] in TRIVIA:
                j += 1
            miss_lines.append(treeio.text_line(t) + " | %d %d" % (d, j))
            miss_idx.append(k)
        if meta and ev["cls"] == "i":
            meta_texts.append(t)
            meta_texts.append(blank_unselected(tbs[k], raw, ev))
            meta_idx.append(k)
        if meta and ev["cls"] in ("ii", "iii") and ev["disabled"]:
            meta2_texts.append(t)
            meta2_texts.append(blank_disabled(tbs[k], raw, ev))
            meta2_idx.append(k)
    if spec_lines:
        out = run_model(exe, "select", spec_lines)
        for (k, partial, arr), line in zip(spec_idx, out):
            d = spec_compare(line, res[k]["raw"], tbs[k], res[k]["ev"], partial, tab.tk_index)
            if d is not None:
                d["arrangement"] = arr[:2000]
            res[k]["spec"] = d
            res[k]["spec_partial"] = partial
    if miss_lines:
        out = run_model(exe, "missing", miss_lines)
        for k, line in zip(miss_idx, out):
            want = "1 " + res[k]["ev"]["stop"]["msg"].replace(" ", "_")
            res[k]["spec"] = None if line == want else {"what": "PrepSpec.missing_name / missing_name_err", "coq": line, "oracle": want}
            res[k]["spec_missing"] = True
    if meta2_texts:
        trees2 = run_bin(bindir, "parsedump", [], meta2_texts)
        for j, k in enumerate(meta2_idx):
            res[k]["meta"] = True
            res[k]["fails"] += metamorphic_disabled(trees2[2 * j], trees2[2 * j + 1], tab.sk_triv, res[k]["cls"])
    if meta_texts:
        trees = run_bin(bindir, "parsedump", [], meta_texts)
        for j, k in enumerate(meta_idx):
            res[k]["meta"] = True
            res[k]["fails"] += metamorphic(trees[2 * j], trees[2 * j + 1], tab.sk_triv)
    return res


# ------------------------------------------------------------------------------------- exhaustive sequences

ALPHABET = ["#define", "#ifdef", "#ifndef", "#else", "#endif", "A", "B", ";"]
NAME_TAKING = ("#define", "#ifdef", "#ifndef")


def join_seq(seq, mode):
    """mode nl: joined by a newline; sp: by one blank; gap: by a newline, but after a name-taking directive a
    comment sits between the directive and what follows (block comment / line comment alternately)"""
    if mode == "nl":
        return "\n".join(seq)
    if mode == "sp":
        return " ".join(seq)
    out = []
    alt = 0
    for i, w in enumerate(seq):
        out.append(w)
        if i + 1 < len(seq):
            if w in NAME_TAKING:
                out.append(" /* c */ " if alt % 2 == 0 else " // c\n")
                alt += 1
            else:
                out.append("\n")
    return "".join(out)


def exhaustive_chunks(maxlen, mode, plen):
    """chunk descriptors (mode, length, prefix): all sequences of that length starting with the prefix"""
    out = []
    for L in range(0, maxlen + 1):
        p = max(0, L - plen)
        for pre in itertools.product(range(len(ALPHABET)), repeat=p):
            out.append(("exh", mode, L, pre))
    return out


def chunk_texts(desc):
    _tag, mode, L, pre = desc
    pre = [ALPHABET[i] for i in pre]
    return [join_seq(pre + list(t), mode) for t in itertools.product(ALPHABET, repeat=L - len(pre))]


# ------------------------------------------------------------------------------------- random nested programs

POOL = ["A", "B", "M0", "M1", "M2", "DEBUG", "X86", "_m", "Foo_1"]
GAPS = [" ", " ", " ", "  ", "\t", " /* c */ ", " /*#else*/ ", " // c\n", "\n", " /* a\n#endif */ "]
TAILS = ["\n", "\n", "\n", " // comment\n", " /* x */\n", "\n\n", " // #endif\n", "\n  "]
TRIVIA_PIECES = ["// #endif\n", "/* #else */\n", "// plain comment\n", "/* multi\n#ifdef A\n#endif */\n", "\n", "   \n",
                 "/* nested /* #endif */ still a comment */\n", "// #define A\n", "/**/ // #ifdef B\n"]
GARBAGE = ['"unterminated\n', "!nosuchop\n", "0b\n", "$\n", "..\n", "0x\n", "@ ` ~\n", "é 中 \U0001F600\n",
           '"bad \\q escape"\n', "[{ code #endif }]\n", "}}}} ))) ]]\n", "class class class\n", "#\n", "#ifdefx\n",
           "# define\n", "0b2 4x 0xg\n", "$ $ $a\n", "!cast<\n", '"a" "b\n', "-+-\n", "#elseif\n"]
SWALLOW = ["/* open comment swallows the rest\n", "[{ open code swallows the rest\n"]


class Gen:
    """generator of nested programs; keeps its own idea of which branches are enabled ONLY to steer where
    garbage goes (the verdict never uses it: the oracle re-evaluates the lexed text)"""

    def __init__(self, rng, maxdepth):
        self.rng = rng
        self.maxdepth = maxdepth
        self.n = 0
        self.defined = set()

    def fresh(self):
        self.n += 1
        return self.n

    def stmt(self):
        r, n = self.rng, self.fresh()
        c = r.randrange(16)
        if c == 0:
            return "class C%d;\n" % n
        if c == 1:
            return "class C%d<int a = 1> {\n  int x = a;\n}\n" % n
        if c == 2:
            return "def D%d : C%d;\n" % (n, r.randrange(1, n + 1))
        if c == 3:
            return "def D%d;\n" % n
        if c == 4:
            return "defvar v%d = %d;\n" % (n, r.randrange(100))
        if c == 5:
            return 'defvar s%d = "#ifdef A";\n' % n
        if c == 6:
            return 'let x = "s" in { def Y%d; }\n' % n
        if c == 7:
            return "multiclass MC%d { def _a; }\ndefm DM%d : MC%d;\n" % (n, n, n)
        if c == 8:
            return "foreach i = [1, 2] in { def F%d#i; }\n" % n
        if c == 9:
            return 'include "inc%d.td"\n' % n
        if c == 10:
            return 'def R%d { string s = "#else"; code c = [{ #endif }]; }\n' % n
        if c == 11:
            return "if !eq(1, 1) then { def I%d; } else { def J%d; }\n" % (n, n)
        if c == 12:
            return 'assert !eq(1, 1), "#endif";\n'
        if c == 13:
            return "def D%d : C<[1, 2], (op $a, 0b101)> { bits<4> b = { 1, 0, ?, 1 }; let x = !add(v, 0x1F); }\n" % n
        if c == 14:
            return "class C%d : B%d { }  def Z%d : C%d ;\n" % (n, n, n, n)
        return "defset list<C> S%d = { def E%d; }\n" % (n, n)

    def head(self, kw, name=None):
        r = self.rng
        return [("kw", kw), ("gap", r.choice(GAPS)), ("name", name or r.choice(POOL)), ("tail", r.choice(TAILS))]

    def block(self, depth, enabled, spine, budget):
        r = self.rng
        pieces = []
        nitems = r.randint(1, 4)
        spine_at = r.randrange(nitems) if spine > 0 else -1
        for it in range(nitems):
            if it == spine_at:
                pieces += self.cond(depth + 1, enabled, spine - 1, budget)
                continue
            x = r.random()
            if x < 0.13 and depth < self.maxdepth and budget[0] > 0:
                budget[0] -= 1
                pieces += self.cond(depth + 1, enabled, 0, budget)
            elif x < 0.27:
                h = self.head("#define")
                pieces += h
                if enabled:
                    self.defined.add(h[2][1])
            elif x < 0.62:
                pieces.append(("stmt", self.stmt()))
            elif x < 0.74:
                pieces.append(("trivia", r.choice(TRIVIA_PIECES)))
            elif x < 0.80:
                # directives in the middle of a statement
                n = self.fresh()
                pieces.append(("stmt", "def T%d :\n" % n))
                nm = r.choice(POOL)
                kw = r.choice(["#ifdef", "#ifndef"])
                pieces += self.head(kw, nm)
                pieces.append(("stmt", " C1\n"))
                pieces += [("else", "#else"), ("tail", "\n")]
                pieces.append(("stmt", " C2\n"))
                pieces += [("endif", "#endif"), ("tail", "\n")]
                pieces.append(("stmt", ";\n"))
            elif not enabled or x < 0.83:
                pieces.append(("garbage", r.choice(GARBAGE)))
            else:
                pieces.append(("stmt", self.stmt()))
        return pieces

    def cond(self, depth, enabled, spine, budget):
        r = self.rng
        kw = r.choice(["#ifdef", "#ifdef", "#ifndef"])
        # bias towards names whose state makes both outcomes frequent
        if self.defined and r.random() < 0.5:
            name = r.choice(sorted(self.defined))
        else:
            name = r.choice(POOL)
        taken = (name in self.defined) == (kw == "#ifdef")
        pieces = self.head(kw, name)
        has_else = r.random() < 0.55
        # the spine continues in the then or in the else branch
        spine_in_else = has_else and r.random() < 0.5
        pieces += self.block(depth, enabled and taken, 0 if spine_in_else else spine, budget)
        if has_else:
            pieces += [("else", "#else"), ("tail", r.choice(TAILS))]
            pieces += self.block(depth, enabled and not taken, spine if spine_in_else else 0, budget)
        pieces += [("endif", "#endif"), ("tail", r.choice(TAILS))]
        return pieces

    def program(self, target_depth):
        self.defined = set()
        budget = [self.rng.randint(2, 10)]
        pieces = []
        if self.rng.random() < 0.5:
            pieces.append(("stmt", self.stmt()))
        pieces += self.block(0, True, target_depth, budget)
        if self.rng.random() < 0.3:
            pieces += self.block(0, True, 0, budget)
        if self.rng.random() < 0.2 and pieces and pieces[-1][1].endswith("\n"):
            pieces[-1] = (pieces[-1][0], pieces[-1][1][:-1])      # no newline at the end of the file
        return pieces


def text_of(pieces):
    return "".join(p[1] for p in pieces)


def variant_unterminated(rng, pieces):
    idx = [i for i, p in enumerate(pieces) if p[0] == "endif"]
    if not idx:
        return None
    k = rng.randint(1, min(3, len(idx)))
    drop = set(idx[-k:])
    return [p for i, p in enumerate(pieces) if i not in drop]


def variant_missing_name(rng, pieces):
    idx = [i for i, p in enumerate(pieces) if p[0] == "name"]
    if not idx:
        return None, None
    i = rng.choice(idx)
    how = rng.choice(["semi", "keyword", "eof", "number", "string", "directive"])
    out = list(pieces)
    if how == "eof":
        cut = out[:i]
        if rng.random() < 0.5 and cut and cut[-1][0] == "gap":
            cut = cut[:-1]
        return cut, how
    out[i] = ("noname", {"semi": ";", "keyword": "\nclass", "number": "42", "string": '"A"', "directive": "\n#endif"}[how])
    return out, how


def variant_define_eof(rng, pieces):
    return list(pieces) + [("stmt", "" if text_of(pieces).endswith("\n") else "\n"), ("kw", "#define"),
                           ("gap", rng.choice(["", " ", "\n", " // c", " /* c */ "]))], "define-eof"


def variant_nameless_in_disabled(rng, pieces):
    """a name-less #ifdef ... #endif pair and a name-less #define inside a region the generator believes disabled:
    the reference evaluation only tracks nesting there"""
    idx = [i for i, p in enumerate(pieces) if p[0] == "garbage"]
    if not idx:
        return None
    i = rng.choice(idx)
    ins = [("garbage", rng.choice(["#ifdef\n", "#ifndef ;\n", "#ifdef 42\n"])), ("garbage", "#define\n"),
           ("garbage", rng.choice(["x\n", "#else\n", ""])), ("garbage", "#endif\n")]
    return pieces[:i] + ins + pieces[i:]


def variant_swallow(rng, pieces):
    idx = [i for i, p in enumerate(pieces) if p[0] == "garbage"]
    if not idx:
        return None
    i = rng.choice(idx)
    return pieces[:i] + [("garbage", rng.choice(SWALLOW))] + pieces[i:]


def coq_cone(rel):
    """the .v files rel depends on (transitively), from their `From TG.X Require [Import] A B.` lines"""
    dirs = {"Gen": "gen", "Model": "model", "Proofs": "proofs", "Props": "props", "Extract": "extract"}
    seen, todo = set(), [rel]
    while todo:
        f = todo.pop()
        if f in seen:
            continue
        seen.add(f)
        try:
            txt = vlib.strip_coq_comments(open(os.path.join(vlib.COQ, f)).read())
        except OSError:
            continue
        for ns, mods in re.findall(r"From\s+TG\.(\w+)\s+Require\s+(?:Import\s+|Export\s+)?([^.]*)\.", txt):
            for m in mods.split():
                todo.append("%s/%s.v" % (dirs.get(ns, ns.lower()), m))
        for ns, m in re.findall(r"Require\s+(?:Import\s+|Export\s+)?TG\.(\w+)\.(\w+)", txt):
            todo.append("%s/%s.v" % (dirs.get(ns, ns.lower()), m))
    return seen
