"""coreast s-expression -> Coq term of type TG.Model.CoreAst.workspace (for witnesses in props/*.v)."""
import re


def parse(s):
    toks = re.findall(r"\(|\)|[^\s()]+", s)
    pos = [0]

    def one():
        t = toks[pos[0]]
        pos[0] += 1
        if t == "(":
            out = []
            while toks[pos[0]] != ")":
                out.append(one())
            pos[0] += 1
            return out
        return t
    return one()


def rng(f, lo, hi):
    return "(mkR %s %s %s)" % (f, lo, hi)


def lst(xs):
    return "[" + "; ".join(xs) + "]"


def ident(x):
    return "(mkId %s %s)" % (rng(*x[1:4]), lst(x[4:]))


def typ(x):
    k = x[0]
    if k in ("bit", "int", "string", "code", "dag"):
        return "Ty" + k.capitalize()
    if k == "bits":
        return "(TyBits %s)" % x[1]
    if k == "list":
        return "(TyList %s)" % typ(x[1])
    return "(TyClass %s)" % ident(x[1])


def value(x):
    return "(Val %s %s)" % (rng(*x[1:4]), lst([inner(i) for i in x[4:]]))


def inner(x):
    return "(Inner %s %s)" % (simple(x[1]), lst([suffix(s) for s in x[2:]]))


def suffix(x):
    if x[0] == "rs":
        return "SufRange"
    if x[0] == "sl":
        return "(SufSlice %s)" % ("true" if x[1] == "1" else "false")
    return "(SufField %s %s)" % (ident(x[1]), rng(*x[2:5]))


def arg(x):
    if x[0] == "pos":
        return "(APos %s %s)" % (value(x[1]), rng(*x[2:5]))
    if x[0] == "named":
        return "(ANamed %s %s %s)" % (lst(x[1][1:]), value(x[2]), rng(*x[3:6]))
    return "(ANamedBad %s)" % rng(*x[1:4])


def args(x):
    return lst([arg(a) for a in x[1:]])


def simple(x):
    k = x[0]
    m = {"i": "SInt", "s": "SString", "c": "SCode", "b": "SBool", "u": "SUninit"}
    if k in m:
        return m[k]
    if k in ("bits", "lst", "dag", "cond"):
        c = {"bits": "SBits", "lst": "SList", "dag": "SDag", "cond": "SCond"}[k]
        return "(%s %s)" % (c, lst([value(v) for v in x[1:]]))
    if k == "id":
        return "(SId %s)" % ident(x)
    if k == "cv":
        return "(SClassVal %s %s %s)" % (ident(x[1]), args(x[2]), rng(*x[3:6]))
    if k == "bang":
        an = "None" if x[2][0] == "noty" else "(Some (%s, %s))" % (typ(x[2][1]), rng(*x[2][2:5]))
        return "(SBang %s %s %s %s)" % (x[1], an, lst([value(v) for v in x[3][1:]]), rng(*x[4:7]))
    raise ValueError(k)


def optv(x):
    return "None" if x[0] == "none" else "(Some %s)" % value(x[1])


def targs(x):
    if x[0] == "none":
        return "None"
    return "(Some %s)" % lst(["(TArg %s %s %s)" % (typ(a[1]), ident(a[2]), optv(a[3])) for a in x[1][1:]])


def parents(x):
    return lst(["(CRef %s %s %s)" % (ident(c[1]), args(c[2]), rng(*c[3:6])) for c in x[1:]])


def item(x):
    k = x[0]
    if k == "field":
        return "(IField %s %s %s)" % (typ(x[1]), ident(x[2]), optv(x[3]))
    if k == "let":
        return "(ILet %s %s)" % (ident(x[1]), value(x[2]))
    if k == "defvar":
        return "(IDefvar %s %s)" % (ident(x[1]), value(x[2]))
    if k == "assert":
        return "(IAssert %s %s)" % (value(x[1]), value(x[2]))
    return "(IDump %s)" % value(x[1])


def body(x):
    return lst([item(i) for i in x[1:]])


def stmts(x):
    return lst([stmt(s) for s in x[1:]])


def stmt(x):
    k = x[0]
    if k == "include":
        t = "None" if x[4][0] == "none" else "(Some %s)" % x[4][1]
        return "(SInclude %s %s)" % (rng(*x[1:4]), t)
    if k == "assert":
        return "(SAssert %s %s)" % (value(x[1]), value(x[2]))
    if k == "class":
        return "(SClass %s %s %s %s)" % (ident(x[1]), targs(x[2]), parents(x[3]), body(x[4]))
    if k == "def":
        return "(SDef %s %s %s %s)" % (optv(x[1]), rng(*x[2:5]), parents(x[5]), body(x[6]))
    if k == "defm":
        return "(SDefm %s %s %s)" % (optv(x[1]), rng(*x[2:5]), parents(x[5]))
    if k == "defset":
        return "(SDefset %s %s %s)" % (typ(x[1]), ident(x[2]), stmts(x[3]))
    if k == "defvar":
        return "(SDefvar %s %s)" % (ident(x[1]), value(x[2]))
    if k == "dump":
        return "(SDump %s)" % value(x[1])
    if k == "foreach":
        init = "FeRange" if x[2][0] == "range" else "(FeValue %s)" % value(x[2][1])
        return "(SForeach %s %s %s)" % (ident(x[1]), init, stmts(x[3]))
    if k == "if":
        el = "None" if x[3][0] == "none" else "(Some %s)" % stmts(x[3][1])
        return "(SIf %s %s %s)" % (value(x[1]), stmts(x[2]), el)
    if k == "let":
        return "(SLet %s %s)" % (lst([value(v) for v in x[1][1:]]), stmts(x[2]))
    if k == "multiclass":
        return "(SMulticlass %s %s %s %s)" % (ident(x[1]), targs(x[2]), parents(x[3]), stmts(x[4]))
    raise ValueError(k)


def workspace(sexp, perrs=()):
    x = parse(sexp)
    files = lst([stmts(f[1]) for f in x[1:]])
    return "(mkWs %s %s)" % (files, lst([rng(*p) for p in perrs]))
