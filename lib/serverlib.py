"""Helpers shared by checks/C08.py, C11.py, C09.py (group "server"): running lspdrive sessions on the REAL
lsp::server::Server, resolving hook-H2 traces into events of the lock-protocol LTS (coq/model/Sched.v), talking to
the extracted model (coq/extract/server_run), an independent reference position mapper, idedump."""
import json
import os
import subprocess
from concurrent.futures import ThreadPoolExecutor

import vlib

TMP = os.path.join(vlib.CACHE, "lspdrive")

REQUEST_KINDS = ["hover", "completion", "documentSymbol", "foldingRange", "inlayHint", "definition", "references",
                 "documentLink"]
# first vfs.read() site of each request kind, second site (only when the analysis found something)
FIRST_SITE = {"hover": "file_pos", "completion": "file_pos", "definition": "file_pos", "references": "file_pos",
              "documentSymbol": "file", "foldingRange": "file", "documentLink": "file", "inlayHint": "file_range"}
SECOND_SITE = {"definition": "definition", "references": "references", "documentLink": "document_link"}
MAIN_POINTS = ["barrier.before", "barrier.after", "vfs_write.before", "vfs_write.acquired",
               "host_set_file_content.before", "host_set_file_content.after", "host_set_root_file.after",
               "vfs_write.released", "update_diagnostics", "spawn"]


# async-lsp's ConcurrencyLayer::default() admits available_parallelism requests at a time, and its main loop stalls
# for good when one more arrives (reported finding, key async-lsp-concurrency-limit): sessions keep fewer in flight.
try:
    _NCPU = len(os.sched_getaffinity(0))
except Exception:          # noqa
    _NCPU = os.cpu_count() or 1
MAX_IN_FLIGHT = max(1, min(8, _NCPU - 2))


def cap_in_flight(steps, limit=None):
    """inserts {"wait_idle": true} so that at most `limit` requests are outstanding"""
    limit = limit or MAX_IN_FLIGHT
    out, n = [], 0
    for st in steps:
        if "request" in st:
            if n >= limit:
                out.append({"wait_idle": True})
                n = 0
            n += 1
        elif "wait_idle" in st:
            n = 0
        out.append(st)
    return out


# ------------------------------------------------------------------------------------------------ sessions

def pin_to_one_cpu():
    """preexec_fn: restrict the child to one CPU (std::thread::available_parallelism() == 1); False if impossible"""
    try:
        cpu = sorted(os.sched_getaffinity(0))[0]
        return lambda: os.sched_setaffinity(0, {cpu})
    except Exception:      # noqa
        return None


def run_session(bindir, script, extra_s=15, preexec_fn=None):
    """Runs one lspdrive session.  Never hangs: lspdrive has its own hard limit; the subprocess timeout is a
    second line of defence.  Returns the parsed output (dict) with 'crashed' set when there is none."""
    os.makedirs(TMP, exist_ok=True)
    hard = script.get("hard_ms", 120000)
    try:
        p = subprocess.run([os.path.join(bindir, "lspdrive")], input=json.dumps(script), stdout=subprocess.PIPE,
                           stderr=subprocess.PIPE, text=True, timeout=hard / 1000.0 + extra_s,
                           env=dict(os.environ, LSPDRIVE_TMP=TMP), preexec_fn=preexec_fn)
    except subprocess.TimeoutExpired:
        return {"crashed": "lspdrive did not exit within its hard limit", "log": [], "timed_out": True,
                "unanswered": [], "server_exited": False}
    try:
        out = json.loads(p.stdout)
    except Exception:
        return {"crashed": "no JSON output (exit %s): %s" % (p.returncode, (p.stderr or "")[-600:]), "log": [],
                "timed_out": False, "unanswered": [], "server_exited": True}
    out.setdefault("crashed", None)
    return out


def run_sessions(bindir, scripts, workers=None):
    workers = workers or max(2, min(12, vlib.NCPU - 2))
    with ThreadPoolExecutor(max_workers=workers) as ex:
        return list(ex.map(lambda s: run_session(bindir, s), scripts))


def session_failure(script, out):
    """The C08 oracle on one session: None when every request was answered and every notification processed,
    else a short description (a hang is an observation, reported through the watchdog of lspdrive)."""
    if out.get("crashed"):
        return "harness: " + out["crashed"]
    n_notif = sum(1 for s in script["steps"] if "open" in s or "change" in s)
    panics = [e for e in out["log"] if e.get("ev") == "panic"]
    if panics:
        return "a server thread panicked: " + panics[0].get("message", "")[:200]
    if out.get("unanswered"):
        return "no response to request id(s) %s within the watchdog" % out["unanswered"]
    if out.get("timed_out"):
        w = [e for e in out["log"] if e.get("ev") == "timeout"]
        return "server not idle within the watchdog: waiting for %s" % json.dumps(w[-1]["waiting_for"] if w else "?")
    if out.get("server_exited"):
        return "the server main loop exited"
    if n_notif and not out.get("hooks") and out.get("max_version", -1) != n_notif - 1:
        # without hooks the only evidence that a notification was processed is its publication
        return "notification %d was not processed (highest published version %s)" % (n_notif - 1, out.get("max_version"))
    return None


def where_parked(out):
    """last hook point reached per thread (where the threads sit in a hang)"""
    last = {}
    for e in out.get("log", []):
        if e.get("ev") == "sync":
            last[e["thread"]] = e["point"]
    return last


# ------------------------------------------------------------------------------------------------ traces

class TraceError(Exception):
    pass


def classify_run(points):
    """points: hook points of one task run (task.start ... [task.end]).  Returns (cls, variant, complete):
    cls in {'diag', 'file_pos', 'file', 'file_range'}; variant = number of publications (diag) or the second
    site / None."""
    complete = bool(points) and points[-1] == "task.end"
    reads = [p[len("task.vfs_read."):] for p in points if p.startswith("task.vfs_read.")]
    if "task.published_files.lock" in points or (reads and reads[0] == "diagnostics"):
        return "diag", sum(1 for r in reads if r == "diagnostics"), complete
    if not reads:
        return None, None, complete
    return reads[0], (reads[1] if len(reads) > 1 else None), complete


def resolve_trace(out, script):
    """From the log of a hooks-on session: (items, events, info) in the syntax of `server_run trace`.
    Spawns are numbered in the order of main.spawn; each task run (task.start .. task.end on one pool thread) is
    bound to a spawn that precedes it and whose kind is compatible with what the run did."""
    log = out["log"]
    req_steps = [s["request"] for s in script["steps"] if "request" in s]
    syncs = [(k, e) for k, e in enumerate(log) if e.get("ev") == "sync"]
    spawns = []          # dict(pos, diag:bool, kind)
    prev_main = None
    nreq = 0
    for k, e in syncs:
        pt = e["point"]
        if not pt.startswith("main."):
            continue
        if pt == "main.spawn":
            if prev_main == "main.update_diagnostics":
                spawns.append({"pos": k, "diag": True, "kind": None})
            else:
                kind = req_steps[nreq] if nreq < len(req_steps) else None
                nreq += 1
                spawns.append({"pos": k, "diag": False, "kind": kind})
        prev_main = pt
    # task runs per thread
    runs, cur = [], {}
    for k, e in syncs:
        pt = e["point"]
        if not pt.startswith("task."):
            continue
        th = e["thread"]
        if pt == "task.start":
            if th in cur:
                raise TraceError("task.start on thread %s while a task is running on it" % th)
            cur[th] = {"start": k, "events": [(k, pt)]}
            runs.append(cur[th])
        else:
            if th not in cur:
                raise TraceError("%s on thread %s outside a task" % (pt, th))
            cur[th]["events"].append((k, pt))
            if pt == "task.end":
                del cur[th]
    for r in runs:
        r["cls"], r["variant"], r["complete"] = classify_run([p for _k, p in r["events"]])

    def compatible(sp, r):
        if r["cls"] is None:
            return True                       # the run has not shown anything yet
        if sp["diag"]:
            return r["cls"] == "diag"
        if r["cls"] == "diag" or sp["kind"] not in FIRST_SITE:
            return False
        if FIRST_SITE[sp["kind"]] != r["cls"]:
            return False
        return r["variant"] is None or SECOND_SITE.get(sp["kind"]) == r["variant"]

    # backtracking assignment, runs in start order, candidate spawns in spawn order
    assign = {}

    def go(i, used):
        if i == len(runs):
            return True
        r = runs[i]
        for j, sp in enumerate(spawns):
            if j in used or sp["pos"] > r["start"] or not compatible(sp, r):
                continue
            assign[i] = j
            if go(i + 1, used | {j}):
                return True
        return False
    if not go(0, frozenset()):
        raise TraceError("no binding of the task runs %s to the spawns %s" % (
            [(r["cls"], r["variant"]) for r in runs], [(s["diag"], s["kind"]) for s in spawns]))
    run_of_spawn = {j: i for i, j in assign.items()}
    items = []
    for j, sp in enumerate(spawns):
        r = runs[run_of_spawn[j]] if j in run_of_spawn else None
        if sp["diag"]:
            items.append("N:0:%d" % (r["variant"] if r and r["cls"] == "diag" else 0))
        else:
            k = sp["kind"] or "hover"
            if k in SECOND_SITE:
                k += "+" if (r and r["variant"]) else "-"
            items.append("R:" + k)
    worker_of_event = {}
    for i, r in enumerate(runs):
        for k, _pt in r["events"]:
            worker_of_event[k] = assign[i]
    events = []
    for k, e in syncs:
        pt = e["point"]
        if pt.startswith("main."):
            events.append("m:" + pt[5:])
        else:
            events.append("w%d:%s" % (worker_of_event[k], pt[5:]))
    info = {"spawns": len(spawns), "runs": len(runs), "incomplete_runs": sum(1 for r in runs if not r["complete"])}
    return items, events, info


def model_lines(exe, cmd, lines):
    if not lines:
        return []
    p = subprocess.run([exe, cmd], input="".join(l + "\n" for l in lines), stdout=subprocess.PIPE,
                       stderr=subprocess.PIPE, text=True, timeout=600)
    if p.returncode != 0:
        raise RuntimeError("server_run %s failed: %s" % (cmd, p.stderr[-1000:]))
    outl = p.stdout.split("\n")
    if outl and outl[-1] == "":
        outl.pop()
    if len(outl) != len(lines):
        raise RuntimeError("server_run %s: %d lines in, %d out" % (cmd, len(lines), len(outl)))
    return outl


def trace_line(items, events, old=False):
    # bit 1: the build has the optional hook task.snapshot_drop -> the snapshot drop is an observed event
    od = any(e.endswith(":snapshot_drop") for e in events)
    return "%d|%s|%s" % ((1 if old else 0) + (2 if od else 0), " ".join(items), " ".join(events))


# ------------------------------------------------------------------------------------------------ positions

def u8(c):
    return 1 if c < 0x80 else 2 if c < 0x800 else 3 if c < 0x10000 else 4


def u16(c):
    return 1 if c < 0x10000 else 2


class RefMapper:
    """Independent reference position mapper written from the LSP specification: lines end at LF, CR LF, CR;
    columns are UTF-16 code units.  Maps byte offsets on character boundaries of `text` to (line, column)."""

    def __init__(self, text):
        self.text = text
        self.pos = {}
        line = col = off = 0
        cps = [ord(ch) for ch in text]
        i, n = 0, len(cps)
        self.pos[0] = (0, 0)
        while i < n:
            c = cps[i]
            if c == 13 and i + 1 < n and cps[i + 1] == 10:
                # the offset between CR and LF: same line, one column further (C10_line_inside_crlf)
                self.pos[off + 1] = (line, col + 1)
                off += 2
                i += 2
                line, col = line + 1, 0
            elif c in (10, 13):
                off += 1
                i += 1
                line, col = line + 1, 0
            else:
                off += u8(c)
                col += u16(c)
                i += 1
            self.pos[off] = (line, col)
        self.length = off
        self.lines = line + 1

    def at(self, off):
        return self.pos.get(off)

    def rng(self, a, b):
        pa, pb = self.at(a), self.at(b)
        if pa is None or pb is None:
            return None
        return [pa[0], pa[1], pb[0], pb[1]]


def lsp_range(r):
    return [r["start"]["line"], r["start"]["character"], r["end"]["line"], r["end"]["character"]]


# ------------------------------------------------------------------------------------------------ idedump

def idedump(bindir, workspaces, timeout=600):
    p = subprocess.run([os.path.join(bindir, "idedump")], input=json.dumps(workspaces), stdout=subprocess.PIPE,
                       stderr=subprocess.PIPE, text=True, timeout=timeout)
    if p.returncode != 0:
        raise RuntimeError("idedump failed: " + p.stderr[-1500:])
    return json.loads(p.stdout)


# ------------------------------------------------------------------------------------------------ URIs

def decode_uri(root, uri):
    """Independent decoder (urllib, RFC 3986 / RFC 8089) of a file: URI sent by the server -> workspace-relative path.
    Anything that does not name a file under `root` exactly (a query, a fragment, a host, another tree) is returned
    as a `!...` marker that equals no workspace path."""
    import urllib.parse
    if not isinstance(uri, str):
        return "!not-a-string:%r" % (uri,)
    u = urllib.parse.urlsplit(uri)
    if u.scheme != "file" or u.netloc not in ("", "localhost") or u.query or u.fragment or "#" in uri or "?" in uri:
        return "!uri:" + uri
    try:
        path = urllib.parse.unquote(u.path, encoding="utf-8", errors="strict")
    except Exception:      # noqa
        return "!uri:" + uri
    r = root.rstrip("/") + "/"
    if not path.startswith(r):
        return "!outside:" + path
    return path[len(r):]


def decode_uris(root, v):
    """rewrites every "uri" / "target" string of a JSON value (raw_uris sessions) into a workspace-relative path"""
    if isinstance(v, dict):
        return {k: (decode_uri(root, x) if k in ("uri", "target") and isinstance(x, str) else decode_uris(root, x)) for k, x in v.items()}
    if isinstance(v, list):
        return [decode_uris(root, x) for x in v]
    return v
