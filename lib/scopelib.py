"""Drivers shared by checks/C05.py and checks/C13.py (group "scope").

A workspace is {"files": {path: text}, "root": path}.  Three observers:
  impl(bindir, wss)   real code through harness/src/bin/idedump.rs: goto_definition / references at every
                      offset of every workspace file, Analysis::diagnostics
  core(bindir, wss)   harness/src/bin/coreast.rs: the REAL parse trees, read through the real typed
                      accessors, serialised as CoreAst (input of the model)
  model(exe, cores, impls)  extracted Coq model coq/extract/scope_run
and the projections under which they are compared.
"""
import json
import os
import re
import subprocess
import vlib

# ------------------------------------------------------------------ message classes (projection of diagnostics)
MSG_CLASSES = [
    ("ClassNotFound", r"^class not found: "),
    ("MulticlassNotFound", r"^multiclass not found: "),
    ("SymbolNotFound", r"^symbol not found: "),
    ("IncludeNotFound", r"^include file not found: "),
    ("SelfInherit", r"^class cannot inherit from itself$"),
    ("TooManyArgs", r"^too many arguments: "),
    ("ArgOnce", r"^we can only specify the template argument '.*' once$"),
    ("ArgNotExist", r"^argument '.*' doesn't exist$"),
    ("ArgType", r"^value specified for template argument '.*' is type of "),
    ("ArgMissing", r"^value not specified for template argument "),
    ("NamedArgBad", r"^the name of named argument should be a valid identifier$"),
    ("FieldIncompat", r"^field '.*' of type '.*' is incompatible with type "),
    ("CannotAccessField", r"^cannot access field: "),
    ("ExpectAnnot", r"^expected type annotation$"),
    ("UnexpectAnnot", r"^unexpected type annotation$"),
    ("Arity", r"^expected \d+( to \d+)?( or more)? arguments, found \d+$"),
    ("Operand", r"^(expected .*[,;] found .*|expected .*, found .*|inconsistent types .* for !if)$"),
]
_MSG_RE = [(k, re.compile(p, re.S)) for k, p in MSG_CLASSES]


def msg_class(msg, parse_msgs=()):
    """class of an Analysis::diagnostics message; messages of the parser are 'Syntax'."""
    if msg in parse_msgs:
        return "Syntax"
    for k, r in _MSG_RE:
        if r.match(msg):
            return k
    return "Syntax"


def _run(cmd, inp, timeout=1200, unlimited_stack=False):
    if unlimited_stack:
        cmd = ["bash", "-c", "ulimit -s unlimited 2>/dev/null || ulimit -s 1000000; exec \"$@\"", "x"] + cmd
    p = subprocess.run(cmd, input=inp, stdout=subprocess.PIPE, stderr=subprocess.PIPE, text=True, timeout=timeout)
    if p.returncode != 0:
        raise RuntimeError("%s failed (%s): %s" % (cmd[-2:], p.returncode, p.stderr[-2000:]))
    return p.stdout


def _ws_json(ws, extra=None):
    d = {"files": [[p, t] for p, t in ws["files"].items()], "root": ws["root"]}
    if extra:
        d.update(extra)
    return d


def impl(bindir, wss, offsets="all"):
    """real code: list of idedump objects (or {"panic": ...})"""
    inp = json.dumps([_ws_json(w, {"completion": False, "hint_ranges": [], "offsets": offsets}) for w in wss])
    return json.loads(_run([os.path.join(bindir, "idedump")], inp))


def core(bindir, wss):
    inp = json.dumps([_ws_json(w) for w in wss])
    return json.loads(_run([os.path.join(bindir, "coreast")], inp))


def model(exe, cores, wss, cmd="model"):
    """extracted model on the CoreAst of each workspace; returns list of dict or None (noncore / panic)"""
    lines, idx = [], []
    for k, (c, w) in enumerate(zip(cores, wss)):
        if c.get("panic") or c.get("ast") is None:
            continue
        lens = [len(w["files"].get(p, "").encode("utf-8")) for p in c["files"]]
        perrs = []
        for fi, p in enumerate(c["files"]):
            for lo, hi, _m in c["parse_errors"].get(p, []):
                perrs += [fi, lo, hi]
        lines.append("%s ; %s ; %s" % (" ".join(map(str, lens)), " ".join(map(str, perrs)), c["ast"]))
        idx.append(k)
    out = [None] * len(cores)
    if lines:
        res = _run([exe, cmd], "\n".join(lines) + "\n", unlimited_stack=True).split("\n")
        for k, line in zip(idx, res):
            out[k] = json.loads(line)
    return out


# ------------------------------------------------------------------ projections
def expand_runs(runs, length):
    """run-length compressed per-offset entries -> list indexed by offset 0..length"""
    out, cur, j = [], None, 0
    for o in range(length + 1):
        while j < len(runs) and runs[j][0] <= o:
            cur = runs[j][1]
            j += 1
        out.append(cur)
    return out


def impl_at(obj, path):
    """[(def, refs)] per offset for one file of an idedump object; def = (path, lo, hi) | None"""
    runs = [(e["o"], (tuple(e["def"]) if e["def"] else None,
                      tuple(tuple(r) for r in e["refs"]) if e["refs"] is not None else None))
            for e in obj["at"][path]]
    return expand_runs(runs, obj["len"][path])


def model_at(mobj, files, fi, length):
    def fr(r):
        return (files[r[0]], r[1], r[2])
    runs = [(e[0], (fr(e[1]) if e[1] else None,
                    tuple(fr(r) for r in e[2]) if e[2] is not None else None)) for e in mobj["at"][fi]]
    return expand_runs(runs, length)


def impl_diags(obj, cobj):
    """sorted [(path, lo, hi, class)] of the real Analysis::diagnostics"""
    out = []
    for p, ds in obj["diagnostics"].items():
        pm = set(m for _lo, _hi, m in (cobj or {}).get("parse_errors", {}).get(p, []))
        for lo, hi, m in ds:
            out.append((p, lo, hi, msg_class(m, pm)))
    return sorted(out)


def model_diags(mobj, files):
    return sorted((files[f], lo, hi, k) for f, lo, hi, k in mobj["diags"])


def correspond(ws, iobj, cobj, mobj):
    """model vs implementation under the projection of C05 (goto/references at every offset) and C13
    ((file, range, message class) multiset).  Returns list of disagreement descriptions."""
    bad = []
    if mobj is None:
        return bad
    if mobj.get("error"):
        return ["model driver error: " + mobj["error"]]
    if mobj["bad"]:
        bad.append("model ran out of fuel or hit a modelled panic")
    files = cobj["files"]
    for fi, p in enumerate(files):
        ia = impl_at(iobj, p)
        ma = model_at(mobj, files, fi, iobj["len"][p])
        for o, (x, y) in enumerate(zip(ia, ma)):
            if x != y:
                bad.append("query at %s:%d: implementation %r, model %r" % (p, o, x, y))
                break
    di, dm = impl_diags(iobj, cobj), model_diags(mobj, files)
    if di != dm:
        bad.append("diagnostics: implementation-only %r, model-only %r" % (
            [d for d in di if d not in dm][:4], [d for d in dm if d not in di][:4]))
    return bad


# ------------------------------------------------------------------ implementation-side oracle of C05
def oracle_c05(prog, iobj):
    """the generator's by-construction map against the real queries.  Returns list of (what, detail):
    every use: goto_definition at each of its offsets == the declaring identifier (right file);
               references == exactly the uses of that declaration;
    every declaration (not a field `let`): goto_definition on it == itself, references == its uses;
    every out-of-scope probe: no definition and a "symbol not found" diagnostic on exactly its range."""
    fails = []
    at = {p: impl_at(iobj, p) for p in iobj["at"]}
    uses_of = {}
    for (p, lo, hi, key) in prog.uses:
        uses_of.setdefault(key, []).append((p, lo, hi))
    for (p, lo, hi, key) in prog.uses:
        want = prog.decls[key]
        wrefs = sorted(uses_of[key])
        for o in range(lo, hi):
            d, refs = at[p][o]
            if d != want:
                fails.append(("goto", {"at": [p, o], "name_range": [lo, hi], "got": d, "expected": want, "decl": key}))
                break
            if refs is None or sorted(refs) != wrefs:
                fails.append(("references-at-use", {"at": [p, o], "got": refs, "expected": wrefs, "decl": key}))
                break
    for key, (p, lo, hi) in prog.decls.items():
        if prog.decl_kind[key] == "let":
            continue
        wrefs = sorted(uses_of.get(key, []))
        for o in range(lo, hi):
            d, refs = at[p][o]
            if d != (p, lo, hi):
                fails.append(("goto-on-declaration", {"at": [p, o], "got": d, "expected": [p, lo, hi], "decl": key}))
                break
            if refs is None or sorted(refs) != wrefs:
                fails.append(("references", {"at": [p, o], "got": refs, "expected": wrefs, "decl": key}))
                break
    for (p, lo, hi) in prog.notfound:
        for o in range(lo, hi):
            if at[p][o][0] is not None:
                fails.append(("out-of-scope-resolves", {"at": [p, o], "got": at[p][o][0]}))
                break
        ds = [d for d in iobj["diagnostics"].get(p, []) if d[0] == lo and d[1] == hi and msg_class(d[2]) == "SymbolNotFound"]
        if not ds:
            fails.append(("out-of-scope-not-reported", {"range": [p, lo, hi], "diagnostics": iobj["diagnostics"].get(p)}))
    # well-scoped programs: no "not found" diagnostic anywhere else
    nf = set(prog.notfound)
    for p, ds in iobj["diagnostics"].items():
        for lo, hi, m in ds:
            if msg_class(m) in ("SymbolNotFound", "ClassNotFound", "MulticlassNotFound", "CannotAccessField") \
                    and (p, lo, hi) not in nf:
                fails.append(("spurious-not-found", {"range": [p, lo, hi], "message": m}))
    return fails


# ---------------------------------------------------------------------------------------------------------
# model input computed INSIDE Coq from the texts (group bridge: model parser -> coq/model/AstToCore.v through the
# generated accessor table -> Pipeline.v include resolution), with the harness observer coreast.rs (real parse
# tree through the real typed accessors) as a required-equal cross-check on every workspace.
BRIDGE_TRANSLATORS = ["t_tokens", "t_lextables", "t_unicode", "t_lexer", "t_grammar", "t_grammarcert", "t_ast"]
_bridge = {}


def bridge_exe(fails):
    """the extracted bridge unit; a unit that does not build is a broken tie (recorded once), never a silent fallback"""
    if "exe" not in _bridge:
        try:
            _bridge["exe"] = vlib.build_model("bridge")
        except Exception as ex:              # vlib.BuildError and anything the build step raises
            _bridge["exe"] = None
            fails.append({"kind": "bridge-build", "file": "extracted unit `bridge` (coq/model/AstToCore.v, Pipeline.v) does not build",
                          "error": ("%s: %s" % (type(ex).__name__, ex))[-1500:]})
    return _bridge["exe"]


def _core_view(c):
    if c.get("panic"):
        return ("panic",)
    return (tuple(c.get("files") or ()), c.get("ast"), c.get("noncore"),
            tuple(sorted((p, tuple(tuple(e) for e in v)) for p, v in (c.get("parse_errors") or {}).items() if v)))


def core_checked(bindir, wss, fails, stats=None):
    """CoreAst objects for the model side: the Coq bridge's, each required to be equal (file list, serialisation
    character by character, noncore reason, parse errors) to what coreast.rs reads off the real parse tree.
    A difference is a broken tie with the workspace as its input; the harness object is used when the bridge unit
    is not available (already recorded as a broken tie by bridge_exe)."""
    import bridgelib
    H = core(bindir, wss)
    exe = bridge_exe(fails)
    st = stats if stats is not None else {}
    st.setdefault("workspaces", 0)
    st.setdefault("identical_to_harness", 0)
    st.setdefault("core", 0)
    if not exe:
        return H
    try:
        Bs = bridgelib.core_via_bridge(exe, [{"root": w["root"], "files": dict(w["files"])} for w in wss])
    except Exception as ex:
        fails.append({"kind": "bridge-run", "file": "extracted unit `bridge` failed at run time",
                      "error": ("%s: %s" % (type(ex).__name__, ex))[-1500:]})
        return H
    out = []
    for w, h, b in zip(wss, H, Bs):
        st["workspaces"] += 1
        if _core_view(h) == _core_view(b):
            st["identical_to_harness"] += 1
            st["core"] += b.get("ast") is not None
            out.append(b)
            continue
        hv, bv = _core_view(h), _core_view(b)
        what = "panic" if "panic" in (hv[0], bv[0]) else \
            next((n for n, x, y in zip(("files", "ast", "noncore", "parse_errors"), hv, bv) if x != y), "?")
        fails.append({"kind": "bridge-vs-coreast", "workspace": w, "differs_in": what,
                      "file": "coq/model/AstToCore.v (+ model parser, Pipeline.v) vs harness/src/bin/coreast.rs (real tree, real accessors)",
                      "harness": str(h.get(what) if isinstance(h, dict) else h)[:400],
                      "bridge": str(b.get(what) if isinstance(b, dict) else b)[:400]})
        out.append(b if not b.get("panic") else h)
    return out


# ---------------------------------------------------------------------------------------------------------
# translator ties of the hand models to their source (other groups' translators; my model files are only imported):
#  * group lines: tools/translate/t_indexer.py regenerates coq/gen/GenIndexer.v from the CURRENT index/scope.rs, index/context.rs,
#    index.rs; props/IndexerSource.v states that each rendered function is the hand model's (proofs/GenIndexerEq.v).  PARTIAL: the
#    statement lists exactly the covered functions.
#  * group lexprep: tools/translate/t_bangops.py regenerates coq/gen/GenBangOps.v from the CURRENT index/bang_operator.rs;
#    props/BangOpsSource.v: every rendered arm is Indexer.index_bang as a (result, state) pair, for all 51 operators.
#  * group lexprep: tools/translate/t_typ.py regenerates coq/gen/GenTyp.v from the CURRENT symbol_map/typ.rs; props/TypSource.v:
#    element_typ / is_* / find_field / can_be_casted_to are Scope.element_typ / is_* / ty_find_field / can_cast for all inputs, and
#    the enum declaration and the TY! table are what t_indexer / t_bangops assume.
#  * group outline: tools/translate/t_handlers.py regenerates coq/gen/GenHandlers.v from the CURRENT handlers/goto_definition.rs and
#    handlers/references.rs `exec`; props/HandlersSource.v: the rendering is SymbolMap.goto_definition / SymbolMap.references.
INDEXER_TRANSLATORS = ["t_indexer", "t_bangops", "t_typ"]
# (GenHandlersEq's cone needs GenFoldKinds.v; HostHandlersSource's cone needs GenFilesystem.v)
HANDLER_TRANSLATORS = ["t_foldkinds", "t_handlers"]
DIAG_TRANSLATORS = ["t_foldkinds", "t_handlers", "t_filesystem"]
INDEXER_SOURCE_THEOREMS = ["Indexer_model_is_source_partial"]
BANGOPS_SOURCE_THEOREMS = ["BangOps_model_is_source_partial", "BangOps_covered_ops_complete", "BangOps_all_arms_rendered",
                           "BangOps_model_is_source_all"]
TYP_SOURCE_THEOREMS = ["Typ_model_is_source", "Typ_tables_are_source"]
HANDLERS_SOURCE_THEOREMS = ["Goto_model_is_source", "References_model_is_source"]
INDEXER_SOURCE_TRUSTED = (
    "for Core programs the hand models are ALSO tied to their source by translation + proof: coq/model/{Scope,Indexer}.v for the "
    "functions listed in props/IndexerSource.v Indexer_model_is_source_partial (t_indexer -> coq/gen/GenIndexer.v rendered on every "
    "run from the current index/scope.rs, index/context.rs and index.rs; proofs/GenIndexerEq.v; design/notes-translator-indexer.md: "
    "all 66 functions of scope.rs / context.rs / index.rs are rendered, 64 of them with a lemma - values, check_template_args "
    "and the `index` entry included; the statement lists exactly the covered ones); "
    "coq/model/BangOps.v + Indexer.index_bang for ALL 51 operators of index/bang_operator.rs (t_bangops -> coq/gen/GenBangOps.v; "
    "props/BangOpsSource.v BangOps_model_is_source_all with BangOps_covered_ops_complete and BangOps_all_arms_rendered; "
    "design/notes-translator-bangops.md); the type functions of coq/model/Scope.v (element_typ, is_bits / is_list / is_record, "
    "ty_find_field, can_cast) for symbol_map/typ.rs, for all inputs, together with the enum declaration and the TY! table the two "
    "other translators assume (t_typ -> coq/gen/GenTyp.v; props/TypSource.v Typ_model_is_source, Typ_tables_are_source; relative "
    "to the plain depth-first is_subclass_of / find_field of Scope.v, whose equality with record.rs's visited-set versions is "
    "C05_subclass_visited_set / C05_field_lookup_visited_set; design/notes-translator-typ.md); trusted there: the translators "
    "t_indexer / t_bangops / t_typ (Rust subset readers) and the vocabulary files coq/model/IndexerSrc.v, BangOpsSrc.v.  The AST "
    "accessor -> CoreAst field table of the translators and db.rs / salsa are what is NOT tied by translation in the ide crate")
HANDLERS_SOURCE_TRUSTED = (
    "handlers/goto_definition.rs and handlers/references.rs `exec` are tied to SymbolMap.goto_definition / SymbolMap.references by "
    "translation + proof (t_handlers -> coq/gen/GenHandlers.v rendered on every run; props/HandlersSource.v Goto_model_is_source, "
    "References_model_is_source, for all symbol-map states and positions; a panic of find_symbol_at's lookup is an error outcome on "
    "both sides); trusted there: the translator t_handlers and coq/model/HandlerApi.v, HandlerSymApi.v (enum Symbol as a view of the "
    "arena entry)")

SOURCE_TIES = [
    ("IndexerSource", "TG.Props.IndexerSource", INDEXER_SOURCE_THEOREMS, "props/IndexerSource.vo", INDEXER_SOURCE_TRUSTED),
    ("BangOpsSource", "TG.Props.BangOpsSource", BANGOPS_SOURCE_THEOREMS, "props/BangOpsSource.vo", None),
    ("TypSource", "TG.Props.TypSource", TYP_SOURCE_THEOREMS, "props/TypSource.vo", None),
]
DIAG_HANDLER_TRUSTED = (
    "handlers/diagnostics.rs `exec` is tied by translation + proof (t_handlers -> coq/gen/GenHandlersHost.v rendered on every run; "
    "props/HostHandlersSource.v Diagnostics_model_is_source: the rendering returns, per workspace file, the parse errors of every "
    "workspace file followed by the index diagnostics, and projected to (range, class) that list is Indexer.diagnostics w whenever "
    "the database's parse errors / index diagnostics are the workspace's); the syntax-error clause is composed with the model "
    "pipeline in props/C13Pipeline.v (group symmap: C13_pipeline_perrs_exact, C13_pipeline_syntax_errors, "
    "C13_pipeline_files_parsed: the parse-error ranges of a Core workspace are exactly the modelled parser's errors of the "
    "workspace files); trusted there: the translator t_handlers, coq/model/HandlerHostApi.v, the message-class table")
DIAG_TIES = [
    ("HostHandlersSource", "TG.Props.HostHandlersSource", ["Diagnostics_model_is_source"], "props/HostHandlersSource.vo",
     DIAG_HANDLER_TRUSTED),
    ("C13Pipeline", "TG.Props.C13Pipeline", ["C13_pipeline_perrs_exact", "C13_pipeline_syntax_errors", "C13_pipeline_files_parsed"],
     "props/C13Pipeline.vo", None),
]
HANDLER_TIES = [
    ("HandlersSource", "TG.Props.HandlersSource", HANDLERS_SOURCE_THEOREMS, "props/HandlersSource.vo", HANDLERS_SOURCE_TRUSTED),
]


def source_tie(ctx, fails, handlers=False, diags=False):
    """obligations shared by C05 / C13: the hand models are the CURRENT source text (the translators INDEXER_TRANSLATORS, and
    HANDLER_TRANSLATORS with `handlers`, DIAG_TRANSLATORS with `diags`, must be among the translators of the check's proof_step, which runs before this)"""
    out = []
    for pre, module, theorems, target, trusted in SOURCE_TIES + (HANDLER_TIES if handlers else []) + (DIAG_TIES if diags else []):
        r = vlib.prove(module, theorems, [target])
        fails += r["failures"]
        ctx.cov["obligations"] = ctx.cov.get("obligations", 0) + r["obligations"]
        ctx.cov["discharged"] = ctx.cov.get("discharged", 0) + r["discharged"]
        ctx.cov["theorems"] = list(ctx.cov.get("theorems", [])) + [pre + "." + t for t in theorems]
        apt = dict(ctx.cov.get("axioms_per_theorem", {}))
        apt.update({pre + "." + k: v for k, v in r["assumptions"].items()})
        ctx.cov["axioms_per_theorem"] = apt
        if trusted:
            ctx.cov["trusted_base"] = list(ctx.cov.get("trusted_base", [])) + [trusted]
        ctx.cov["coq_wall_s"] = round(ctx.cov.get("coq_wall_s", 0) + r["wall_s"], 2)
        out.append(r)
    return out
