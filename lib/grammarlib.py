"""Helpers shared by the checks of group "grammar" (C20, C04)."""
import os
import re
import sys

sys.path.insert(0, os.path.dirname(os.path.abspath(__file__)))
import vlib


def coq_cone(targets):
    """transitive .v dependency cone (relative paths) of the given .vo targets, from coqdep"""
    with vlib.Lock("coq"):
        vlib.coq_prepare()
        rc, out = vlib.sh(["coqdep", "-f", "_CoqProject"], cwd=vlib.COQ, timeout=300)
    deps = {}
    for line in out.split("\n"):
        m = re.match(r"(\S+)\.vo .*?: (\S+\.v)(.*)", line)
        if m:
            deps[m.group(1) + ".vo"] = [d for d in m.group(3).split() if d.endswith(".vo")]
    seen, todo = set(), list(targets)
    while todo:
        t = todo.pop()
        if t in seen:
            continue
        seen.add(t)
        todo += deps.get(t, [])
    return sorted(t[:-1] for t in seen)


def own_failures(fails, targets):
    """drop `forbidden-declaration` hits in files outside the dependency cone of this property (another group's
    half-written file is not part of this property's proof)"""
    cone = set(coq_cone(targets))
    out = []
    for f in fails:
        if f.get("kind") == "forbidden-declaration":
            rel = f.get("where", "").split(":", 1)[0]
            if rel not in cone:
                continue
        out.append(f)
    return out
