(** Combinators for the translated source of the indexer (coq/gen/GenIndexer.v, translator
    tools/translate/t_indexer.py; group "lines").  The rendering works on the state [Scope.st] and in the monad [Scope.M]
    of the hand model (group scope; only imported).  A Rust `Vec` used as a stack (`scopes`, `file_trace`) is the list
    with the innermost element first: `push` = cons, `last()` / `last_mut()` = head, `pop()` = tail, `iter().rev()` = the
    list.  A `HashMap<name, id>` is an association list, `insert` = cons, `get` = [alookup] (first match).
    Executable definitions only. *)
From Coq Require Import List NArith Bool.
From TG.Model Require Import CoreAst Scope.
Import ListNotations.
Open Scope N_scope.
Open Scope ix_scope.

(** `stack.pop().expect("..")` *)
Definition pop_m {A} (getf : st -> list A) (setf : list A -> st -> st) : M A :=
  fun s => match getf s with x :: t => (Some x, setf t s) | [] => bad s end.
(** `*stack.last().expect("..")` *)
Definition top_m {A} (getf : st -> list A) : M A :=
  fun s => match getf s with x :: _ => (Some x, s) | [] => bad s end.
(** `let x = stack.last_mut().expect(".."); <mutations of x>` *)
Definition top_mut_m {A} (getf : st -> list A) (setf : list A -> st -> st) (f : A -> A) : M unit :=
  fun s => match getf s with x :: t => (Some tt, setf (f x :: t) s) | [] => bad s end.
Definition set_trace (t : list N) (s : st) : st := set_files t (s_indexed s) s.
(** the name of an anonymous def / defm (`eco_format!("anonymous_{index}")`): names of anonymous records are not
    modelled, the hand model uses the empty name *)
Definition anon_name (index : N) : name := [].
(** `[a, b].into_iter().flatten()` on Options *)
Definition opt_flatten {A} (l : list (option A)) : list A :=
  flat_map (fun o => match o with Some x => [x] | None => [] end) l.
(** typed accessors of ast::Value / ast::InnerValue on the CoreAst *)
Definition value_inners (v : value) : list inner := match v with Val _ l => l end.
Definition inner_simple (x : inner) : simple := match x with Inner s _ => s end.
Definition inner_sufs (x : inner) : list suffix := match x with Inner _ l => l end.
(** `let mut acc = init; for x in xs { acc = <body>?; }`: a fold whose body may return early (`?` / `return None`) *)
Fixpoint foldM {A B} (f : B -> A -> M B) (l : list A) (b : B) : M B :=
  match l with [] => ret b | x :: r => b' <- f b x ;; foldM f r b' end.
