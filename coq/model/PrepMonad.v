(** PrepMonad: the hand-written part of the SHALLOW embedding in which tools/translate/t_prep.py renders
    crates/syntax/src/preprocessor.rs (coq/gen/GenPrep.v, regenerated from the sources on every run).

    Defined here ONCE (trusted / modelled, like ScanMonad.v for the lexer):
    - the state of `PreProcessor<Lexer>`: the inner token stream (the Lexer state of ScanMonad.v), the macro set
      (`HashSet<EcoString>` as a duplicate-free list: insert = add if absent, contains = membership), the
      one-slot `error` field, `open_conditionals`;
    - a state monad [PM R A] for the body of a function whose result type is [R]: normal completion, `return r`
      ([PRet], carrying a value of the function's result type), Panic, OutOfFuel; [PF A] for a whole function
      ([pfn_body] is the function boundary, [call] a call from another body);
    - the calls on the generic parameter `T: TokenStream`, instantiated with `Lexer`: they run the GENERATED
      functions GenLexer.g_eat / g_cursor / g_text / g_take_error on the field [p_ts] (a Panic / OutOfFuel of the
      inner call propagates);
    - loops as fuelled iteration (fuel = characters left in the inner scanner + 2 at loop entry: every iteration of
      the two loops of the file eats one token of the inner stream and every token but Eof is non-empty);
    - field access, `usize::saturating_sub`, `Option::is_some`, `Option::take`.
    Everything else of the preprocessor is GENERATED. *)
From Coq Require Import List NArith Bool String.
From TG.Gen Require Import GenTokens GenLexer.
From TG.Model Require Import Chars ScanMonad.
Import ListNotations.
Open Scope N_scope.

(** * State of PreProcessor<Lexer> *)
Record pp := mk_pp { p_ts : lx; p_macros : list text; p_error : option string; p_open : N }.

(** * The monad *)
Inductive pres (R A : Type) : Type :=
| PNorm (a : A)           (* normal completion *)
| PRet (r : R)            (* `return r;` travelling to the function boundary *)
| PPanic                  (* unreachable code / a panic of the inner stream *)
| POof.                   (* a loop ran out of fuel (shown unreachable) *)
Arguments PNorm {R A} a.
Arguments PRet {R A} r.
Arguments PPanic {R A}.
Arguments POof {R A}.

Definition PM (R A : Type) : Type := pp -> pres R A * pp.
Definition pret {R A} (a : A) : PM R A := fun st => (PNorm a, st).
Definition pbind {R A B} (m : PM R A) (f : A -> PM R B) : PM R B :=
  fun st => match m st with
            | (PNorm a, st') => f a st'
            | (PRet r, st') => (PRet r, st')
            | (PPanic, st') => (PPanic, st')
            | (POof, st') => (POof, st')
            end.
Definition pearly {R A} (r : R) : PM R A := fun st => (PRet r, st).
Definition p_unreachable {R A} : PM R A := fun st => (PPanic, st).

(** a whole function: its result, or Panic / OutOfFuel *)
Inductive fres (A : Type) : Type := FNorm (a : A) | FPanic | FOof.
Arguments FNorm {A} a.
Arguments FPanic {A}.
Arguments FOof {A}.
Definition PF (A : Type) : Type := pp -> fres A * pp.
(** function boundary: `return r` becomes the value *)
Definition pfn_body {A} (m : PM A A) : PF A :=
  fun st => match m st with
            | (PNorm a, st') => (FNorm a, st')
            | (PRet a, st') => (FNorm a, st')
            | (PPanic, st') => (FPanic, st')
            | (POof, st') => (FOof, st')
            end.
(** a call of a function of the file from the body of another one *)
Definition call {R A} (f : PF A) : PM R A :=
  fun st => match f st with
            | (FNorm a, st') => (PNorm a, st')
            | (FPanic, st') => (PPanic, st')
            | (FOof, st') => (POof, st')
            end.

Declare Scope p_scope.
Delimit Scope p_scope with p.
Notation "x <- m ;; k" := (pbind m (fun x => k)) (at level 61, m at next level, right associativity) : p_scope.
Notation "m ;;; k" := (pbind m (fun _ => k)) (at level 61, right associativity) : p_scope.

(** * Loops: `loop { .. }` over the mutable locals [S] *)
Fixpoint p_loop {R S} (fuel : nat) (body : S -> PM R (ctl S)) (s : S) : PM R S :=
  match fuel with
  | O => fun st => (POof, st)
  | Datatypes.S n => pbind (body s) (fun c => match c with Continue s' => p_loop n body s' | Break s' => pret s' end)
  end.
Definition p_loop_fuel {R} : PM R nat :=
  fun st => (PNorm (Datatypes.S (Datatypes.S (List.length (sc_after (l_s (p_ts st)))))), st).

(** * The generic parameter `T: TokenStream`, instantiated with `Lexer`: the GENERATED lexer functions run on [p_ts] *)
Definition lift_ts {R A} (m : M A) : PM R A :=
  fun st =>
    let put l := mk_pp l (p_macros st) (p_error st) (p_open st) in
    match m (p_ts st) with
    | (Norm a, l) => (PNorm a, put l)
    | (Ret _, l) => (PPanic, put l)        (* a `return` never crosses a function boundary *)
    | (Panic, l) => (PPanic, put l)
    | (Oof, l) => (POof, put l)
    end.
Definition ts_eat {R} : PM R TokenKind := lift_ts g_eat.
Definition ts_cursor {R} : PM R N := lift_ts g_cursor.
Definition ts_text {R} (range : N * N) : PM R text := lift_ts (g_text range).
Definition ts_take_error {R} : PM R (option string) := lift_ts g_take_error.

(** * Fields *)
Definition get_open {R} : PM R N := fun st => (PNorm (p_open st), st).
Definition set_open {R} (n : N) : PM R unit := fun st => (PNorm tt, mk_pp (p_ts st) (p_macros st) (p_error st) n).
Definition get_perror {R} : PM R (option string) := fun st => (PNorm (p_error st), st).
Definition set_perror {R} (e : option string) : PM R unit :=
  fun st => (PNorm tt, mk_pp (p_ts st) (p_macros st) e (p_open st)).
(** Option::take on the field *)
Definition take_perror {R} : PM R (option string) :=
  fun st => (PNorm (p_error st), mk_pp (p_ts st) (p_macros st) None (p_open st)).
Definition get_macros {R} : PM R (list text) := fun st => (PNorm (p_macros st), st).

(** * HashSet<EcoString> as a duplicate-free list of names *)
Definition hashset_new : list text := [].
Definition mem_text (m : text) (ms : list text) : bool := existsb (list_eqb m) ms.
(** HashSet::insert: true iff the value was not present *)
Definition macros_insert {R} (m : text) : PM R bool :=
  fun st => if mem_text m (p_macros st) then (PNorm false, st)
            else (PNorm true, mk_pp (p_ts st) (m :: p_macros st) (p_error st) (p_open st)).
Definition macros_contains {R} (m : text) : PM R bool := fun st => (PNorm (mem_text m (p_macros st)), st).

(** * Rust std *)
Definition saturating_sub (a b : N) : N := a - b.           (* N subtraction is truncated at 0 *)
Definition opt_is_some {A} (v : option A) : bool := match v with Some _ => true | None => false end.
