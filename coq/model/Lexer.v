(** M-lexer: hand model of crates/syntax/src/lexer.rs (one definition per Rust function,
    same branching order).  The keyword / operator / directive / punctuation tables are the
    generated ones.  A token is (kind, error message, lexeme, rest). *)
From Coq Require Import List NArith Bool String.
From TG.Gen Require Import GenTokens GenLexTables.
From TG.Model Require Import Chars.
Import ListNotations.
Open Scope N_scope.

Inductive lex_err :=
| EInvalidDotDot | EUnexpectedChar | EInvalidBinary | EInvalidNumber | EInvalidHex
| EEolInString | EEofInString | EInvalidVarName | EUnterminatedCode | EUnknownOperator.

Definition lex_err_msg (e : lex_err) : string :=
  match e with
  | EInvalidDotDot => "Invalid '..' punctuation"
  | EUnexpectedChar => "Unexpected character"
  | EInvalidBinary => "Invalid binary number"
  | EInvalidNumber => "Invalid number"
  | EInvalidHex => "Invalid hexadecimal number"
  | EEolInString => "End of line in string literal"
  | EEofInString => "End of file in string literal"
  | EInvalidVarName => "Invalid variable name"
  | EUnterminatedCode => "Unterminated code block"
  | EUnknownOperator => "Unknown operator"
  end%string.
Definition all_lex_errs := [EInvalidDotDot; EUnexpectedChar; EInvalidBinary; EInvalidNumber; EInvalidHex;
  EEolInString; EEofInString; EInvalidVarName; EUnterminatedCode; EUnknownOperator].

(** result of one scanner run: kind, pending error, consumed lexeme, rest *)
Definition lexres := (TokenKind * option lex_err * text * text)%type.
Definition tok (k : TokenKind) (pre rest : text) : lexres := (k, None, pre, rest).
Definition err (e : lex_err) (pre rest : text) : lexres := (T_Error, Some e, pre, rest).

(** digits value with sticky overflow at [bound] (exclusive) *)
Definition digit_val (c : N) : N :=
  if is_ascii_digit c then c - 48
  else if (97 <=? c) then c - 87 else c - 55.
Fixpoint parse_digits (base bound : N) (acc : N) (ds : text) : option N :=
  match ds with
  | [] => Some acc
  | d :: r => let v := acc * base + digit_val d in
              if bound <=? v then None else parse_digits base bound v r
  end.
Definition two64 : N := 18446744073709551616.
Definition two63 : N := 9223372036854775808.

(** interpret_number(text).is_some(), split by the way [number] builds the lexeme:
    [sign] = 0 none, 1 '+', 2 '-'; [ds] the digits after the optional sign / 0x / 0b prefix. *)
Definition interpret_ok (base : N) (sign : N) (ds : text) : bool :=
  match ds with
  | [] => false
  | _ => match parse_digits base (if sign =? 2 then two63 + 1 else two64) 0 ds with
         | Some _ => true | None => false end
  end.

(** fn number(start, c): [c] already consumed; [s] = remaining input.  Returns lexres with the
    lexeme *excluding* c (the caller prepends it). *)
Definition number (c : N) (s : text) : lexres :=
  let peek_digit := match s with d :: _ => is_ascii_digit d | [] => false end in
  if negb peek_digit && (c =? 43) then tok T_Plus [] s
  else if negb peek_digit && (c =? 45) then tok T_Minus [] s
  else
    let sign := if c =? 43 then 1 else if c =? 45 then 2 else 0 in
    let '(base, pfx, s1) :=
      if c =? 48 then
        match s with
        | 98 :: r => (2, [98], r)
        | 120 :: r => (16, [120], r)
        | _ => (10, [], s)
        end
      else (10, [], s) in
    let '(ds, rest) :=
      if base =? 2 then eat_while is_bin_digit s1
      else if base =? 10 then eat_while is_ascii_digit s1
      else eat_while is_ascii_hexdigit s1 in
    (* the lexeme handed to interpret_number: for base 10 it includes the leading digit c *)
    let digits := if (base =? 10) && (sign =? 0) then c :: ds else ds in
    (* identifiers may start with digits: `4x`, `0_foo` *)
    if (base =? 10) && (sign =? 0) && (match rest with d :: _ => is_identifier_start d | [] => false end) then
      let '(a, rest') := eat_while is_identifier_continue rest in
      match lookup keyword_table (c :: ds ++ a) with
      | Some k => tok k (ds ++ a) rest'
      | None => tok T_Id (ds ++ a) rest'
      end
    (* `0b` / `0x` not followed by a digit of that base: a digit-leading identifier (fix 35af9d5);
       base <> 10 implies c = '0' and cursor = start + 2 iff no digit was eaten *)
    else if negb (base =? 10) && (match ds with [] => true | _ :: _ => false end) then
      let '(a, rest') := eat_while is_identifier_continue rest in
      match lookup keyword_table (c :: pfx ++ a) with
      | Some k => tok k (pfx ++ a) rest'
      | None => tok T_Id (pfx ++ a) rest'
      end
    else if interpret_ok base sign digits then
      tok (if base =? 2 then T_BinaryIntVal else T_IntVal) (pfx ++ ds) rest
    else
      err (if base =? 2 then EInvalidBinary else if base =? 10 then EInvalidNumber else EInvalidHex) (pfx ++ ds) rest.

Definition identifier (c : N) (s : text) : lexres :=
  let '(a, rest) := eat_while is_identifier_continue s in
  match lookup keyword_table (c :: a) with
  | Some k => tok k a rest
  | None => tok T_Id a rest
  end.

(** fn string (after the opening quote) *)
Fixpoint string_body (escaped : bool) (s : text) : lexres :=
  match s with
  | [] => err EEofInString [] []
  | c :: r =>
      if (c =? 92) && negb escaped then let '(k, e, a, b) := string_body true r in (k, e, c :: a, b)
      else if (c =? 34) && negb escaped then tok T_StrVal [c] r
      else if (c =? 13) || (c =? 10) then err EEolInString [c] r
      else let '(k, e, a, b) := string_body false r in (k, e, c :: a, b)
  end.

Definition var_name (s : text) : lexres :=
  match s with
  | c :: r => if is_identifier_start c
              then let '(a, rest) := eat_while is_identifier_continue r in tok T_VarName (c :: a) rest
              else err EInvalidVarName [] s
  | [] => err EInvalidVarName [] s
  end.

Definition code_fragment (s : text) : lexres :=
  let '(a, rest) := eat_until2 125 93 s in
  match rest with
  | 125 :: 93 :: r => tok T_CodeFragment (a ++ [125; 93]) r
  | _ => err EUnterminatedCode a rest
  end.

Definition bangoperator (s : text) : lexres :=
  let '(a, rest) := eat_while is_ascii_alphabetic s in
  match lookup bangop_table a with
  | Some k => tok k a rest
  | None => err EUnknownOperator a rest
  end.

Definition preprocessor (s : text) : lexres :=
  let '(a, rest) := eat_while is_alphabetic s in
  match lookup directive_table a with
  | Some k => tok k a rest
  | None => tok T_Paste [] s
  end.

(** fn block_comment (after "/*"), nesting; [depth] = Rust's depth - 1 *)
Fixpoint block_comment (depth : nat) (s : text) : text * text :=
  match s with
  | [] => ([], [])
  | c :: r =>
      match r with
      | d :: r' =>
          if (c =? 47) && (d =? 42) then
            let '(a, b) := block_comment (S depth) r' in (c :: d :: a, b)
          else if (c =? 42) && (d =? 47) then
            match depth with
            | O => ([c; d], r')
            | S depth' => let '(a, b) := block_comment depth' r' in (c :: d :: a, b)
            end
          else let '(a, b) := block_comment depth r in (c :: a, b)
      | [] => ([c], [])
      end
  end.

Definition cons_lexeme (c : N) (r : lexres) : lexres :=
  let '(k, e, a, b) := r in (k, e, c :: a, b).

(** fn next_token *)
Definition lex_one (s : text) : lexres :=
  match s with
  | [] => tok T_Eof [] []
  | c :: r =>
      if is_whitespace c then
        let '(a, rest) := eat_while is_ascii_whitespace r in tok T_Whitespace (c :: a) rest
      else if (c =? 47) && (match r with 47 :: _ => true | _ => false end) then
        let '(a, rest) := eat_until is_newline (tl r) in tok T_LineComment (c :: 47 :: a) rest
      else if (c =? 47) && (match r with 42 :: _ => true | _ => false end) then
        let '(a, rest) := block_comment O (tl r) in tok T_BlockComment (c :: 42 :: a) rest
      else if is_ascii_digit c then cons_lexeme c (number c r)
      else if c =? 45 then cons_lexeme c (number c r)
      else if c =? 43 then cons_lexeme c (number c r)
      else if is_identifier_start c then cons_lexeme c (identifier c r)
      else if c =? 34 then cons_lexeme c (string_body false r)
      else if c =? 36 then cons_lexeme c (var_name r)
      else if (c =? 91) && (match r with 123 :: _ => true | _ => false end) then
        let '(k, e, a, b) := code_fragment (tl r) in (k, e, c :: 123 :: a, b)
      else if c =? 33 then cons_lexeme c (bangoperator r)
      else if c =? 35 then cons_lexeme c (preprocessor r)
      else if c =? 46 then
        match r with
        | 46 :: r1 =>
            match r1 with
            | 46 :: r2 => tok T_DotDotDot [46; 46; 46] r2
            | _ => err EInvalidDotDot [46; 46] r1
            end
        | _ => tok T_Dot [46] r
        end
      else match lookup1 punct_table c with
      | Some k => tok k [c] r
      | None => err EUnexpectedChar [c] r
      end
  end.

(** whole-input token list, fuel = length + 1 (every non-Eof token consumes, see proofs) *)
Fixpoint lex_all (fuel : nat) (s : text) : list (TokenKind * option lex_err * text) :=
  match fuel with
  | O => []
  | S n => let '(k, e, a, rest) := lex_one s in
           match k with
           | T_Eof => [(k, e, a)]
           | _ => (k, e, a) :: lex_all n rest
           end
  end.
Definition lex_text (s : text) := lex_all (S (List.length s)) s.
