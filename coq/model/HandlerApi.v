(** M-handlerapi (group outline, C18/C19): the vocabulary that coq/gen/GenHandlers.v -- the rendering of the CURRENT source of
    handlers/folding_range.rs, utils.rs, handlers/hover.rs (extract_doc_comments, prev_token) by tools/translate/t_handlers.py --
    is written in.  Three parts, all executable:
    1. the control monad [hm R B A] of a Rust fn body: a value, an early `return` (also what `?` does), a `break` carrying the
       loop state, running out of the fuel a rendered `loop` / `while let` is given, a panic (an assertion of rowan);
       [hloop] / [hforever] / [hfor];
    2. the rowan cursor API over the zippers of TreeNav.v (SyntaxNode = SyntaxToken = SyntaxElement = [cursor]): the MODELLED,
       trusted contract of rowan, exercised by the correspondence runs of C18 / C19 on real trees;
    3. the `str` / `TextRange` / `Option` / iterator operations the handlers use. *)
From Coq Require Import List NArith Bool.
From TG.Gen Require Import GenTokens.
From TG.Model Require Import Chars Tree TreeNav DocComments.
Import ListNotations.
Open Scope N_scope.

(** ================= 1. control ================= *)
Inductive outcome (A : Type) : Type := Done (a : A) | OutOfFuel | Panicked.
Arguments Done {A} a. Arguments OutOfFuel {A}. Arguments Panicked {A}.

Inductive hm (R B A : Type) : Type :=
| Val (a : A)          (* the block ran to its end with value a *)
| Ret (r : R)          (* `return r` (and `e?` on None) *)
| Brk (b : B)          (* `break` of the innermost loop, with the loop state at that point *)
| Fuel                 (* the fuel of a rendered loop ran out *)
| Panic.               (* a modelled panic *)
Arguments Val {R B A} a. Arguments Ret {R B A} r. Arguments Brk {R B A} b. Arguments Fuel {R B A}. Arguments Panic {R B A}.

Definition hbind {R B A C : Type} (m : hm R B A) (f : A -> hm R B C) : hm R B C :=
  match m with
  | Val a => f a
  | Ret r => Ret r
  | Brk b => Brk b
  | Fuel => Fuel
  | Panic => Panic
  end.
Notation "x <- m ;; k" := (hbind m (fun x => k)) (at level 61, m at next level, right associativity).

(** the value of a fn body (no `break` can escape a fn: B is empty) *)
Definition hrun {R : Type} (m : hm R Empty_set R) : outcome R :=
  match m with
  | Val a => Done a
  | Ret r => Done r
  | Brk b => match b with end
  | Fuel => OutOfFuel
  | Panic => Panicked
  end.

(** `e?` in a fn returning Option *)
Definition htry {R B A : Type} (o : option A) : hm (option R) B A :=
  match o with Some a => Val a | None => Ret None end.
(** a rowan call whose contract can fail (assertion): None = panic *)
Definition hassert {R B A : Type} (o : option A) : hm R B A :=
  match o with Some a => Val a | None => Panic end.
(** the call of another rendered fn *)
Definition hcall {R B A : Type} (o : outcome A) : hm R B A :=
  match o with Done a => Val a | OutOfFuel => Fuel | Panicked => Panic end.

(** `loop { body }` / `while ..` / `while let ..`: the body maps the loop state to the next state ([Val]), or breaks *)
Fixpoint hloop {R B St : Type} (fuel : nat) (body : St -> hm R St St) (st : St) : hm R B St :=
  match fuel with
  | O => Fuel
  | S f =>
      match body st with
      | Val st' => hloop f body st'
      | Brk st' => Val st'
      | Ret r => Ret r
      | Fuel => Fuel
      | Panic => Panic
      end
  end.
(** a `loop` without `break`: it can only be left by `return` *)
Fixpoint hforever {R B St A : Type} (fuel : nat) (body : St -> hm R St St) (st : St) : hm R B A :=
  match fuel with
  | O => Fuel
  | S f =>
      match body st with
      | Val st' => hforever f body st'
      | Brk st' => Panic          (* not produced: the translator uses hforever only for bodies without `break` *)
      | Ret r => Ret r
      | Fuel => Fuel
      | Panic => Panic
      end
  end.
(** `for x in xs { body }` *)
Fixpoint hfor {R B X St : Type} (xs : list X) (body : X -> St -> hm R St St) (st : St) : hm R B St :=
  match xs with
  | [] => Val st
  | x :: r =>
      match body x st with
      | Val st' => hfor r body st'
      | Brk st' => Val st'
      | Ret r0 => Ret r0
      | Fuel => Fuel
      | Panic => Panic
      end
  end.

(** ================= 2. rowan ================= *)
Definition trange : Type := (N * N)%type.
Definition rg_new (a b : N) : trange := (a, b).     (* TextRange::new; its assertion start <= end is C18_fold_wf *)
Definition rg_start (r : trange) : N := fst r.
Definition rg_end (r : trange) : N := snd r.
Definition rg_is_empty (r : trange) : bool := fst r =? snd r.

(** descendants_with_tokens(): preorder over all elements, self included *)
Fixpoint elems_from (t : tree) (ctx : list frame) : list cursor :=
  (t, ctx) ::
  match t with
  | Tok _ _ => []
  | Node k cs =>
      (fix go (left_rev : list tree) (l : list tree) : list cursor :=
         match l with
         | [] => []
         | c :: r => elems_from c (mkFrame k left_rev r :: ctx) ++ go (c :: left_rev) r
         end) [] cs
  end.

Definition rw_kind (c : cursor) : SyntaxKind := kind_of (fst c).
Definition rw_parent (c : cursor) : option cursor := parent c.
Definition rw_into_node (c : cursor) : option cursor := if is_node (fst c) then Some c else None.
Definition rw_into_token (c : cursor) : option cursor := if is_node (fst c) then None else Some c.
Definition rw_prev_sibling_or_token (c : cursor) : option cursor := prev_sibling_or_token c.
Definition rw_last_child_or_token (c : cursor) : option cursor := last_opt (child_cursors c).
Definition rw_first_token (c : cursor) : option cursor := first_token (fst c) (snd c).
Definition rw_text_range (c : cursor) : trange := cur_range c.
Definition rw_text (c : cursor) : text := tree_text (fst c).
Definition rw_descendants_with_tokens (c : cursor) : list cursor := elems_from (fst c) (snd c).
Definition rw_descendants (c : cursor) : list cursor :=
  filter (fun x => is_node (fst x)) (rw_descendants_with_tokens c).
(** covering_element for a non-empty range inside the node; None = outside the modelled contract (rowan asserts that the range
    lies inside the node; an empty range is never passed: define_loc of an indexed symbol) *)
Definition rw_covering_element (c : cursor) (r : trange) : option cursor :=
  if (cur_offset c <=? fst r) && (fst r <? snd r) && (snd r <=? cur_offset c + tree_len (fst c))
  then Some (covering_from (fst r) (snd r) (cur_offset c) (fst c) (snd c)) else None.

(** db.parse(file).syntax_node() *)
Definition parse_db : Type := N -> tree.
Definition db_parse (db : parse_db) (f : N) : tree := db f.
Definition rw_syntax_node (t : tree) : cursor := cur_root t.

(** ================= 3. str / Option / iterators ================= *)
(** `s.matches(c).count()` for a char pattern *)
Definition st_count_char (s : text) (c : N) : nat := length (filter (N.eqb c) s).
(** `s.starts_with(p)` *)
Fixpoint st_starts_with (s p : text) : bool :=
  match p, s with
  | [], _ => true
  | a :: p', b :: s' => (b =? a) && st_starts_with s' p'
  | _ :: _, [] => false
  end.
(** `s.trim_start_matches(c)` for a char pattern *)
Fixpoint st_trim_start_matches_char (s : text) (c : N) : text :=
  match s with x :: r => if x =? c then st_trim_start_matches_char r c else s | [] => [] end.
Definition st_trim_start (s : text) : text := trim_start s.
(** `v.join(sep)` *)
Fixpoint st_join (sep : text) (ls : list text) : text :=
  match ls with
  | [] => []
  | [x] => x
  | x :: r => x ++ sep ++ st_join sep r
  end.
Definition st_is_empty (s : text) : bool := match s with [] => true | _ :: _ => false end.

Definition opt_map_or {A B : Type} (o : option A) (d : B) (f : A -> B) : B :=
  match o with Some a => f a | None => d end.
Definition opt_and_then {A B : Type} (o : option A) (f : A -> option B) : option B :=
  match o with Some a => f a | None => None end.
Fixpoint it_filter_map {A B : Type} (f : A -> option B) (l : list A) : list B :=
  match l with
  | [] => []
  | a :: r => match f a with Some b => b :: it_filter_map f r | None => it_filter_map f r end
  end.
Definition it_last {A : Type} (l : list A) : option A := last_opt l.

(** handlers::folding_range::FoldingRange { range } *)
Definition mk_folding_range (r : trange) : trange := r.
