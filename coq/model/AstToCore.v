(** M-bridge: the typed-AST layer between the parse tree (model/Tree.v, produced by the modelled
    parser) and the Core AST the indexer model consumes (model/CoreAst.v).

    This file mirrors harness/src/bin/coreast.rs function by function, in the same order, with the
    same order of evaluation (so that the FIRST missing mandatory child is the one reported).  Every
    child / children / nth access goes through [field], which looks the accessor up BY NAME in the
    table gen/GenAst.v that tools/translate/t_ast.py regenerates from the [asts!{}] block of
    crates/syntax/src/ast.rs on every run: a changed [ast_field!] index or kind changes this model.
    The eight hand-written methods of ast.rs ([ast_methods] in GenAst.v) are modelled by hand in the
    section "hand-written methods".

    Ranges: as in rowan, a node carries no range; [lnode] = (absolute start offset, subtree) and the
    range is derived from the leaf lengths (Tree.tree_len).

    Outcomes: [Ok a] | [Err why] (coreast.rs: Err(String) -> the workspace is "noncore") | [Fuel]
    (the recursion is on a fuel counter; proofs/BridgeProofs.v shows that [core_of_tree] never
    returns [Fuel]).  Executable definitions only. *)
From Coq Require Import List NArith ZArith Bool String PeanoNat.
From TG.Gen Require Import GenTokens GenAst.
From TG.Model Require Import Chars Lexer Tree AstAccess CoreAst.
Import ListNotations.
Close Scope string_scope.
Open Scope N_scope.
Open Scope list_scope.

(** * Result monad *)
Inductive res (A : Type) : Type :=
| Ok (a : A)
| Err (why : string)
| Fuel.
Arguments Ok {A} a.
Arguments Err {A} why.
Arguments Fuel {A}.

Definition bind {A B : Type} (m : res A) (f : A -> res B) : res B :=
  match m with Ok a => f a | Err e => Err e | Fuel => Fuel end.
Notation "x <- m ;; k" := (bind m (fun x => k)) (at level 61, m at next level, right associativity).

Fixpoint mapM {A B : Type} (f : A -> res B) (l : list A) : res (list B) :=
  match l with
  | [] => Ok []
  | x :: r => y <- f x ;; ys <- mapM f r ;; Ok (y :: ys)
  end.

(** fn need: Option -> Result ("missing <what>"); an Option-valued accessor is a list of length <= 1 *)
Definition need {A : Type} (o : list A) (what : string) : res A :=
  match o with
  | a :: _ => Ok a
  | [] => Err (String.append "missing " what)
  end.
Definition need_opt {A : Type} (o : option A) (what : string) : res A :=
  match o with
  | Some a => Ok a
  | None => Err (String.append "missing " what)
  end.

(** * Located nodes and the interpreted accessors *)
Definition lnode : Type := (N * tree)%type.
Definition l_kind (x : lnode) : SyntaxKind := kind_of (snd x).
Definition l_end (x : lnode) : N := fst x + tree_len (snd x).
(** SyntaxNode::children_with_tokens, with absolute offsets *)
Definition lchildren (x : lnode) : list lnode := with_offsets (fst x) (children_of (snd x)).

(** rowan::ast::support::child / children / children().nth(i): the located version of AstAccess.access
    (proofs/BridgeProofs.v: [map snd (laccess x ks m) = access (snd x) ks m]) *)
Definition laccess (x : lnode) (ks : list SyntaxKind) (m : acc_mode) : list lnode :=
  let cs := filter (fun c => is_node (snd c) && kind_in (kind_of (snd c)) ks) (lchildren x) in
  match m with
  | AChild => firstn 1 cs
  | AChildren => cs
  | ANth i => match nth_error cs i with Some c => [c] | None => [] end
  end.

(** the accessor [f] of the ast struct of [x]'s kind, looked up in the GENERATED table *)
Definition field (x : lnode) (f : string) : list lnode :=
  match find (fun a => String.eqb (fst (fst a)) f) (accessors_of (l_kind x)) with
  | Some a => laccess x (acc_kinds a) (acc_mode_of a)
  | None => []
  end.

(** SyntaxNode::first_token: first_child_or_token()?.first_token() (an empty first child node gives None) *)
Fixpoint first_tok (off : N) (t : tree) : option lnode :=
  match t with
  | Tok _ _ => Some (off, t)
  | Node _ [] => None
  | Node _ (c :: _) => first_tok off c
  end.
Definition first_token (x : lnode) : option lnode := first_tok (fst x) (snd x).

Fixpoint height (t : tree) : nat :=
  match t with
  | Tok _ _ => O
  | Node _ cs => S ((fix go (l : list tree) : nat :=
                       match l with [] => O | c :: r => Nat.max (height c) (go r) end) cs)
  end.

(** * struct Cx *)
Record cx : Type := mkCx { cx_file : N; cx_links : list (N * N * N) }.   (* links: (lo, hi, target file number) *)

(** fn rng *)
Definition rng_of (c : cx) (x : lnode) : rng := mkR (cx_file c) (fst x) (l_end x).

(** * Hand-written methods of ast.rs (GenAst.ast_methods) *)
(** Identifier::value / Identifier::range: text and range of the first token *)
Definition m_identifier (c : cx) (x : lnode) : option ident :=
  match first_token x with
  | Some (o, Tok _ txt) => Some (mkId (mkR (cx_file c) o (o + bytes txt)) txt)
  | _ => None
  end.

(** Rust: u64::from_str_radix / str::parse::<u64>: optional '+', at least one digit of the base, < 2^64 *)
Definition digits_ok (base : N) (ds : text) : bool :=
  match ds with
  | [] => false
  | _ => forallb (fun d => if base =? 2 then is_bin_digit d
                           else if base =? 10 then is_ascii_digit d else is_ascii_hexdigit d) ds
  end.
Definition parse_u64 (base : N) (s : text) : option N :=
  let ds := match s with 43 :: r => r | _ => s end in
  if digits_ok base ds then parse_digits base two64 0 ds else None.
(** `i as i64` *)
Definition as_i64 (v : N) : Z := if v <? two63 then Z.of_N v else (Z.of_N v - Z.of_N two64)%Z.
(** lexer::interpret_number *)
Definition interpret_number (s : text) : option Z :=
  match s with
  | 48 :: 120 :: r => option_map as_i64 (parse_u64 16 r)
  | 48 :: 98 :: r => option_map as_i64 (parse_u64 2 r)
  | 45 :: r =>                                           (* str::parse::<i64> of "-digits": >= -2^63 *)
      if digits_ok 10 r then option_map (fun v => (- Z.of_N v)%Z) (parse_digits 10 (two63 + 1) 0 r) else None
  | _ => option_map as_i64 (parse_u64 10 s)
  end.
(** Integer::value *)
Definition m_integer_value (x : lnode) : option Z :=
  match first_token x with
  | Some (_, Tok _ txt) => interpret_number txt
  | _ => None
  end.

Fixpoint drop_quotes (s : text) : text :=
  match s with
  | 34 :: r => drop_quotes r
  | _ => s
  end.
(** trim_start_matches('"').trim_end_matches('"') *)
Definition trim_quotes (s : text) : text := rev (drop_quotes (rev (drop_quotes s))).
(** String::value: the StrVal token children, trimmed, joined *)
Definition m_string_value (x : lnode) : text :=
  List.concat (map (fun c => match snd c with Tok _ txt => trim_quotes txt | Node _ _ => [] end)
                   (filter (fun c => sk_eqb (kind_of (snd c)) S_StrVal && negb (is_node (snd c))) (lchildren x))).

(** SliceSuffix::is_single_element *)
Definition m_is_single_element (x : lnode) : bool :=
  match field x "element_list" with
  | [] => false
  | l :: _ =>
      let elements := field l "elements" in
      let num_colon := List.length (filter (fun c => sk_eqb (kind_of (snd c)) S_Colon) (lchildren x)) in
      match elements with
      | [e] => match field e "end" with [] => Nat.eqb num_colon 0 | _ => false end
      | _ => false
      end
  end.

(** BangOperator::kind: kind of the first token; [None] also when that kind has no arm in
    index/bang_operator.rs (coreast.rs prints the kind's Debug name, which the reader
    coq/extract/scope_driver.ml then rejects) *)
Definition bop_of_kind (k : SyntaxKind) : option bop :=
  match k with
  | S_XAdd => Some XAdd | S_XAnd => Some XAnd | S_XMul => Some XMul | S_XOr => Some XOr | S_XXor => Some XXor
  | S_XDiv => Some XDiv | S_XSub => Some XSub | S_XSrl => Some XSrl | S_XSra => Some XSra | S_XShl => Some XShl
  | S_XCast => Some XCast | S_XCon => Some XCon | S_XDag => Some XDag | S_XEmpty => Some XEmpty | S_XEq => Some XEq
  | S_XNe => Some XNe | S_XExists => Some XExists | S_XFilter => Some XFilter | S_XFind => Some XFind
  | S_XFoldl => Some XFoldl | S_XForEach => Some XForEach | S_XGe => Some XGe | S_XGt => Some XGt
  | S_XLe => Some XLe | S_XLt => Some XLt | S_XGetDagArg => Some XGetDagArg | S_XGetDagName => Some XGetDagName
  | S_XGetDagOp => Some XGetDagOp | S_XHead => Some XHead | S_XIf => Some XIf | S_XInitialized => Some XInitialized
  | S_XInterleave => Some XInterleave | S_XIsA => Some XIsA | S_XListConcat => Some XListConcat
  | S_XListFlatten => Some XListFlatten | S_XListRemove => Some XListRemove | S_XListSplat => Some XListSplat
  | S_XLog2 => Some XLog2 | S_XNot => Some XNot | S_XRange => Some XRange | S_XRepr => Some XRepr
  | S_XSetDagArg => Some XSetDagArg | S_XSetDagName => Some XSetDagName | S_XSetDagOp => Some XSetDagOp
  | S_XSize => Some XSize | S_XStrConcat => Some XStrConcat | S_XSubst => Some XSubst | S_XSubstr => Some XSubstr
  | S_XTail => Some XTail | S_XToLower => Some XToLower | S_XToUpper => Some XToUpper
  | _ => None
  end.
Definition m_bang_kind (x : lnode) : option SyntaxKind :=
  match first_token x with Some y => Some (l_kind y) | None => None end.

(** * coreast.rs, function by function *)
Open Scope string_scope.
Open Scope N_scope.
Open Scope list_scope.

(** fn ident(cx, id: &ast::Identifier): the argument is TYPED in coreast.rs (Identifier::cast succeeded), which the
    explicit kind test records here; with the table as generated it never fails (every accessor whose result
    coreast.rs hands to `ident` has target type Identifier, otherwise coreast.rs would not compile) *)
Definition c_ident (c : cx) (x : lnode) : res ident :=
  if sk_eqb (l_kind x) S_Identifier then need_opt (m_identifier c x) "identifier text"
  else Err "cast: Identifier".

(** fn typ *)
Fixpoint c_typ (n : nat) (c : cx) (x : lnode) {struct n} : res ty :=
  match n with
  | O => Fuel
  | S n' =>
    match l_kind x with
    | S_BitType => Ok TyBit
    | S_IntType => Ok TyInt
    | S_StringType => Ok TyString
    | S_CodeType => Ok TyCode
    | S_DagType => Ok TyDag
    | S_BitsType =>
        len <- need (field x "length") "bits length" ;;
        v <- need_opt (m_integer_value len) "bits length value" ;;
        if (v <? 0)%Z then Err "negative bits length" else Ok (TyBits (Z.to_N v))
    | S_ListType =>
        it <- need (field x "inner_type") "list inner type" ;;
        t <- c_typ n' c it ;;
        Ok (TyList t)
    | S_ClassId =>
        nm <- need (field x "name") "class id name" ;;
        i <- c_ident c nm ;;
        Ok (TyClass i)
    | _ => Err "cast: Type"
    end
  end.

(** the ValueSuffix arm of fn inner *)
Definition c_suffix (c : cx) (x : lnode) : res suffix :=
  match l_kind x with
  | S_RangeSuffix => Ok SufRange
  | S_SliceSuffix => Ok (SufSlice (m_is_single_element x))
  | S_FieldSuffix =>
      nm <- need (field x "name") "field suffix name" ;;
      i <- c_ident c nm ;;
      Ok (SufField i (rng_of c x))
  | _ => Err "cast: ValueSuffix"
  end.

(** fn opt_value / fn values / fn args over the recursive translators (combinators: they neither
    descend nor consume fuel themselves) *)
Definition opt_with {A : Type} (f : lnode -> res A) (l : list lnode) : res (option A) :=
  match l with
  | [] => Ok None
  | v :: _ => r <- f v ;; Ok (Some r)
  end.
Definition args_with (f : lnode -> res arg) (l : list lnode) : res (list arg) :=
  match l with
  | [] => Ok []
  | avl :: _ => mapM f (field avl "arg_values")
  end.
(** filter_map(|it| it.value()) over DagArg nodes *)
Definition dag_values (l : list lnode) : list lnode := flat_map (fun a => field a "value") l.

(** fn value, fn inner, fn simple and the per-argument body of fn args *)
Fixpoint c_value (n : nat) (c : cx) (x : lnode) {struct n} : res value :=
  match n with
  | O => Fuel
  | S n' =>
      inners <- mapM (c_inner n' c) (field x "inner_values") ;;
      match inners with
      | [] => Err "value without inner value"
      | _ => Ok (Val (rng_of c x) inners)
      end
  end
with c_inner (n : nat) (c : cx) (x : lnode) {struct n} : res inner :=
  match n with
  | O => Fuel
  | S n' =>
      sv <- need (field x "simple_value") "simple value" ;;
      s <- c_simple n' c sv ;;
      sufs <- mapM (c_suffix c) (field x "suffixes") ;;
      Ok (Inner s sufs)
  end
with c_simple (n : nat) (c : cx) (x : lnode) {struct n} : res simple :=
  match n with
  | O => Fuel
  | S n' =>
    match l_kind x with
    | S_Integer => Ok SInt
    | S_String => Ok SString
    | S_Code => Ok SCode
    | S_Boolean => Ok SBool
    | S_Uninitialized => Ok SUninit
    | S_Bits =>
        vl <- need (field x "value_list") "bits value list" ;;
        vs <- mapM (c_value n' c) (field vl "values") ;;
        Ok (SBits vs)
    | S_List =>
        vl <- need (field x "value_list") "list value list" ;;
        vs <- mapM (c_value n' c) (field vl "values") ;;
        Ok (SList vs)
    | S_Dag =>
        let op := dag_values (field x "operator") in
        let rest := match field x "arg_list" with [] => [] | al :: _ => dag_values (field al "args") end in
        vs <- mapM (c_value n' c) (op ++ rest) ;;
        Ok (SDag vs)
    | S_Identifier =>
        i <- c_ident c x ;;
        Ok (SId i)
    | S_ClassValue =>
        nm <- need (field x "name") "class value name" ;;
        i <- c_ident c nm ;;
        a <- args_with (c_arg n' c) (field x "arg_value_list") ;;
        Ok (SClassVal i a (rng_of c x))
    | S_BangOperator =>
        k <- need_opt (m_bang_kind x) "bang operator kind" ;;
        annot <- opt_with (fun t => t' <- c_typ n' c t ;; Ok (t', rng_of c t)) (field x "type") ;;
        vs <- mapM (c_value n' c) (field x "values") ;;
        match bop_of_kind k with
        | Some op => Ok (SBang op annot vs (rng_of c x))
        | None => Err "bang operator without an arm"
        end
    | S_CondOperator =>
        cvs <- mapM (fun cl => cn <- need (field cl "condition") "cond condition" ;;
                               v <- need (field cl "value") "cond value" ;;
                               Ok [cn; v]) (field x "clauses") ;;
        vs <- mapM (c_value n' c) (List.concat cvs) ;;
        Ok (SCond vs)
    | _ => Err "cast: SimpleValue"
    end
  end
with c_arg (n : nat) (c : cx) (x : lnode) {struct n} : res arg :=
  match n with
  | O => Fuel
  | S n' =>
    match l_kind x with
    | S_PositionalArgValue =>
        v <- need (field x "value") "positional value" ;;
        v' <- c_value n' c v ;;
        Ok (APos v' (rng_of c x))
    | S_NamedArgValue =>
        nm <- need (field x "name") "named arg name" ;;
        first <- need (field nm "inner_values") "named arg name inner" ;;
        sv <- need (field first "simple_value") "named arg name simple" ;;
        match l_kind sv with
        | S_String =>
            v <- need (field x "value") "named value" ;;
            v' <- c_value n' c v ;;
            Ok (ANamed (m_string_value sv) v' (rng_of c x))
        | S_Identifier =>
            i <- need_opt (m_identifier c sv) "named ident" ;;
            v <- need (field x "value") "named value" ;;
            v' <- c_value n' c v ;;
            Ok (ANamed (i_name i) v' (rng_of c x))
        | _ => Ok (ANamedBad (rng_of c x))
        end
    | _ => Err "cast: ArgValue"
    end
  end.

(** fn values *)
Definition c_values (n : nat) (c : cx) (l : list lnode) : res (list value) := mapM (c_value n c) l.
(** fn args *)
Definition c_args (n : nat) (c : cx) (l : list lnode) : res (list arg) := args_with (c_arg n c) l.
(** fn opt_value *)
Definition c_opt_value (n : nat) (c : cx) (l : list lnode) : res (option value) := opt_with (c_value n c) l.

(** fn targs *)
Definition c_targs (n : nat) (c : cx) (l : list lnode) : res (option (list targ)) :=
  opt_with (fun tl =>
              mapM (fun a =>
                      t <- need (field a "type") "template arg type" ;;
                      t' <- c_typ n c t ;;
                      nm <- need (field a "name") "template arg name" ;;
                      i <- c_ident c nm ;;
                      d <- c_opt_value n c (field a "value") ;;
                      Ok (TArg t' i d)) (field tl "args")) l.

(** fn parents *)
Definition c_parents (n : nat) (c : cx) (pl : lnode) : res (list classref) :=
  mapM (fun cr =>
          nm <- need (field cr "name") "class ref name" ;;
          i <- c_ident c nm ;;
          a <- c_args n c (field cr "arg_value_list") ;;
          Ok (CRef i a (rng_of c cr))) (field pl "classes").

(** the BodyItem arms of fn record_body *)
Definition c_item (n : nat) (c : cx) (x : lnode) : res item :=
  match l_kind x with
  | S_FieldDef =>
      t <- need (field x "type") "field type" ;;
      t' <- c_typ n c t ;;
      nm <- need (field x "name") "field name" ;;
      i <- c_ident c nm ;;
      v <- c_opt_value n c (field x "value") ;;
      Ok (IField t' i v)
  | S_FieldLet =>
      nm <- need (field x "name") "field let name" ;;
      i <- c_ident c nm ;;
      v <- need (field x "value") "field let value" ;;
      v' <- c_value n c v ;;
      Ok (ILet i v')
  | S_Defvar =>
      nm <- need (field x "name") "defvar name" ;;
      i <- c_ident c nm ;;
      v <- need (field x "value") "defvar value" ;;
      v' <- c_value n c v ;;
      Ok (IDefvar i v')
  | S_Assert =>
      cn <- need (field x "condition") "assert condition" ;;
      cn' <- c_value n c cn ;;
      m <- need (field x "message") "assert message" ;;
      m' <- c_value n c m ;;
      Ok (IAssert cn' m')
  | S_Dump =>
      v <- need (field x "value") "dump value" ;;
      v' <- c_value n c v ;;
      Ok (IDump v')
  | _ => Err "cast: BodyItem"
  end.

(** fn record_body: the items are translated BEFORE the parent list (order of the format! arguments) *)
Definition c_record_body (n : nat) (c : cx) (rb : lnode) : res (list classref * list item) :=
  pl <- need (field rb "parent_class_list") "parent class list" ;;
  body <- need (field rb "body") "body" ;;
  items <- mapM (c_item n c) (field body "items") ;;
  ps <- c_parents n c pl ;;
  Ok (ps, items).

(** the Include arm of fn stmt: the first link that lies inside the statement *)
Definition link_target (c : cx) (lo hi : N) : option N :=
  match find (fun l => (lo <=? fst (fst l)) && (snd (fst l) <=? hi)) (cx_links c) with
  | Some l => Some (snd l)
  | None => None
  end.

(** fn stmts, fn stmt *)
Fixpoint c_stmts (n : nat) (c : cx) (sl : lnode) {struct n} : res (list stmt) :=
  match n with
  | O => Fuel
  | S n' => mapM (c_stmt n' c) (field sl "statements")
  end
with c_stmt (n : nat) (c : cx) (x : lnode) {struct n} : res stmt :=
  match n with
  | O => Fuel
  | S n' =>
    match l_kind x with
    | S_Include =>
        _ <- need (field x "path") "include path" ;;
        Ok (SInclude (rng_of c x) (link_target c (fst x) (l_end x)))
    | S_Assert =>
        cn <- need (field x "condition") "assert condition" ;;
        cn' <- c_value n' c cn ;;
        m <- need (field x "message") "assert message" ;;
        m' <- c_value n' c m ;;
        Ok (SAssert cn' m')
    | S_Class =>
        nm <- need (field x "name") "class name" ;;
        i <- c_ident c nm ;;
        ta <- c_targs n' c (field x "template_arg_list") ;;
        rb <- need (field x "record_body") "record body" ;;
        b <- c_record_body n' c rb ;;
        Ok (SClass i ta (fst b) (snd b))
    | S_Def =>
        nm <- c_opt_value n' c (field x "name") ;;
        rb <- need (field x "record_body") "record body" ;;
        b <- c_record_body n' c rb ;;
        Ok (SDef nm (rng_of c x) (fst b) (snd b))
    | S_Defm =>
        nm <- c_opt_value n' c (field x "name") ;;
        pl <- need (field x "parent_class_list") "defm parents" ;;
        ps <- c_parents n' c pl ;;
        Ok (SDefm nm (rng_of c x) ps)
    | S_Defset =>
        t <- need (field x "type") "defset type" ;;
        t' <- c_typ n' c t ;;
        nm <- need (field x "name") "defset name" ;;
        i <- c_ident c nm ;;
        sl <- need (field x "statement_list") "defset body" ;;
        b <- c_stmts n' c sl ;;
        Ok (SDefset t' i b)
    | S_Defvar =>
        nm <- need (field x "name") "defvar name" ;;
        i <- c_ident c nm ;;
        v <- need (field x "value") "defvar value" ;;
        v' <- c_value n' c v ;;
        Ok (SDefvar i v')
    | S_Dump =>
        v <- need (field x "value") "dump value" ;;
        v' <- c_value n' c v ;;
        Ok (SDump v')
    | S_Foreach =>
        it <- need (field x "iterator") "foreach iterator" ;;
        ini <- need (field it "init") "foreach init" ;;
        init <- match l_kind ini with
                | S_RangeList | S_RangePiece => Ok FeRange
                | S_Value => v' <- c_value n' c ini ;; Ok (FeValue v')
                | _ => Err "cast: ForeachIteratorInit"
                end ;;
        nm <- need (field it "name") "foreach name" ;;
        i <- c_ident c nm ;;
        sl <- need (field x "body") "foreach body" ;;
        b <- c_stmts n' c sl ;;
        Ok (SForeach i init b)
    | S_If =>
        cn <- need (field x "condition") "if condition" ;;
        cn' <- c_value n' c cn ;;
        th <- need (field x "then_body") "then body" ;;
        th' <- c_stmts n' c th ;;
        el <- opt_with (c_stmts n' c) (field x "else_body") ;;
        Ok (SIf cn' th' el)
    | S_Let =>
        ll <- need (field x "let_list") "let list" ;;
        vs <- mapM (fun it => need (field it "value") "let item value") (field ll "items") ;;
        vs' <- c_values n' c vs ;;
        sl <- need (field x "statement_list") "let body" ;;
        b <- c_stmts n' c sl ;;
        Ok (SLet vs' b)
    | S_MultiClass =>
        nm <- need (field x "name") "multiclass name" ;;
        i <- c_ident c nm ;;
        ta <- c_targs n' c (field x "template_arg_list") ;;
        pl <- need (field x "parent_class_list") "multiclass parents" ;;
        ps <- c_parents n' c pl ;;
        sl <- need (field x "statement_list") "multiclass body" ;;
        b <- c_stmts n' c sl ;;
        Ok (SMulticlass i ta ps b)
    | _ => Err "cast: Statement"
    end
  end.

(** the per-file closure of fn run: SourceFile::cast(root), statement_list, stmts *)
Definition c_file (n : nat) (c : cx) (root : lnode) : res (list stmt) :=
  match l_kind root, snd root with
  | S_SourceFile, Node _ _ =>
      sl <- need (field root "statement_list") "statement list" ;;
      c_stmts n c sl
  | _, _ => Err "missing source file"
  end.

(** THE BRIDGE: the Core AST of one parsed file.  [file] = the file's number in the workspace,
    [links] = its resolved include links (lo, hi, target file number) in document order. *)
Definition core_of_tree (file : N) (links : list (N * N * N)) (t : tree) : res (list stmt) :=
  c_file (S (S (height t))) (mkCx file links) (0, t).

(** as an option (None = "noncore"; never out of fuel: BridgeProofs.core_of_tree_total) *)
Definition core_of_tree_opt (file : N) (links : list (N * N * N)) (t : tree) : option (list stmt) :=
  match core_of_tree file links t with Ok l => Some l | _ => None end.

(** the shape the grammar gives to Identifier nodes (grammar/value.rs fn identifier: start_node(Identifier);
    eat_if(Id); finish_node): empty, or an Id token followed by trivia.  [ident_shape t] is the executable check that
    every Identifier node of [t] is empty or starts with an Id token; model/Pipeline.v evaluates it on every tree
    (a checked hypothesis of BridgeProofs.core_idents_are_id_tokens) *)
Fixpoint ident_shape (t : tree) : bool :=
  match t with
  | Tok k _ => negb (sk_eqb k S_Identifier)          (* Identifier is a node kind, never a token kind *)
  | Node k cs =>
      (if sk_eqb k S_Identifier
       then match cs with [] => true | Tok k' _ :: _ => sk_eqb k' S_Id | Node _ _ :: _ => false end
       else true)
      && (fix go (l : list tree) : bool := match l with [] => true | c :: r => ident_shape c && go r end) cs
  end.
