(** M-gramcomp: the COMPLETENESS checker ("every word of the documented rule is parsed without error").

    Dual of model/GramAbs.v.  A grammar function [f] certified for the documented nonterminal [N] is executed
    symbolically on ALL words of [N] at once: the abstract state holds a set of residual regular expressions (what is
    still to be consumed; partial derivatives of the right-hand side of [N]), what is known about the current token
    (unknown / the word continues with token t / the word is finished and t is the follower), the concrete locals and a
    flag "something was consumed since the function was entered".  A primitive that looks at the current token SPLITS an
    unknown current token over FIRST(residuals) and - when the residual is nullable - FOLLOW(N); a token in both is an
    LL(1) conflict and fails the check.  A call of a function certified for [M] takes the derivative of the residuals by
    the LETTER M (other head nonterminals are unfolded on demand; what is not M-headed must be excluded by the current
    token, or M must be nullable) and demands FIRST(rest) (+ FOLLOW(N) when the rest is nullable) to lie within FOLLOW(M);
    functions that are not certified are executed inline.  Everything that records an error, panics, or returns with a
    non-empty residual fails the check.  Nullable / FIRST tables per nonterminal, FOLLOW sets and ranks (no left
    recursion) are a CERTIFICATE: computed by untrusted code (below, by iteration), validated by [tabs_closed] and by the
    inclusion tests of the abstract execution.  Soundness: proofs/GramCompSound.v. *)
From Coq Require Import List NArith Bool String Arith.
From TG.Gen Require Import GenTokens.
From TG.Model Require Import Chars Lexer Prep Tree ParserPrims GInterp DocGrammar GramAbs TokSem.
Import ListNotations.
Close Scope string_scope.
Close Scope N_scope.
Open Scope nat_scope.
Open Scope list_scope.

(** result of a check step: a value or a diagnostic *)
Inductive cres (A : Type) := COk (a : A) | CErr (msg : string).
Arguments COk {A} a.
Arguments CErr {A} msg.

(** * Nullable / FIRST tables *)
Record tabs := { t_null : list bool; t_first : list (list TokenKind) }.

Fixpoint kset_dedup (l : list TokenKind) : list TokenKind :=
  match l with
  | [] => []
  | x :: r => if kset_mem x r then kset_dedup r else x :: kset_dedup r
  end.
Definition kset_sub (a b : list TokenKind) : bool := forallb (fun k => kset_mem k b) a.

Section Tabs.
  Variable G : grammar.
  Variable T : tabs.
  Definition nt_null (m : nat) : bool := nth m (t_null T) false.
  Definition nt_first (m : nat) : list TokenKind := nth m (t_first T) [].
  Fixpoint rnull (r : rx) : bool :=
    match r with
    | RNone => false
    | REps => true
    | RSym (DTok _) => false
    | RSym (DNT m) => nt_null m
    | RSeq a b => rnull a && rnull b
    | RAlt a b => rnull a || rnull b
    | RStar _ => true
    end.
  Fixpoint rfirst (r : rx) : list TokenKind :=
    match r with
    | RNone | REps => []
    | RSym (DTok ks) => ks
    | RSym (DNT m) => nt_first m
    | RSeq a b => rfirst a ++ (if rnull a then rfirst b else [])
    | RAlt a b => rfirst a ++ rfirst b
    | RStar a => rfirst a
    end.
  (** the tables are closed under the rules (pre-fixpoint): validated, not trusted *)
  Definition tabs_closed : bool :=
    forallb (fun m => match nth_error G m with
                      | Some rhs => implb (rnull rhs) (nt_null m) && kset_sub (rfirst rhs) (nt_first m)
                      | None => true
                      end) (seq 0 (List.length G)).
  (** the nullable table is exact: every nonterminal it declares nullable has the empty word (by evaluation) *)
  Fixpoint rnull_lo (fuel : nat) (r : rx) : bool :=
    match fuel with
    | O => false
    | S n =>
      match r with
      | RNone => false
      | REps => true
      | RSym (DTok _) => false
      | RSym (DNT m) => match nth_error G m with Some rhs => rnull_lo n rhs | None => false end
      | RSeq a b => rnull_lo n a && rnull_lo n b
      | RAlt a b => rnull_lo n a || rnull_lo n b
      | RStar _ => true
      end
    end.
  Definition tabs_null_exact (fuel : nat) : bool :=
    forallb (fun m => implb (nt_null m) (rnull_lo fuel (RSym (DNT m)))) (seq 0 (List.length (t_null T))).
  (** nonterminals in head position *)
  Fixpoint rheads (r : rx) : list nat :=
    match r with
    | RSym (DNT m) => [m]
    | RSeq a b => rheads a ++ (if rnull a then rheads b else [])
    | RAlt a b => rheads a ++ rheads b
    | RStar a => rheads a
    | _ => []
    end.
End Tabs.

(** untrusted computation of the tables, FOLLOW sets and ranks by iteration *)
Definition tab_step (G : grammar) (T : tabs) : tabs :=
  {| t_null := map (fun rhs => rnull T rhs) G; t_first := map (fun rhs => kset_dedup (rfirst T rhs)) G |}.
Fixpoint iter {A : Type} (n : nat) (f : A -> A) (x : A) : A := match n with O => x | S k => iter k f (f x) end.
Definition comp_tabs (G : grammar) : tabs :=
  iter (S (List.length G)) (tab_step G) {| t_null := map (fun _ => false) G; t_first := map (fun _ => []) G |}.

Section Follow.
  Variable G : grammar.
  Variable T : tabs.
  (** contributions (nonterminal, tokens that may follow it) of a right-hand side whose own followers are [A] *)
  Fixpoint fol_contrib (r : rx) (A : list TokenKind) : list (nat * list TokenKind) :=
    match r with
    | RSym (DNT m) => [(m, A)]
    | RSeq a b => fol_contrib a (rfirst T b ++ (if rnull T b then A else [])) ++ fol_contrib b A
    | RAlt a b => fol_contrib a A ++ fol_contrib b A
    | RStar a => fol_contrib a (rfirst T a ++ A)
    | _ => []
    end.
  Definition fol_get (F : list (list TokenKind)) (m : nat) : list TokenKind := nth m F [].
  Definition fol_step (F : list (list TokenKind)) : list (list TokenKind) :=
    let cs := flat_map (fun nr => fol_contrib (snd nr) (fol_get F (fst nr))) (combine (seq 0 (List.length G)) G) in
    map (fun m => kset_dedup (fol_get F m ++ flat_map (fun c => if Nat.eqb (fst c) m then snd c else []) cs))
        (seq 0 (List.length G)).
  Definition comp_follow (init : list (list TokenKind)) : list (list TokenKind) := iter (List.length G) fol_step init.
  Definition rank_step (R : list nat) : list nat :=
    map (fun rhs => S (fold_right Nat.max 0 (map (fun m => nth m R 0) (rheads T rhs)))) G.
  Definition comp_ranks : list nat := iter (List.length G) rank_step (map (fun _ => 0) G).
End Follow.

(** * Derivative by a letter, with the part of the language that is not headed by the letter *)
Inductive letter := LTok (t : TokenKind) | LNT (m : nat).
Record pdres := { d_der : list rx; d_miss : list rx; d_eps : bool }.
Definition pd_nil : pdres := {| d_der := []; d_miss := []; d_eps := false |}.
Definition pd_app (a b : pdres) : pdres :=
  {| d_der := d_der a ++ d_der b; d_miss := d_miss a ++ d_miss b; d_eps := d_eps a || d_eps b |}.
Definition pd_seq (a : pdres) (b : rx) : pdres :=
  {| d_der := map (fun x => mk_seq x b) (d_der a); d_miss := map (fun x => mk_seq x b) (d_miss a); d_eps := false |}.

Section PD.
  Variable G : grammar.
  Variable T : tabs.
  (** when the current token is known to lie in [ts] (or the word to be empty), nothing of [r] is possible if r is not
      nullable and no token of [ts] is in FIRST(r) *)
  Definition kset_disjoint (a b : list TokenKind) : bool := forallb (fun k => negb (kset_mem k b)) a.
  Definition prune (c : option (list TokenKind)) (r : rx) : bool :=
    match c with
    | Some ts => negb (rnull T r) && kset_disjoint ts (rfirst T r)
    | None => false
    end.
  Fixpoint pdl (fuel : nat) (L : letter) (c : option (list TokenKind)) (r : rx) : option pdres :=
    match fuel with
    | O => None
    | S n =>
      if prune c r then Some pd_nil else
      match r with
      | RNone => Some pd_nil
      | REps => Some {| d_der := []; d_miss := []; d_eps := true |}
      | RSym (DTok ks) =>
          (* the letter itself when it is a token of ks; the other tokens of ks (that the constraint allows) are a miss *)
          let hit := match L with LTok t => kset_mem t ks | LNT _ => false end in
          let rest := filter (fun k => negb (match L with LTok t => tk_eqb k t | LNT _ => false end) &&
                                       match c with Some ts => kset_mem k ts | None => true end) ks in
          Some {| d_der := if hit then [REps] else [];
                  d_miss := match rest with [] => [] | _ => [RSym (DTok rest)] end;
                  d_eps := false |}
      | RSym (DNT m) =>
          if (match L with LNT m' => Nat.eqb m m' | LTok _ => false end)
          then Some {| d_der := [REps]; d_miss := []; d_eps := false |}
          else match nth_error G m with
               | Some rhs => pdl n L c rhs
               | None => Some pd_nil
               end
      | RSeq a b =>
          match pdl n L c a with
          | None => None
          | Some ra =>
              if d_eps ra
              then match pdl n L c b with None => None | Some rb => Some (pd_app (pd_seq ra b) rb) end
              else Some (pd_seq ra b)
          end
      | RAlt a b =>
          match pdl n L c a, pdl n L c b with
          | Some ra, Some rb => Some (pd_app ra rb)
          | _, _ => None
          end
      | RStar a =>
          match pdl n L c a with
          | None => None
          | Some ra => Some {| d_der := d_der (pd_seq ra r); d_miss := d_miss (pd_seq ra r); d_eps := true |}
          end
      end
    end.
  Fixpoint pd_all (fuel : nat) (L : letter) (c : option (list TokenKind)) (rs : list rx) : option pdres :=
    match rs with
    | [] => Some pd_nil
    | r :: rest => match pdl fuel L c r, pd_all fuel L c rest with
                   | Some a, Some b => Some (pd_app a b)
                   | _, _ => None
                   end
    end.
End PD.

(** * Abstract states *)
(** what is known about the current token: nothing, or: either the word continues with a token of [cont], or the word is
    finished and the follower is a token of [fin] *)
Inductive cur := CUnk | CSet (cont fin : list TokenKind).
Record cst := { s_cur : cur; s_r : list rx; s_env : env; s_mv : bool (* consumed since function entry *); s_lp : bool (* consumed since the start of the innermost loop iteration *) }.

Definition val_eqb (a b : val) : bool :=
  match a, b with
  | VB x, VB y => Bool.eqb x y
  | VN x, VN y => Nat.eqb x y
  | _, _ => false
  end.
Fixpoint venv_eqb (a b : env) : bool :=
  match a, b with
  | [], [] => true
  | x :: a', y :: b' => val_eqb x y && venv_eqb a' b'
  | _, _ => false
  end.
Definition cur_eqb (a b : cur) : bool :=
  match a, b with
  | CUnk, CUnk => true
  | CSet c1 f1, CSet c2 f2 => kinds_eqb c1 c2 && kinds_eqb f1 f2
  | _, _ => false
  end.
Definition cst_eqb (a b : cst) : bool :=
  cur_eqb (s_cur a) (s_cur b) && rxset_sub (s_r a) (s_r b) && rxset_sub (s_r b) (s_r a) &&
  venv_eqb (s_env a) (s_env b) && Bool.eqb (s_mv a) (s_mv b) && Bool.eqb (s_lp a) (s_lp b).
Definition dedup_cst (l : list cst) : list cst :=
  fold_right (fun x acc => if existsb (cst_eqb x) acc then acc else x :: acc) [] l.
Definition subset_cst (a b : list cst) : bool := forallb (fun x => existsb (cst_eqb x) b) a.
Definition vcst_eqb (x y : val * cst) : bool := val_eqb (fst x) (fst y) && cst_eqb (snd x) (snd y).
Definition dedup_vcst (l : list (val * cst)) : list (val * cst) :=
  fold_right (fun x acc => if existsb (vcst_eqb x) acc then acc else x :: acc) [] l.

Record couts := { k_norm : list (val * cst); k_brk : list cst; k_ret : list (val * cst) }.
Definition couts_nil : couts := {| k_norm := []; k_brk := []; k_ret := [] |}.
Definition couts_app (a b : couts) : couts :=
  {| k_norm := k_norm a ++ k_norm b; k_brk := k_brk a ++ k_brk b; k_ret := k_ret a ++ k_ret b |}.
Definition couts_dedup (a : couts) : couts :=
  {| k_norm := dedup_vcst (k_norm a); k_brk := dedup_cst (k_brk a); k_ret := dedup_vcst (k_ret a) |}.

(** the certificate *)
Record ccert := { cc_mode : nat -> option nat;           (* grammar function -> the nonterminal it is certified for *)
                  cc_fol : nat -> list TokenKind;        (* nonterminal -> admissible followers *)
                  cc_inl : nat -> bool;                  (* certified, but calls of it are executed inline *)
                  cc_rank : nat -> nat;                  (* nonterminal -> rank (decreases along calls at the same position) *)
                  cc_tabs : tabs;
                  cc_dfuel : nat;                        (* fuel of the derivative (unfolding depth) *)
                  cc_rounds : nat }.                     (* loop saturation rounds *)

Fixpoint map_res {A B : Type} (f : A -> cres B) (l : list A) : cres (list B) :=
  match l with
  | [] => COk []
  | x :: r => match f x, map_res f r with
              | COk y, COk ys => COk (y :: ys)
              | CErr m, _ => CErr m
              | _, CErr m => CErr m
              end
  end.

Section Comp.
  Variable G : grammar.
  Variable p : prog.
  Variable C : ccert.
  Variable N : nat.                     (* the nonterminal of the function being checked *)
  Notation T := (cc_tabs C).
  Notation F := (cc_fol C N).

  Definition rs_null (rs : list rx) : bool := existsb (rnull T) rs.
  Definition rs_first (rs : list rx) : list TokenKind := flat_map (rfirst T) rs.

  Definition with_cur (s : cst) (c : cur) : cst := {| s_cur := c; s_r := s_r s; s_env := s_env s; s_mv := s_mv s; s_lp := s_lp s |}.
  Definition with_env (s : cst) (en : env) : cst := {| s_cur := s_cur s; s_r := s_r s; s_env := en; s_mv := s_mv s; s_lp := s_lp s |}.
  Definition with_lp (s : cst) (b : bool) : cst := {| s_cur := s_cur s; s_r := s_r s; s_env := s_env s; s_mv := s_mv s; s_lp := b |}.

  (** make the current token known: FIRST of the residuals, and FOLLOW(N) when the residuals are nullable *)
  Definition known (s : cst) : cst :=
    match s_cur s with
    | CUnk => with_cur s (CSet (kset_dedup (rs_first (s_r s))) (if rs_null (s_r s) then F else []))
    | CSet _ _ => s
    end.
  (** the part of a state with a known current token in which the token satisfies [q]; None: impossible *)
  Definition restrict (s : cst) (q : TokenKind -> bool) : option cst :=
    match s_cur s with
    | CUnk => None
    | CSet cont fin =>
        match filter q cont, filter q fin with
        | [], [] => None
        | [], fin' => Some {| s_cur := CSet [] fin'; s_r := [REps]; s_env := s_env s; s_mv := s_mv s; s_lp := s_lp s |}
        | cont', fin' => Some (with_cur s (CSet cont' fin'))
        end
    end.

  (** eat the current token (every token of [cont]; the word is known not to be finished) *)
  Fixpoint eat_ders (ts : list TokenKind) (rs : list rx) : cres (list rx) :=
    match ts with
    | [] => COk []
    | t :: rest =>
        if tk_eqb t T_Error then CErr "eat: Error token" else
        match pd_all G T (cc_dfuel C) (LTok t) (Some [t]) rs, eat_ders rest rs with
        | None, _ => CErr "eat: derivative fuel"
        | _, CErr m => CErr m
        | Some d, COk l => match d_miss d with [] => COk (d_der d ++ l) | _ => CErr "eat: internal (miss)" end
        end
    end.
  Definition eat (s : cst) : cres (val * cst) :=
    match s_cur s with
    | CSet cont [] =>
        match eat_ders cont (s_r s) with
        | CErr m => CErr m
        | COk [] => CErr "eat: the documented rule allows no token here"
        | COk rs => COk (VB true, {| s_cur := CUnk; s_r := dedup_rx rs; s_env := s_env s; s_mv := true; s_lp := true |})
        end
    | CSet _ (_ :: _) => CErr "eat: the follower token would be consumed"
    | CUnk => CErr "eat: internal (unknown current token)"
    end.

  Definition opt_list {A : Type} (o : option A) : list A := match o with Some x => [x] | None => [] end.
  Definition on_known (s : cst) (f : cst -> cres (list (val * cst))) : cres (list (val * cst)) := f (known s).
  (** eat the token when it satisfies [q]; otherwise [other] *)
  Definition eat_when (st : cst) (q : TokenKind -> bool) (other : option cst -> cres (list (val * cst))) : cres (list (val * cst)) :=
    match (match restrict st q with Some sy => match eat sy with COk r => COk [r] | CErr m => CErr m end | None => COk [] end),
          other (restrict st (fun t => negb (q t))) with
    | COk a, COk b => COk (a ++ b)
    | CErr m, _ => CErr m
    | _, CErr m => CErr m
    end.

  Definition cprim (pr : prim) (s : cst) : cres (list (val * cst)) :=
    match pr with
    | PStartNode _ | PFinishNode | PSkip => COk [(VB true, s)]
    | PCheckpoint => COk [(VN 0, s)]
    | PStartNodeAt x _ => match env_get (s_env s) x with Some (VN _) => COk [(VB true, s)] | _ => CErr "start_node_at: no checkpoint" end
    | PAssert k => on_known s (fun st => eat_when st (fun t => tk_eqb t k)
                      (fun o => match o with None => COk [] | Some _ => CErr "assert would panic" end))
    | PExpect k _ => on_known s (fun st => eat_when st (fun t => tk_eqb t k)
                      (fun o => match o with None => COk [] | Some _ => CErr "expect would record an error" end))
    | PEat => on_known s (fun st => match eat st with COk r => COk [r] | CErr m => CErr m end)
    | PEatIf k => on_known s (fun st => eat_when st (fun t => tk_eqb t k)
                      (fun o => COk (map (fun x => (VB false, x)) (opt_list o))))
    | PError _ | PErrorAndEat _ | PErrorAndRecover _ => CErr "an error-recording primitive is reachable"
    | PAtSet ks => on_known s (fun st =>
                      COk (map (fun x => (VB true, x)) (opt_list (restrict st (fun t => existsb (tk_eqb t) ks))) ++
                           map (fun x => (VB false, x)) (opt_list (restrict st (fun t => negb (existsb (tk_eqb t) ks))))))
    end.

  (** call of a function certified for the nonterminal [M] *)
  Definition call_nt (M : nat) (s : cst) : cres (val * cst) :=
    let c := match s_cur s with CSet cont _ => Some cont | CUnk => None end in
    match pd_all G T (cc_dfuel C) (LNT M) c (s_r s) with
    | None => CErr "call: derivative fuel"
    | Some d =>
        let mnull := nt_null T M in
        let known_nonempty := match s_cur s with CSet _ [] => true | _ => false end in
        let known_empty := match s_cur s with CSet [] _ => true | _ => false end in
        if negb mnull && (match d_miss d with [] => false | _ => true end)
        then CErr "call: part of the residual is not headed by the callee's nonterminal"
        else if negb mnull && d_eps d && negb known_nonempty
        then CErr "call: the residual may be empty but the callee's nonterminal is not nullable"
        else
          let rs := dedup_rx (d_der d ++ (if mnull then d_miss d ++ (if d_eps d then [REps] else []) else [])) in
          let Fk := match s_cur s with CSet [] fin => fin | _ => F end in
          let fol_ok := forallb (fun r => kset_sub (rfirst T r) (cc_fol C M) && (negb (rnull T r) || kset_sub Fk (cc_fol C M))) rs in
          if negb fol_ok then CErr "call: FIRST of what follows the callee (or FOLLOW of the caller) is not within the callee's FOLLOW"
          else if negb (s_mv s) && negb (Nat.ltb (cc_rank C M) (cc_rank C N)) then CErr "call: rank does not decrease (left recursion?)"
          else match rs with
               | [] => CErr "call: the documented rule allows no such nonterminal here"
               | _ => COk (VB true, {| s_cur := if known_empty then s_cur s else CUnk;
                                       s_r := rs; s_env := s_env s; s_mv := s_mv s || negb mnull; s_lp := s_lp s || negb mnull |})
               end
    end.

  Definition run_all (f : cst -> cres couts) (l : list cst) : cres couts :=
    fold_right (fun st acc => match f st, acc with
                              | COk o, COk o' => COk (couts_app o o')
                              | CErr m, _ => CErr m
                              | _, CErr m => CErr m
                              end) (COk couts_nil) l.
  Definition bind_norm (o : couts) (k : val -> cst -> cres couts) : cres couts :=
    fold_right (fun vs acc => match k (fst vs) (snd vs), acc with
                              | COk o1, COk o2 => COk (couts_app o1 o2)
                              | CErr m, _ => CErr m
                              | _, CErr m => CErr m
                              end)
               (COk {| k_norm := []; k_brk := k_brk o; k_ret := k_ret o |}) (k_norm o).

  (** one round of a loop from the head states [I]; every iteration that continues must have consumed something *)
  Definition wround (exc exb : cst -> cres couts) (I : list cst) : cres (couts * list cst) :=
    fold_right
      (fun h acc =>
         match acc with
         | CErr m => CErr m
         | COk (res, next) =>
           match exc (with_lp h false) with
           | CErr m => CErr m
           | COk oc =>
             match k_brk oc with
             | _ :: _ => CErr "break inside a loop condition"
             | [] =>
               match bind_norm {| k_norm := filter (fun vs => match fst vs with VB true => true | _ => false end) (k_norm oc);
                                  k_brk := []; k_ret := [] |} (fun _ st1 => exb st1) with
               | CErr m => CErr m
               | COk ob =>
                 if existsb (fun vs => match fst vs with VB _ => false | VN _ => true end) (k_norm oc)
                 then CErr "loop condition is not a boolean"
                 else if negb (forallb (fun vs => s_lp (snd vs)) (k_norm ob))
                 then CErr "a loop iteration may continue without consuming anything"
                 else
                   let fix_mv (st : cst) := with_lp st (s_lp h || s_lp st) in
                   let exits := map (fun vs => fix_mv (snd vs)) (filter (fun vs => match fst vs with VB false => true | _ => false end) (k_norm oc))
                                ++ map fix_mv (k_brk ob) in
                   COk ({| k_norm := map (fun st => (VB true, st)) exits ++ k_norm res; k_brk := [];
                           k_ret := map (fun vs => (fst vs, fix_mv (snd vs))) (k_ret oc ++ k_ret ob) ++ k_ret res |},
                        map (fun vs => snd vs) (k_norm ob) ++ next)
               end
             end
           end
         end) (COk (couts_nil, [])) I.
  Fixpoint witer (exc exb : cst -> cres couts) (k : nat) (I : list cst) : cres couts :=
    match k with
    | O => CErr "loop: no inductive set of head states within the round limit"
    | S k' =>
        match wround exc exb I with
        | CErr m => CErr m
        | COk (res, next) =>
            let next' := dedup_cst next in
            if subset_cst next' I then COk (couts_dedup res) else witer exc exb k' (dedup_cst (I ++ next'))
        end
    end.

  (** inline execution of a callee's body *)
  Definition cback (s : cst) (arg : option (nat * bool)) (vs : val * cst) : cres (val * cst) :=
    match arg with
    | Some (x, true) => match env_get (s_env (snd vs)) 0 with
                        | Some w => COk (fst vs, with_env (snd vs) (env_set (s_env s) x w))
                        | None => CErr "call: by-reference argument lost"
                        end
    | _ => COk (fst vs, with_env (snd vs) (s_env s))
    end.
  Definition cinline (rec : expr -> cst -> cres couts) (f : nat) (arg : option (nat * bool)) (s : cst) : cres couts :=
    match fn_body p f with
    | None => CErr "call: no such function"
    | Some body =>
        match (match arg with
               | Some (x, _) => match env_get (s_env s) x with Some v => Some [v] | None => None end
               | None => Some []
               end) with
        | None => CErr "call: unset argument"
        | Some cen0 =>
            match rec body (with_env s cen0) with
            | CErr m => CErr m
            | COk o =>
                match k_brk o with
                | _ :: _ => CErr "break leaves a function"
                | [] =>
                    match map_res (cback s arg) (k_norm o ++ k_ret o) with
                    | CErr m => CErr m
                    | COk l => COk {| k_norm := l; k_brk := []; k_ret := [] |}
                    end
                end
            end
        end
    end.
  Definition cdedup (r : cres couts) : cres couts := match r with COk o => COk (couts_dedup o) | CErr m => CErr m end.
  Fixpoint cexec (fuel : nat) (e : expr) (s : cst) : cres couts :=
    match fuel with
    | O => CErr "abstract execution: out of fuel"
    | S n =>
      cdedup
      match e with
      | EB b => COk {| k_norm := [(VB b, s)]; k_brk := []; k_ret := [] |}
      | EVar x => match env_get (s_env s) x with
                  | Some v => COk {| k_norm := [(v, s)]; k_brk := []; k_ret := [] |}
                  | None => CErr "unset local"
                  end
      | ENot a =>
          match cexec n a s with
          | CErr m => CErr m
          | COk o =>
              if existsb (fun vs => match fst vs with VB _ => false | VN _ => true end) (k_norm o) then CErr "not: not a boolean"
              else COk {| k_norm := map (fun vs => (match fst vs with VB b => VB (negb b) | v => v end, snd vs)) (k_norm o);
                          k_brk := k_brk o; k_ret := k_ret o |}
          end
      | EPrim pr =>
          match cprim pr s with
          | CErr m => CErr m
          | COk l => COk {| k_norm := dedup_vcst l; k_brk := []; k_ret := [] |}
          end
      | ECall f arg =>
          match (if cc_inl C f then None else cc_mode C f), arg with
          | Some M, None =>
              (* the summary of the certified callee when it applies, otherwise its body *)
              match (match fn_body p f with Some _ => call_nt M s | None => CErr "call: no such function" end) with
              | COk vs => COk {| k_norm := [vs]; k_brk := []; k_ret := [] |}
              | CErr _ => cinline (cexec n) f arg s
              end
          | _, _ => cinline (cexec n) f arg s
          end
      | ESeq a b =>
          match cexec n a s with
          | CErr m => CErr m
          | COk o => bind_norm o (fun _ st1 => cexec n b st1)
          end
      | EIf c a b =>
          match cexec n c s with
          | CErr m => CErr m
          | COk o => bind_norm o (fun v st1 =>
                       match v with
                       | VB true => cexec n a st1
                       | VB false => cexec n b st1
                       | VN _ => CErr "if: not a boolean"
                       end)
          end
      | EWhile c b => witer (cexec n c) (cexec n b) (cc_rounds C) [s]
      | EBreak => COk {| k_norm := []; k_brk := [s]; k_ret := [] |}
      | EReturn a =>
          match cexec n a s with
          | CErr m => CErr m
          | COk o => COk {| k_norm := []; k_brk := k_brk o; k_ret := k_norm o ++ k_ret o |}
          end
      | ESet x a =>
          match cexec n a s with
          | CErr m => CErr m
          | COk o => COk {| k_norm := map (fun vs => (VB true, with_env (snd vs) (env_set (s_env (snd vs)) x (fst vs)))) (k_norm o);
                            k_brk := k_brk o; k_ret := k_ret o |}
          end
      end
    end.

  (** at the exit of the function: returned true and nothing of the word is left *)
  Definition is_eps (r : rx) : bool := rx_eqb r REps.
  Definition exit_ok (vs : val * cst) : bool :=
    (match fst vs with VB true => true | _ => false end) &&
    (match s_cur (snd vs) with CSet [] _ => true | _ => forallb is_eps (s_r (snd vs)) end).
  Definition init_cst (rhs : rx) : cst := {| s_cur := CUnk; s_r := [rhs]; s_env := []; s_mv := false; s_lp := false |}.
End Comp.

Definition check_cfn (G : grammar) (p : prog) (C : ccert) (fuel : nat) (f : nat) : cres unit :=
  match cc_mode C f with
  | None => COk tt
  | Some M =>
      match fn_body p f, nth_error G M with
      | Some body, Some rhs =>
          match cexec G p C M fuel body (init_cst rhs) with
          | CErr m => CErr m
          | COk o =>
              match k_brk o with
              | _ :: _ => CErr "break leaves the function"
              | [] => if forallb exit_ok (k_norm o ++ k_ret o) then COk tt
                      else CErr "exit: the function may return false or leave part of the word unconsumed"
              end
          end
      | _, _ => CErr "certificate: no such function or nonterminal"
      end
  end.
Definition cres_ok {A : Type} (r : cres A) : bool := match r with COk _ => true | CErr _ => false end.
Definition check_complete (G : grammar) (p : prog) (C : ccert) (fuel : nat) : bool :=
  tabs_closed G (cc_tabs C) && tabs_null_exact G (cc_tabs C) (cc_dfuel C) && forallb (fun f => cres_ok (check_cfn G p C fuel f)) (seq 0 (List.length (fns p))).

(** the grammar in which the rules of the nonterminals [bl] are emptied (no words) *)
Definition blank (bl : list nat) (G : grammar) : grammar :=
  map (fun nr => if existsb (Nat.eqb (fst nr)) bl then RNone else snd nr) (combine (seq 0 (List.length G)) G).

(** * Sub-grammars: a grammar G2 (modified / additional rules) whose words are words of G under a renaming of nonterminals *)
Section Incl.
  Variable G : grammar.
  (** a structural, incomplete but sound inclusion test  L_G(a) <= L_G(b) *)
  Fixpoint rx_incl (fuel : nat) (a b : rx) : bool :=
    match fuel with
    | O => false
    | S n =>
      if rx_eqb a b then true else
      match a with
      | RNone => true
      | RAlt a1 a2 => rx_incl n a1 b && rx_incl n a2 b
      | _ =>
        match b with
        | RAlt b1 b2 => rx_incl n a b1 || rx_incl n a b2
        | RSym (DNT m) => match nth_error G m with Some rhs => rx_incl n a rhs | None => false end
        | RSeq b1 b2 =>
            (match a with RSeq a1 a2 => rx_incl n a1 b1 && rx_incl n a2 b2 | _ => false end) ||
            (rx_incl n a b1 && rnull_lo G n b2)
        | RStar b1 => match a with RStar a1 => rx_incl n a1 b1 | REps => true | _ => false end
        | RSym (DTok ks2) => match a with RSym (DTok ks1) => kset_sub ks1 ks2 | _ => false end
        | _ => false
        end
      end
    end.
End Incl.
Fixpoint rx_map (phi : nat -> nat) (r : rx) : rx :=
  match r with
  | RSym (DNT m) => RSym (DNT (phi m))
  | RSeq a b => RSeq (rx_map phi a) (rx_map phi b)
  | RAlt a b => RAlt (rx_map phi a) (rx_map phi b)
  | RStar a => RStar (rx_map phi a)
  | r => r
  end.
Definition sub_grammar_ok (G G2 : grammar) (phi : nat -> nat) (fuel : nat) : bool :=
  forallb (fun n => match nth_error G2 n with
                    | Some r2 => rx_incl G fuel (rx_map phi r2) (match nth_error G (phi n) with Some r => r | None => RNone end)
                    | None => true
                    end) (seq 0 (List.length G2)).
