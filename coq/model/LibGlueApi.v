(** LibGlueApi: the hand-written part of the embedding in which tools/translate/t_libglue.py renders the glue of
    crates/syntax/src/lib.rs (coq/gen/GenLibGlue.v, regenerated on every run).  Defined here ONCE (trusted / modelled):
    rowan's SyntaxNode::new_root (a located tree: absolute start offset 0 + green tree), AstNode::cast as the `ast!`
    macro of ast.rs defines it, `as u16` / transmute between SyntaxKind and rowan::SyntaxKind(u16), and the panic monad.
    Kept apart from RowanApi.v so that the C01 / C02 cone does not depend on the bridge's AstToCore.v. *)
From Coq Require Import List NArith Bool.
From TG.Gen Require Import GenTokens.
From TG.Model Require Import Chars Tree.
Import ListNotations.

(** a SyntaxNode: absolute start offset + subtree (the same type as AstToCore.lnode) *)
Definition lib_node : Type := (N * tree)%type.
(** computations that may panic: None = panic *)
Definition lm (A : Type) : Type := option A.
Definition lm_panic {A} : lm A := None.

Definition rw_new_root (green : tree) : lib_node := (0%N, green).
(** `ast!`: cast succeeds iff the node kind is the struct's kind *)
Definition ast_cast (k : SyntaxKind) (x : lib_node) : option lib_node := if sk_eqb (kind_of (snd x)) k then Some x else None.
(** `SyntaxKind::__LAST as u16` = number of proper kinds (t_tokens checks that __LAST is the last variant) *)
Definition sk_last : nat := List.length all_syntax_kinds.
(** `kind as u16` *)
Definition sk_as_u16 (k : SyntaxKind) : nat := N.to_nat (sk_index k).
(** `unsafe { transmute::<u16, SyntaxKind>(raw) }`: defined only below __LAST (guarded by the assert!) *)
Definition sk_transmute (raw : nat) : option SyntaxKind := nth_error all_syntax_kinds raw.
