(** Scope: state of the indexer (crates/ide/src/index/context.rs IndexCtx, index/scope.rs Scopes,
    and the part of symbol_map*.rs the indexer and the three queries goto_definition / references /
    diagnostics use), with the primitive operations on it.  Executable definitions only.

    Modelling decisions (observationally equal for the queries of C05/C13, see design/notes-C05.md):
    - the seven id_arena arenas are three append-only lists: records (classes and defs), multiclasses,
      and "leaves" (template arguments, record fields, variables, defsets, defms: name, type, flag, define_loc);
      an id is the position in its list;
    - HashMap<name, id> = association list, insert = cons, lookup = first match (insert replaces);
      IndexMap<name, id> = ordered association list, re-insert keeps the position and replaces the value;
    - pos_to_symbol_map (iset::IntervalMap per file) = insertion log, newest first; find_symbol_at picks
      among the logged intervals that contain the position the smallest in (start, end) order and, for equal
      intervals, the newest (insert replaces on an equal interval; values_overlap iterates in interval order);
    - reference_locs of all symbols = one global log (symbol, range), newest first; the list of one symbol
      is the log filtered by that symbol, oldest first;
    - file_to_symbol_list (outline) is not modelled. *)
From Coq Require Import List NArith Bool.
From TG.Model Require Import CoreAst.
Import ListNotations.
Open Scope N_scope.

(** symbol_map/typ.rs Type *)
Inductive mty : Type :=
| MBit | MInt | MString | MCode | MDag
| MBits (n : N)
| MList (t : mty)
| MRecord (id : N) (nm : name)
| MUninit | MUnknown | MAny.

Fixpoint mty_eqb (a b : mty) : bool :=
  match a, b with
  | MBit, MBit | MInt, MInt | MString, MString | MCode, MCode | MDag, MDag
  | MUninit, MUninit | MUnknown, MUnknown | MAny, MAny => true
  | MBits n, MBits m => n =? m
  | MList x, MList y => mty_eqb x y
  | MRecord i n, MRecord j m => (i =? j) && name_eqb n m
  | _, _ => false
  end.

Inductive symid : Type := SyRecord (i : N) | SyMc (i : N) | SyLeaf (i : N).
Definition symid_eqb (a b : symid) : bool :=
  match a, b with
  | SyRecord i, SyRecord j | SyMc i, SyMc j | SyLeaf i, SyLeaf j => i =? j
  | _, _ => false
  end.

Inductive leafkind : Set := LTArg | LField | LVar | LDefset | LDefm.

Record leaf : Type := mkLeaf {
  lf_kind : leafkind; lf_name : name; lf_ty : mty; lf_default : bool; lf_loc : rng }.

Record recd : Type := mkRec {
  rc_name : name; rc_class : bool;
  rc_targs : list (name * N);           (* IndexMap name -> leaf id *)
  rc_fields : list (name * N);          (* IndexMap name -> leaf id *)
  rc_parents : list N;
  rc_loc : rng }.

Record mcd : Type := mkMc {
  mc_name : name; mc_targs : list (name * N); mc_parents : list N; mc_loc : rng }.

Inductive skind : Type :=
| KRoot | KBlock | KRecord (id : N) | KForeach (nm : name) (var : N) | KDefset (id : N)
| KMulticlass (id : N) | KDefm (id : N) | KXFilter | KXFoldl | KXForeach.

Record scope : Type := mkScope { sc_kind : skind; sc_vars : list (name * N) }.

(** message classes of the diagnostics (the harness maps message texts to these) *)
Inductive dkind : Set :=
| DClassNotFound | DMulticlassNotFound | DSymbolNotFound | DIncludeNotFound | DSelfInherit
| DTooManyArgs | DArgOnce | DArgNotExist | DArgType | DArgMissing | DNamedArgBad
| DFieldIncompat | DCannotAccessField | DExpectAnnot | DUnexpectAnnot | DArity | DOperand | DSyntax.

Record st : Type := mkSt {
  s_trace : list N;                      (* file_trace, innermost first *)
  s_indexed : list N;                    (* indexed_files *)
  s_recs : list recd; s_mcs : list mcd; s_leaves : list leaf;
  s_nclass : list (name * N); s_ndef : list (name * N); s_nmc : list (name * N);
  s_ndset : list (name * N);             (* name_to_defset (leaf ids) *)
  s_pos : list (rng * symid);            (* newest first *)
  s_refs : list (symid * rng);           (* newest first *)
  s_uses : list (rng * option rng);      (* GHOST (not in the Rust state): for every add_reference, newest first,
                                            the reference range and the define_loc of the symbol at that moment *)
  s_diags : list (rng * dkind);          (* newest first *)
  s_scopes : list scope;                 (* innermost first *)
  s_anon : N;
  s_bad : bool                           (* a Rust panic (expect/unwrap on an empty stack) or fuel exhaustion *)
}.

Definition st0 : st :=
  mkSt [0] [0] [] [] [] [] [] [] [] [] [] [] [] [mkScope KRoot []] 0 false.

(** ---------------------------------------------------------------------------------------------
    the Option-returning, state-passing style of `fn index(&self, ctx: &mut IndexCtx) -> Option<T>` *)
Definition M (A : Type) : Type := st -> option A * st.
Definition ret {A} (x : A) : M A := fun s => (Some x, s).
Definition none {A} : M A := fun s => (None, s).
(** [bind m f]: the `?` operator: a None result of [m] returns None immediately *)
Definition bind {A B} (m : M A) (f : A -> M B) : M B :=
  fun s => match m s with (Some x, s') => f x s' | (None, s') => (None, s') end.
(** [seq m k]: run [m], ignore its Option result (a statement `m;`), continue *)
Definition seq {A B} (m : M A) (k : M B) : M B := fun s => k (snd (m s)).
(** [try_ m]: run [m] and deliver its Option result as a value (`let x = m;` without `?`) *)
Definition try_ {A} (m : M A) : M (option A) := fun s => let '(o, s') := m s in (Some o, s').
Definition lift {A} (o : option A) : M A := fun s => (o, s).
Definition get {A} (f : st -> A) : M A := fun s => (Some (f s), s).
Definition upd (f : st -> st) : M unit := fun s => (Some tt, f s).
Definition bad {A} : M A :=
  fun s => (None, mkSt (s_trace s) (s_indexed s) (s_recs s) (s_mcs s) (s_leaves s) (s_nclass s) (s_ndef s)
                       (s_nmc s) (s_ndset s) (s_pos s) (s_refs s) (s_uses s) (s_diags s) (s_scopes s) (s_anon s) true).

Declare Scope ix_scope.
Delimit Scope ix_scope with ix.
Notation "x <- c1 ;; c2" := (bind c1 (fun x => c2)) (at level 61, c1 at next level, right associativity) : ix_scope.
Notation "' pat <- c1 ;; c2" := (bind c1 (fun x => match x with pat => c2 end))
  (at level 61, pat pattern, c1 at next level, right associativity) : ix_scope.
Notation "e1 ;; e2" := (seq e1 e2) (at level 61, right associativity) : ix_scope.
Open Scope ix_scope.

Fixpoint iterM {A B} (f : A -> M B) (l : list A) : M unit :=
  match l with [] => ret tt | x :: r => f x ;; iterM f r end.
(** `.map(|v| v.index(ctx)).collect::<Vec<Option<_>>>()` *)
Fixpoint mapM_opt {A B} (f : A -> M B) (l : list A) : M (list (option B)) :=
  match l with
  | [] => ret []
  | x :: r => o <- try_ (f x) ;; os <- mapM_opt f r ;; ret (o :: os)
  end.

(** ---------------------------------------------------------------------------------------------
    association lists *)
Fixpoint alookup {V} (k : name) (l : list (name * V)) : option V :=
  match l with [] => None | (k', v) :: r => if name_eqb k k' then Some v else alookup k r end.
(** IndexMap::insert: an existing key keeps its position and gets the new value *)
Fixpoint imap_insert {V} (k : name) (v : V) (l : list (name * V)) : list (name * V) :=
  match l with
  | [] => [(k, v)]
  | (k', v') :: r => if name_eqb k k' then (k', v) :: r else (k', v') :: imap_insert k v r
  end.
Fixpoint set_nth {A} (n : nat) (f : A -> A) (l : list A) : list A :=
  match l, n with
  | [], _ => []
  | x :: r, O => f x :: r
  | x :: r, S n' => x :: set_nth n' f r
  end.
Definition nthN {A} (l : list A) (i : N) : option A := nth_error l (N.to_nat i).
Definition lenN {A} (l : list A) : N := N.of_nat (length l).

(** ---------------------------------------------------------------------------------------------
    state updates (one setter per field group; every other field is copied) *)
Definition set_files (tr ix : list N) (s : st) : st :=
  mkSt tr ix (s_recs s) (s_mcs s) (s_leaves s) (s_nclass s) (s_ndef s) (s_nmc s) (s_ndset s) (s_pos s) (s_refs s) (s_uses s)
       (s_diags s) (s_scopes s) (s_anon s) (s_bad s).
Definition set_recs (r : list recd) (s : st) : st :=
  mkSt (s_trace s) (s_indexed s) r (s_mcs s) (s_leaves s) (s_nclass s) (s_ndef s) (s_nmc s) (s_ndset s) (s_pos s) (s_refs s) (s_uses s)
       (s_diags s) (s_scopes s) (s_anon s) (s_bad s).
Definition set_mcs (m : list mcd) (s : st) : st :=
  mkSt (s_trace s) (s_indexed s) (s_recs s) m (s_leaves s) (s_nclass s) (s_ndef s) (s_nmc s) (s_ndset s) (s_pos s) (s_refs s) (s_uses s)
       (s_diags s) (s_scopes s) (s_anon s) (s_bad s).
Definition set_leaves (l : list leaf) (s : st) : st :=
  mkSt (s_trace s) (s_indexed s) (s_recs s) (s_mcs s) l (s_nclass s) (s_ndef s) (s_nmc s) (s_ndset s) (s_pos s) (s_refs s) (s_uses s)
       (s_diags s) (s_scopes s) (s_anon s) (s_bad s).
Definition set_names (c d m : list (name * N)) (s : st) : st :=
  mkSt (s_trace s) (s_indexed s) (s_recs s) (s_mcs s) (s_leaves s) c d m (s_ndset s) (s_pos s) (s_refs s) (s_uses s)
       (s_diags s) (s_scopes s) (s_anon s) (s_bad s).
Definition set_ndset (d : list (name * N)) (s : st) : st :=
  mkSt (s_trace s) (s_indexed s) (s_recs s) (s_mcs s) (s_leaves s) (s_nclass s) (s_ndef s) (s_nmc s) d (s_pos s)
       (s_refs s) (s_uses s) (s_diags s) (s_scopes s) (s_anon s) (s_bad s).
Definition set_pos (p : list (rng * symid)) (s : st) : st :=
  mkSt (s_trace s) (s_indexed s) (s_recs s) (s_mcs s) (s_leaves s) (s_nclass s) (s_ndef s) (s_nmc s) (s_ndset s) p (s_refs s) (s_uses s)
       (s_diags s) (s_scopes s) (s_anon s) (s_bad s).
Definition set_refs (r : list (symid * rng)) (s : st) : st :=
  mkSt (s_trace s) (s_indexed s) (s_recs s) (s_mcs s) (s_leaves s) (s_nclass s) (s_ndef s) (s_nmc s) (s_ndset s) (s_pos s) r (s_uses s)
       (s_diags s) (s_scopes s) (s_anon s) (s_bad s).
Definition set_uses (u : list (rng * option rng)) (s : st) : st :=
  mkSt (s_trace s) (s_indexed s) (s_recs s) (s_mcs s) (s_leaves s) (s_nclass s) (s_ndef s) (s_nmc s) (s_ndset s) (s_pos s)
       (s_refs s) u (s_diags s) (s_scopes s) (s_anon s) (s_bad s).
Definition set_diags (d : list (rng * dkind)) (s : st) : st :=
  mkSt (s_trace s) (s_indexed s) (s_recs s) (s_mcs s) (s_leaves s) (s_nclass s) (s_ndef s) (s_nmc s) (s_ndset s) (s_pos s)
       (s_refs s) (s_uses s) d (s_scopes s) (s_anon s) (s_bad s).
Definition set_scopes (sc : list scope) (s : st) : st :=
  mkSt (s_trace s) (s_indexed s) (s_recs s) (s_mcs s) (s_leaves s) (s_nclass s) (s_ndef s) (s_nmc s) (s_ndset s) (s_pos s)
       (s_refs s) (s_uses s) (s_diags s) sc (s_anon s) (s_bad s).
Definition set_anon (a : N) (s : st) : st :=
  mkSt (s_trace s) (s_indexed s) (s_recs s) (s_mcs s) (s_leaves s) (s_nclass s) (s_ndef s) (s_nmc s) (s_ndset s) (s_pos s)
       (s_refs s) (s_uses s) (s_diags s) (s_scopes s) a (s_bad s).

(** ---------------------------------------------------------------------------------------------
    context.rs *)
Definition current_file (s : st) : N := match s_trace s with f :: _ => f | [] => 0 end.
(** FileRange::new(ctx.current_file_id(), range): the bridge writes the file number of the file a node
    was parsed from into every range, which is the current file whenever the node is being indexed *)
Definition error (r : rng) (k : dkind) : M unit := upd (fun s => set_diags ((r, k) :: s_diags s) s).
Definition push_file (f : N) : M unit := upd (fun s => set_files (f :: s_trace s) (s_indexed s) s).
Definition pop_file : M unit :=
  fun s => match s_trace s with
           | _ :: t => (Some tt, set_files t (s_indexed s) s)
           | [] => bad s
           end.
Definition next_anonymous : M unit := upd (fun s => set_anon (s_anon s + 1) s).

(** ---------------------------------------------------------------------------------------------
    symbol_map.rs, mutable api *)
(** add_to_pos_to_symbol_map: an empty range is ignored *)
Definition add_pos (r : rng) (id : symid) (s : st) : st :=
  if rng_empty r then s else set_pos ((r, id) :: s_pos s) s.

Definition add_record (nm : name) (cls : bool) (loc : rng) : M N :=
  fun s =>
    let id := lenN (s_recs s) in
    let s1 := set_recs (s_recs s ++ [mkRec nm cls [] [] [] loc]) s in
    let s2 := if cls then set_names ((nm, id) :: s_nclass s1) (s_ndef s1) (s_nmc s1) s1
              else set_names (s_nclass s1) ((nm, id) :: s_ndef s1) (s_nmc s1) s1 in
    (Some id, add_pos loc (SyRecord id) s2).
(** add_anonymous_def: allocated, neither named nor positioned *)
Definition add_anonymous_def (nm : name) (loc : rng) : M N :=
  fun s => (Some (lenN (s_recs s)), set_recs (s_recs s ++ [mkRec nm false [] [] [] loc]) s).
Definition add_leaf (l : leaf) : M N :=
  fun s =>
    let id := lenN (s_leaves s) in
    (Some id, add_pos (lf_loc l) (SyLeaf id) (set_leaves (s_leaves s ++ [l]) s)).
(** add_defset: allocated, named (name_to_defset), positioned *)
Definition add_defset (l : leaf) : M N :=
  fun s =>
    let id := lenN (s_leaves s) in
    let s1 := set_leaves (s_leaves s ++ [l]) s in
    (Some id, add_pos (lf_loc l) (SyLeaf id) (set_ndset ((lf_name l, id) :: s_ndset s1) s1)).
(** add_anonymous_defm: allocated, not positioned *)
Definition add_leaf_nopos (l : leaf) : M N :=
  fun s => (Some (lenN (s_leaves s)), set_leaves (s_leaves s ++ [l]) s).
Definition add_multiclass (nm : name) (loc : rng) : M N :=
  fun s =>
    let id := lenN (s_mcs s) in
    let s1 := set_mcs (s_mcs s ++ [mkMc nm [] [] loc]) s in
    let s2 := set_names (s_nclass s1) (s_ndef s1) ((nm, id) :: s_nmc s1) s1 in
    (Some id, add_pos loc (SyMc id) s2).
Definition define_loc (s : st) (id : symid) : option rng :=
  match id with
  | SyRecord i => option_map rc_loc (nthN (s_recs s) i)
  | SyMc i => option_map mc_loc (nthN (s_mcs s) i)
  | SyLeaf i => option_map lf_loc (nthN (s_leaves s) i)
  end.
Definition add_reference (id : symid) (loc : rng) : M unit :=
  upd (fun s => add_pos loc id (set_refs ((id, loc) :: s_refs s) (set_uses ((loc, define_loc s id) :: s_uses s) s))).

Definition record_mut (id : N) (f : recd -> recd) : M unit :=
  fun s => match nthN (s_recs s) id with
           | Some _ => (Some tt, set_recs (set_nth (N.to_nat id) f (s_recs s)) s)
           | None => bad s
           end.
Definition multiclass_mut (id : N) (f : mcd -> mcd) : M unit :=
  fun s => match nthN (s_mcs s) id with
           | Some _ => (Some tt, set_mcs (set_nth (N.to_nat id) f (s_mcs s)) s)
           | None => bad s
           end.
Definition rec_add_targ (nm : name) (lid : N) (r : recd) : recd :=
  mkRec (rc_name r) (rc_class r) (imap_insert nm lid (rc_targs r)) (rc_fields r) (rc_parents r) (rc_loc r).
Definition rec_add_field (nm : name) (lid : N) (r : recd) : recd :=
  mkRec (rc_name r) (rc_class r) (rc_targs r) (imap_insert nm lid (rc_fields r)) (rc_parents r) (rc_loc r).
Definition rec_add_parent (p : N) (r : recd) : recd :=
  mkRec (rc_name r) (rc_class r) (rc_targs r) (rc_fields r) (rc_parents r ++ [p]) (rc_loc r).
Definition mc_add_targ (nm : name) (lid : N) (m : mcd) : mcd :=
  mkMc (mc_name m) (imap_insert nm lid (mc_targs m)) (mc_parents m) (mc_loc m).
Definition mc_add_parent (p : N) (m : mcd) : mcd :=
  mkMc (mc_name m) (mc_targs m) (mc_parents m ++ [p]) (mc_loc m).

(** ---------------------------------------------------------------------------------------------
    symbol_map.rs / record.rs, immutable api *)
Definition find_class (s : st) (nm : name) : option N := alookup nm (s_nclass s).
Definition find_def (s : st) (nm : name) : option N := alookup nm (s_ndef s).
Definition find_multiclass (s : st) (nm : name) : option N := alookup nm (s_nmc s).
Definition find_defset (s : st) (nm : name) : option N := alookup nm (s_ndset s).

(** Record::find_field: own map first, then the parents in order, depth first.  The recursion of the
    Rust code is bounded by [fuel]; [rec_fuel] (number of records + 1) suffices when no record is its own
    ancestor, which ParentClassList::index guarantees for direct self-parents (D3 repair). *)
Fixpoint find_field (fuel : nat) (recs : list recd) (id : N) (nm : name) : option N :=
  match fuel with
  | O => None
  | S fuel' =>
    match nthN recs id with
    | None => None
    | Some r =>
      match alookup nm (rc_fields r) with
      | Some f => Some f
      | None =>
        (fix go (ps : list N) : option N :=
           match ps with
           | [] => None
           | p :: ps' => match find_field fuel' recs p nm with Some f => Some f | None => go ps' end
           end) (rc_parents r)
      end
    end
  end.
Definition rec_fuel (s : st) : nat := S (length (s_recs s)).

Fixpoint is_subclass_of (fuel : nat) (recs : list recd) (id other : N) : bool :=
  match fuel with
  | O => false
  | S fuel' =>
    match nthN recs id with
    | None => false
    | Some r =>
      existsb (N.eqb other) (rc_parents r)
      || existsb (fun p => is_subclass_of fuel' recs p other) (rc_parents r)
    end
  end.

(** typ.rs *)
Definition element_typ (t : mty) : option mty :=
  match t with MBits _ => Some MBit | MList e => Some e | MUnknown => Some MUnknown | _ => None end.
Definition is_bits (t : mty) : bool := match t with MBits _ | MUninit | MUnknown => true | _ => false end.
Definition is_list (t : mty) : bool := match t with MList _ | MUninit | MUnknown => true | _ => false end.
Definition is_record (t : mty) : bool := match t with MRecord _ _ | MUninit | MUnknown => true | _ => false end.

Fixpoint can_cast (s : st) (a b : mty) : bool :=
  match a, b with
  | MUninit, _ | _, MUninit => true
  | MAny, _ | _, MAny => true
  | MUnknown, _ | _, MUnknown => true
  | MInt, MBit | MBit, MInt => true
  | MInt, MBits _ | MBits _, MInt => true
  | MString, MCode | MCode, MString => true
  | MList x, MList y => can_cast s x y
  | MRecord i _, MRecord j _ => (i =? j) || is_subclass_of (rec_fuel s) (s_recs s) i j
  | _, _ => mty_eqb a b
  end.

Definition ty_find_field (s : st) (t : mty) (nm : name) : option N :=
  match t with MRecord id _ => find_field (rec_fuel s) (s_recs s) id nm | _ => None end.

(** ---------------------------------------------------------------------------------------------
    scope.rs *)
Definition push_scope (k : skind) : M unit := upd (fun s => set_scopes (mkScope k [] :: s_scopes s) s).
Definition pop_scope : M unit :=
  fun s => match s_scopes s with
           | _ :: t => (Some tt, set_scopes t s)
           | [] => bad s
           end.
(** `scopes.push(k); let o = body; scopes.pop(); o` (no `?` between push and pop) *)
Definition scoped {A} (k : skind) (body : M A) : M A :=
  push_scope k ;; (o <- try_ body ;; pop_scope ;; lift o).
Definition sc_record_id (c : scope) : option N := match sc_kind c with KRecord i => Some i | _ => None end.
Definition sc_defset_id (c : scope) : option N := match sc_kind c with KDefset i => Some i | _ => None end.
Definition sc_multiclass_id (c : scope) : option N := match sc_kind c with KMulticlass i => Some i | _ => None end.
Definition sc_defm_id (c : scope) : option N := match sc_kind c with KDefm i => Some i | _ => None end.
Fixpoint find_map {A B} (f : A -> option B) (l : list A) : option B :=
  match l with [] => None | x :: r => match f x with Some y => Some y | None => find_map f r end end.
Definition current_record_id (s : st) : option N := find_map sc_record_id (s_scopes s).
Definition current_defset_id (s : st) : option N := find_map sc_defset_id (s_scopes s).
Definition current_multiclass_id (s : st) : option N := find_map sc_multiclass_id (s_scopes s).
Definition current_defm_id (s : st) : option N := find_map sc_defm_id (s_scopes s).

(** Scope::find_variable *)
Definition sc_find_variable (c : scope) (nm : name) : option N :=
  match alookup nm (sc_vars c) with
  | Some v => Some v
  | None => match sc_kind c with
            | KForeach n v => if name_eqb nm n then Some v else None
            | _ => None
            end
  end.
(** Scopes::add_variable: allocate, then insert into the innermost scope *)
Definition scopes_add_variable (l : leaf) : M unit :=
  id <- add_leaf l ;;
  fun s => match s_scopes s with
           | c :: t => (Some tt, set_scopes (mkScope (sc_kind c) ((lf_name l, id) :: sc_vars c) :: t) s)
           | [] => bad s
           end.

(** Scopes::find_local: innermost first; in each scope variables, then (record scope) fields own and
    inherited, then template arguments; (multiclass scope) template arguments *)
Definition scope_find (s : st) (c : scope) (nm : name) : option symid :=
  match sc_find_variable c nm with
  | Some v => Some (SyLeaf v)
  | None =>
    match sc_kind c with
    | KRecord rid =>
      match find_field (rec_fuel s) (s_recs s) rid nm with
      | Some f => Some (SyLeaf f)
      | None => match nthN (s_recs s) rid with
                | Some r => option_map SyLeaf (alookup nm (rc_targs r))
                | None => None
                end
      end
    | KMulticlass mid =>
      match nthN (s_mcs s) mid with
      | Some m => option_map SyLeaf (alookup nm (mc_targs m))
      | None => None
      end
    | _ => None
    end
  end.
Definition find_local (s : st) (nm : name) : option symid :=
  find_map (fun c => scope_find s c nm) (s_scopes s).
(** IndexCtx::resolve_id *)
Definition resolve_id (s : st) (nm : name) : option symid :=
  match find_local s nm with
  | Some id => Some id
  | None => match find_def s nm with
            | Some d => Some (SyRecord d)
            | None => option_map SyLeaf (find_defset s nm)
            end
  end.

(** ---------------------------------------------------------------------------------------------
    queries: symbol_map.rs find_symbol_at, handlers/goto_definition.rs, references.rs, diagnostics.rs *)
Definition rng_lt (a b : rng) : bool :=
  (r_lo a <? r_lo b) || ((r_lo a =? r_lo b) && (r_hi a <? r_hi b)).
(** scanning the log from the newest entry: keep the best candidate; a later (older) entry replaces it
    only when its interval is strictly smaller *)
Fixpoint find_symbol_at_from (best : option (rng * symid)) (log : list (rng * symid)) (f p : N)
  : option (rng * symid) :=
  match log with
  | [] => best
  | (r, id) :: rest =>
    let best' := if rng_has r f p
                 then match best with
                      | None => Some (r, id)
                      | Some (rb, _) => if rng_lt r rb then Some (r, id) else best
                      end
                 else best in
    find_symbol_at_from best' rest f p
  end.
Definition find_symbol_at (s : st) (f p : N) : option symid :=
  option_map snd (find_symbol_at_from None (s_pos s) f p).
Definition goto_definition (s : st) (f p : N) : option rng :=
  match find_symbol_at s f p with Some id => define_loc s id | None => None end.
Definition reference_locs (s : st) (id : symid) : list rng :=
  rev (map snd (filter (fun e => symid_eqb (fst e) id) (s_refs s))).
Definition references (s : st) (f p : N) : option (list rng) :=
  option_map (reference_locs s) (find_symbol_at s f p).
