(** Local completeness of a parse tree with respect to the Core bridge: every node has the children the bridge
    insists on for its kind (AstToCore.v `need ...`), every Identifier node has a first token, every bits length is a
    non-negative i64, every bang operator is one of the 51 with an arm.  [tree_complete t = true] is a sufficient
    condition for [core_of_tree] to return a Core AST (proofs/BridgeComplete.v: the refusals of the bridge are exactly
    local defects of some node).  Executable definitions only. *)
From Coq Require Import List NArith ZArith Bool String.
From TG.Gen Require Import GenTokens GenAst.
From TG.Model Require Import Chars Lexer Tree AstAccess CoreAst AstToCore.
Import ListNotations.
Close Scope string_scope.
Open Scope list_scope.

(** the mandatory accessor fields per node kind *)
Definition mand (k : SyntaxKind) : list string :=
  (match k with
   | S_SourceFile => ["statement_list"]
   | S_Include => ["path"]
   | S_Class => ["name"; "record_body"]
   | S_Def => ["record_body"]
   | S_Defm => ["parent_class_list"]
   | S_Defset => ["type"; "name"; "statement_list"]
   | S_Defvar => ["name"; "value"]
   | S_Dump => ["value"]
   | S_Foreach => ["iterator"; "body"]
   | S_ForeachIterator => ["init"; "name"]
   | S_If => ["condition"; "then_body"]
   | S_Let => ["let_list"; "statement_list"]
   | S_LetItem => ["value"]
   | S_MultiClass => ["name"; "parent_class_list"; "statement_list"]
   | S_Assert => ["condition"; "message"]
   | S_TemplateArgDecl => ["type"; "name"]
   | S_RecordBody => ["parent_class_list"; "body"]
   | S_ClassRef => ["name"]
   | S_PositionalArgValue => ["value"]
   | S_NamedArgValue => ["name"; "value"]
   | S_FieldDef => ["type"; "name"]
   | S_FieldLet => ["name"; "value"]
   | S_BitsType => ["length"]
   | S_ListType => ["inner_type"]
   | S_ClassId => ["name"]
   | S_Value => ["inner_values"]
   | S_InnerValue => ["simple_value"]
   | S_FieldSuffix => ["name"]
   | S_Bits | S_List => ["value_list"]
   | S_ClassValue => ["name"]
   | S_CondClause => ["condition"; "value"]
   | _ => []
   end)%string.

Definition nonnil {A} (l : list A) : bool := match l with [] => false | _ => true end.

(** what the bridge needs from the node itself *)
Definition node_extra (x : lnode) : bool :=
  match l_kind x with
  | S_Identifier => match first_token x with Some (_, Tok _ _) => true | _ => false end
  | S_BitsType =>
      match field x "length" with
      | len :: _ => match m_integer_value len with Some v => negb (v <? 0)%Z | None => false end
      | [] => false
      end
  | S_BangOperator => match m_bang_kind x with Some k => match bop_of_kind k with Some _ => true | None => false end | None => false end
  | _ => true
  end.
Definition node_ok (x : lnode) : bool := forallb (fun f => nonnil (field x f)) (mand (l_kind x)) && node_extra x.

Fixpoint complete_from (off : N) (t : tree) : bool :=
  match t with
  | Tok _ _ => true
  | Node _ cs =>
      node_ok (off, t) &&
      (fix go (o : N) (l : list tree) : bool :=
         match l with [] => true | c :: r => complete_from o c && go (o + tree_len c)%N r end) off cs
  end.
Definition tree_complete (t : tree) : bool := complete_from 0 t.
