(** S-outline (C18): what a program DECLARES, stated on the typed AST, and what an op REGISTERS as a global outline symbol.
    Specification side of the source-level theorems (proofs/OutlineSourceProofs.v); executable definitions only. *)
From Coq Require Import List NArith Bool.
From TG.Model Require Import Chars CoreAst SymbolMap OutlineIndex.
Import ListNotations.
Open Scope N_scope.

(** ---- declarations: what an op registers as a global outline symbol, and what a statement declares ---- *)
Inductive dkind := DClass | DDef | DDefset | DMulticlass.
Definition decl : Type := (dkind * SymbolMap.name * N * N)%type.      (* kind, name, identifier range *)

Definition op_decl (o : op) : list decl :=
  match o with
  | OpAddRecord n RKClass loc true _ => [(DClass, n, fr_lo loc, fr_hi loc)]
  | OpAddRecord n RKDef loc true _ => [(DDef, n, fr_lo loc, fr_hi loc)]
  | OpAddDefset n _ loc _ => [(DDefset, n, fr_lo loc, fr_hi loc)]
  | OpAddMulticlass n loc _ => [(DMulticlass, n, fr_lo loc, fr_hi loc)]
  | _ => []
  end.
Definition ops_decls (ops : list op) : list decl := flat_map op_decl ops.

(** the declarations of a statement in source preorder; [in_dset]: lexically inside a defset *)
Fixpoint stmt_decls (in_dset : bool) (x : stmt) : list decl :=
  let many := fun (d : bool) (b : list stmt) => flat_map (stmt_decls d) b in
  match x with
  | SClass i _ _ _ => [(DClass, i_name i, r_lo (i_rng i), r_hi (i_rng i))]
  | SDef (Some v) _ _ _ =>
      match value_first_ident v with
      | Some i => if in_dset then [] else [(DDef, i_name i, r_lo (i_rng i), r_hi (i_rng i))]
      | None => []
      end
  | SDef None _ _ _ => []
  | SDefset _ i b => (DDefset, i_name i, r_lo (i_rng i), r_hi (i_rng i)) :: many true b
  | SMulticlass i _ _ b => (DMulticlass, i_name i, r_lo (i_rng i), r_hi (i_rng i)) :: many in_dset b
  | SForeach _ _ b | SLet _ b => many in_dset b
  | SIf _ th el => many in_dset th ++ match el with Some e => many in_dset e | None => [] end
  | SInclude _ _ | SAssert _ _ | SDefm _ _ _ | SDefvar _ _ | SDump _ => []
  end.

Fixpoint no_include (x : stmt) : bool :=
  let all := fun (b : list stmt) => forallb no_include b in
  match x with
  | SInclude _ _ => false
  | SDefset _ _ b | SForeach _ _ b | SLet _ b | SMulticlass _ _ _ b => all b
  | SIf _ th el => all th && match el with Some e => all e | None => true end
  | _ => true
  end.




Definition program_decls (root : list stmt) : list decl := flat_map (stmt_decls false) root.

(** ================= multi-file: the VISIT of a workspace, stated on the AST alone =================
    [sv] follows the statements in the order index.rs visits them: an `include` enters the target file the first time it
    is met (indexed-once guard d15068e), [g] is the file being read, [dset] says whether the statement is lexically inside a
    defset OF THE SAME FILE (7840bc6 / 28899f7: a def is a member of a defset's outline only then), [v_known] are the names
    of the classes declared so far in visit order (what `find_class` can resolve).  A defset whose type names an undeclared
    class is skipped with its whole body (the `?` of Defset::index); [r_skipped] records that this happened. *)
Definition fdecl : Type := (N * decl)%type.           (* file, declaration *)

Definition op_fdecl (o : op) : list fdecl :=
  match o with
  | OpAddRecord n RKClass loc true _ => [(fr_file loc, (DClass, n, fr_lo loc, fr_hi loc))]
  | OpAddRecord n RKDef loc true _ => [(fr_file loc, (DDef, n, fr_lo loc, fr_hi loc))]
  | OpAddDefset n _ loc _ => [(fr_file loc, (DDefset, n, fr_lo loc, fr_hi loc))]
  | OpAddMulticlass n loc _ => [(fr_file loc, (DMulticlass, n, fr_lo loc, fr_hi loc))]
  | _ => []
  end.
Definition ops_fdecls (ops : list op) : list fdecl := flat_map op_fdecl ops.
(** the declarations registered for one file, in indexing order *)
Definition decls_of_file (f : N) (l : list fdecl) : list decl :=
  map snd (filter (fun x => fst x =? f) l).

Fixpoint ty_ok (known : list SymbolMap.name) (t : ty) : bool :=
  match t with
  | TyList e => ty_ok known e
  | TyClass i => existsb (list_eqb (i_name i)) known
  | _ => true
  end.

Record vstate := mkV { v_indexed : list N; v_known : list SymbolMap.name; v_skipped : bool }.

Definition sdecl (g : N) (k : dkind) (i : ident) : fdecl := (g, (k, i_name i, r_lo (i_rng i), r_hi (i_rng i))).

Section Visit.
  Variable files : list (list stmt).

  Fixpoint sv (fuel : nat) (g : N) (dset : bool) (x : stmt) (v : vstate) : option (list fdecl * vstate) :=
    match fuel with
    | O => None
    | S n =>
      let many := fix many (g : N) (d : bool) (b : list stmt) (v : vstate) : option (list fdecl * vstate) :=
        match b with
        | [] => Some ([], v)
        | y :: r => match sv n g d y v with
                    | None => None
                    | Some (e1, v1) => match many g d r v1 with
                                       | None => None
                                       | Some (e2, v2) => Some (e1 ++ e2, v2)
                                       end
                    end
        end in
      match x with
      | SInclude _ None => Some ([], v)
      | SInclude _ (Some f) =>
          if existsb (N.eqb f) (v_indexed v) then Some ([], v)
          else let v1 := mkV (f :: v_indexed v) (v_known v) (v_skipped v) in
               match nth_error files (N.to_nat f) with
               | None => Some ([], v1)
               | Some body => many f false body v1
               end
      | SClass i _ _ _ => Some ([sdecl g DClass i], mkV (v_indexed v) (i_name i :: v_known v) (v_skipped v))
      | SDef (Some nm) _ _ _ =>
          match value_first_ident nm with
          | Some i => Some (if dset then [] else [sdecl g DDef i], v)
          | None => Some ([], v)
          end
      | SDef None _ _ _ => Some ([], v)
      | SDefset t i b =>
          if ty_ok (v_known v) t
          then match many g true b v with
               | None => None
               | Some (e, v') => Some (sdecl g DDefset i :: e, v')
               end
          else Some ([], mkV (v_indexed v) (v_known v) true)
      | SMulticlass i _ _ b =>
          match many g dset b v with
          | None => None
          | Some (e, v') => Some (sdecl g DMulticlass i :: e, v')
          end
      | SForeach _ _ b | SLet _ b => many g dset b v
      | SIf _ th el =>
          match many g dset th v with
          | None => None
          | Some (e1, v1) =>
              match el with
              | None => Some (e1, v1)
              | Some e => match many g dset e v1 with
                          | None => None
                          | Some (e2, v2) => Some (e1 ++ e2, v2)
                          end
              end
          end
      | SAssert _ _ | SDefm _ _ _ | SDefvar _ _ | SDump _ => Some ([], v)
      end
    end.

  Fixpoint sv_list (fuel : nat) (g : N) (d : bool) (b : list stmt) (v : vstate) : option (list fdecl * vstate) :=
    match b with
    | [] => Some ([], v)
    | y :: r => match sv fuel g d y v with
                | None => None
                | Some (e1, v1) => match sv_list fuel g d r v1 with
                                   | None => None
                                   | Some (e2, v2) => Some (e1 ++ e2, v2)
                                   end
                end
    end.
End Visit.

Definition v0 : vstate := mkV [0] [] false.

(** the visit of a workspace (root = file 0) *)
Definition visit_ws (w : workspace) : option (list fdecl * vstate) :=
  match ws_files w with
  | [] => Some ([], v0)
  | root :: _ => sv_list (ws_files w) (ws_fuel w) 0 false root v0
  end.

(** the decidable well-formedness of the declarations of a workspace: the visit completes and no defset was skipped,
    i.e. every defset's type names only classes declared earlier in visit order *)
Definition decls_wf (w : workspace) : bool :=
  match visit_ws w with Some (_, v) => negb (v_skipped v) | None => false end.

(** what file [f] declares: its statements in source preorder *)
Definition file_decls (files : list (list stmt)) (f : N) : list decl :=
  match nth_error files (N.to_nat f) with Some body => program_decls body | None => [] end.
