(** S-outline (C18): what a program DECLARES, stated on the typed AST, and what an op REGISTERS as a global outline symbol.
    Specification side of the source-level theorems (proofs/OutlineSourceProofs.v); executable definitions only. *)
From Coq Require Import List NArith Bool.
From TG.Model Require Import Chars CoreAst SymbolMap OutlineIndex.
Import ListNotations.
Open Scope N_scope.

(** ---- declarations: what an op registers as a global outline symbol, and what a statement declares ---- *)
Inductive dkind := DClass | DDef | DDefset | DMulticlass.
Definition decl : Type := (dkind * SymbolMap.name * N * N)%type.      (* kind, name, identifier range *)

Definition op_decl (o : op) : list decl :=
  match o with
  | OpAddRecord n RKClass loc true _ => [(DClass, n, fr_lo loc, fr_hi loc)]
  | OpAddRecord n RKDef loc true _ => [(DDef, n, fr_lo loc, fr_hi loc)]
  | OpAddDefset n _ loc _ => [(DDefset, n, fr_lo loc, fr_hi loc)]
  | OpAddMulticlass n loc _ => [(DMulticlass, n, fr_lo loc, fr_hi loc)]
  | _ => []
  end.
Definition ops_decls (ops : list op) : list decl := flat_map op_decl ops.

(** the declarations of a statement in source preorder; [in_dset]: lexically inside a defset *)
Fixpoint stmt_decls (in_dset : bool) (x : stmt) : list decl :=
  let many := fun (d : bool) (b : list stmt) => flat_map (stmt_decls d) b in
  match x with
  | SClass i _ _ _ => [(DClass, i_name i, r_lo (i_rng i), r_hi (i_rng i))]
  | SDef (Some v) _ _ _ =>
      match value_first_ident v with
      | Some i => if in_dset then [] else [(DDef, i_name i, r_lo (i_rng i), r_hi (i_rng i))]
      | None => []
      end
  | SDef None _ _ _ => []
  | SDefset _ i b => (DDefset, i_name i, r_lo (i_rng i), r_hi (i_rng i)) :: many true b
  | SMulticlass i _ _ b => (DMulticlass, i_name i, r_lo (i_rng i), r_hi (i_rng i)) :: many in_dset b
  | SForeach _ _ b | SLet _ b => many in_dset b
  | SIf _ th el => many in_dset th ++ match el with Some e => many in_dset e | None => [] end
  | SInclude _ _ | SAssert _ _ | SDefm _ _ _ | SDefvar _ _ | SDump _ => []
  end.

Fixpoint no_include (x : stmt) : bool :=
  let all := fun (b : list stmt) => forallb no_include b in
  match x with
  | SInclude _ _ => false
  | SDefset _ _ b | SForeach _ _ b | SLet _ b | SMulticlass _ _ _ b => all b
  | SIf _ th el => all th && match el with Some e => all e | None => true end
  | _ => true
  end.


Definition program_decls (root : list stmt) : list decl := flat_map (stmt_decls false) root.
