(** M-completion over the symbol table: `complete_classes` / the class part of handlers/completion.rs on a
    state of the symbol-map model (model/SymbolMap.v, builder "symmap"; read-only here).
    `symbol_map.iter_class()` = values of `name_to_class`; `record.iter_template_arg()` = values of the record's
    `name_to_template_arg`; HashMap iteration order is unspecified (the check compares sorted). *)
From Coq Require Import List NArith Bool.
From TG.Gen Require Import GenTokens GenCompletion.
From TG.Model Require Import Chars Tree SymbolMap Completion.
Import ListNotations.
Open Scope list_scope.

(** the class symbol completion.rs builds from a record: name and number of template arguments *)
Definition class_sym_of (e : entry) : class_sym :=
  {| cs_name := e_name e; cs_ntargs := List.length (p_targs (e_payload e)) |}.

(** `for record_id in symbol_map.iter_class() { let record = symbol_map.record(record_id); ... }`
    ([record] panics on an id that was never allocated) *)
Fixpoint class_syms_of (S : symbol_map) (ids : list N) : sres (list class_sym) :=
  match ids with
  | [] => SOk []
  | id :: r => sbind (record S id) (fun e => sbind (class_syms_of S r) (fun l => SOk (class_sym_of e :: l)))
  end.
Definition class_syms (S : symbol_map) : sres (list class_sym) := class_syms_of S (iter_class S).
Definition complete_classes_sm (S : symbol_map) : sres (list comp_item) :=
  sbind (class_syms S) (fun cl => SOk (complete_classes cl)).

(** handlers::completion::exec on a parsed file and a symbol-table state *)
Definition completion_sm (S : symbol_map) (t : tree) (off : N) (trigger : option text) : sres (option (list comp_item)) :=
  sbind (class_syms S) (fun cl => SOk (completion_model cl t off trigger)).

(** specification side: the id given by the LAST `add_record(name, Class)` of a log ("redeclared names: last one wins") *)
Fixpoint last_class_decl (ops : list op) (n : name) (acc : option N) : option N :=
  match ops with
  | [] => acc
  | OpAddRecord n' RKClass _ _ id :: r => last_class_decl r n (if list_eqb n' n then Some id else acc)
  | _ :: r => last_class_decl r n acc
  end.
