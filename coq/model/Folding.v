(** M-folding (C18): hand model of handlers/folding_range.rs `exec` and utils.rs `range_excluding_trivia`
    over the green trees of Tree.v.  The kind list comes from the generated [GenFoldKinds.is_fold_kind]. *)
From Coq Require Import List NArith Bool.
From TG.Gen Require Import GenTokens GenFoldKinds.
From TG.Model Require Import Chars Tree TreeNav.
Import ListNotations.
Open Scope N_scope.

(** `.filter(|token| !token.kind().is_trivia() && !token.text_range().is_empty())` *)
Definition sig_token (l : leaf) : bool := negb (sk_is_trivia (lf_kind l)) && negb (lf_lo l =? lf_hi l).

(** utils::range_excluding_trivia(node) for the node [t] starting at [off]:
    descendants_with_tokens().filter_map(into_token) is the leaf sequence of the node in document order *)
Definition range_excluding_trivia (off : N) (t : tree) : N * N :=
  (off, match last_opt (filter sig_token (leaves_from off t)) with
        | Some l => lf_hi l
        | None => off
        end).

(** folding_range::exec: root.descendants() (preorder, nodes only), filter_map on the kind *)
Definition fold_node (d : N * N * tree) : bool := is_fold_kind (kind_of (snd d)).
Definition folding_model (root : tree) : list (N * N) :=
  map (fun d => range_excluding_trivia (fst (fst d)) (snd d)) (filter fold_node (descendants root)).
