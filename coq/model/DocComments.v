(** M-doccomments (C19): hand model of handlers/hover.rs `extract_doc_comments` over the green trees of Tree.v
    with the cursors of TreeNav.v.  `prev_token` is the hand-written walk of hover.rs (TreeNav.prev_token). *)
From Coq Require Import List NArith Bool.
From TG.Gen Require Import GenTokens.
From TG.Model Require Import Chars Tree TreeNav.
Import ListNotations.
Open Scope N_scope.

(** ---- the string operations used on token texts ---- *)
(** `text.matches('\n').count()` *)
Definition count_nl (t : text) : nat := length (filter (N.eqb 10) t).
(** `comment.starts_with("//")` *)
Definition starts_with_slashes (t : text) : bool :=
  match t with a :: b :: _ => (a =? 47) && (b =? 47) | _ => false end.
(** `trim_start_matches('/')` *)
Fixpoint trim_start_matches_slash (t : text) : text :=
  match t with c :: r => if c =? 47 then trim_start_matches_slash r else t | [] => [] end.
(** `str::trim_start` (Unicode White_Space, table regenerated from the Rust std the repo is built with) *)
Fixpoint trim_start (t : text) : text :=
  match t with c :: r => if is_whitespace c then trim_start r else t | [] => [] end.
Definition comment_text (t : text) : text := trim_start (trim_start_matches_slash t).
(** `Vec<String>::join("\n")` *)
Fixpoint join_nl (ls : list text) : text :=
  match ls with
  | [] => []
  | [x] => x
  | x :: r => x ++ 10 :: join_nl r
  end.

(** the two tests of the loop *)
Definition is_ws_one_newline (l : leaf) : bool :=
  sk_eqb (lf_kind l) S_Whitespace && Nat.eqb (count_nl (lf_text l)) 1.
Definition is_doc_comment (l : leaf) : bool :=
  sk_eqb (lf_kind l) S_LineComment && starts_with_slashes (lf_text l).

Inductive doc_result : Type := DocSome (doc : text) | DocNone | DocOutOfFuel.

(** the `loop { ... }` of extract_doc_comments; [acc] = comments pushed so far, nearest first is pushed first,
    so consing gives document order = `comments.into_iter().rev()` *)
Fixpoint doc_loop (fuel : nat) (wfuel : nat) (cur : cursor) (acc : list text) : option (list text) :=
  match fuel with
  | O => None
  | S f =>
      match prev_token wfuel cur with
      | WOutOfFuel => None
      | WNone => Some acc
      | WFound c1 =>
          match cur_leaf c1 with
          | None => Some acc        (* not reachable: WFound is a token *)
          | Some l1 =>
              if negb (is_ws_one_newline l1) then Some acc
              else match prev_token wfuel c1 with
                   | WOutOfFuel => None
                   | WNone => Some acc
                   | WFound c2 =>
                       match cur_leaf c2 with
                       | None => Some acc
                       | Some l2 =>
                           if negb (sk_eqb (lf_kind l2) S_LineComment) then Some acc
                           else if negb (starts_with_slashes (lf_text l2)) then Some acc
                           else doc_loop f wfuel c2 (comment_text (lf_text l2) :: acc)
                       end
                   end
          end
      end
  end.

(** the declaration node whose documentation is wanted:
      let id_node = root.covering_element(range);
      let identifier_node = match id_node.kind() { Id => id_node.parent()?, Identifier => id_node.into_node()?, _ => return None };
      let mut parent_node = identifier_node.parent()?;
      if parent_node.kind() == InnerValue { let value_node = parent_node.parent()?; parent_node = value_node.parent()?; } *)
Definition decl_node (root : tree) (lo hi : N) : option cursor :=
  match covering_element root lo hi with
  | None => None                        (* empty or out-of-file range: never passed by hover (define_loc of an indexed symbol) *)
  | Some idn =>
      let identifier_node : option cursor :=
        match kind_of (fst idn) with
        | S_Id => parent idn
        | S_Identifier => if is_node (fst idn) then Some idn else None
        | _ => None
        end in
      match identifier_node with
      | None => None
      | Some idc =>
          match parent idc with
          | None => None
          | Some p =>
              if sk_eqb (kind_of (fst p)) S_InnerValue then
                match parent p with
                | None => None
                | Some v => parent v
                end
              else Some p
          end
      end
  end.

(** `parent_node.first_token()?` *)
Definition decl_first_token (root : tree) (lo hi : N) : option cursor :=
  match decl_node root lo hi with
  | None => None
  | Some d => first_token (fst d) (snd d)
  end.

Definition render_doc (lines : list text) : doc_result :=
  match join_nl lines with
  | [] => DocNone                        (* `if doc.is_empty() { None }` *)
  | d => DocSome d
  end.

Definition extract_doc_comments_fuel (fuel wfuel : nat) (root : tree) (lo hi : N) : doc_result :=
  match decl_first_token root lo hi with
  | None => DocNone
  | Some c => match doc_loop fuel wfuel c [] with
              | None => DocOutOfFuel
              | Some lines => render_doc lines
              end
  end.

(** a bound on the number of iterations of the walk from a cursor: everything to its left plus its depth *)
Definition cur_measure (c : cursor) : nat := (forest_size (before_ctx (snd c)) + length (snd c))%nat.

(** enough fuel for every tree (proofs/DocProofs.v: never DocOutOfFuel): the loop runs at most once per two leaves
    to the left of the declaration, each walk at most [cur_measure] iterations *)
Definition extract_doc_comments (root : tree) (lo hi : N) : doc_result :=
  match decl_first_token root lo hi with
  | None => DocNone
  | Some c => match doc_loop (S (length (leaves_before c))) (S (cur_measure c)) c [] with
              | None => DocOutOfFuel
              | Some lines => render_doc lines
              end
  end.

(** ---- the same function with rowan's own prev_token (the code before the repair e8de1c3; refutation example) ---- *)
Fixpoint doc_loop_rowan (fuel : nat) (cur : cursor) (acc : list text) : option (list text) :=
  match fuel with
  | O => None
  | S f =>
      match rowan_prev_token cur with
      | None => Some acc
      | Some c1 =>
          match cur_leaf c1 with
          | None => Some acc
          | Some l1 =>
              if negb (is_ws_one_newline l1) then Some acc
              else match rowan_prev_token c1 with
                   | None => Some acc
                   | Some c2 =>
                       match cur_leaf c2 with
                       | None => Some acc
                       | Some l2 =>
                           if negb (is_doc_comment l2) then Some acc
                           else doc_loop_rowan f c2 (comment_text (lf_text l2) :: acc)
                       end
                   end
          end
      end
  end.
Definition extract_doc_comments_rowan (root : tree) (lo hi : N) : doc_result :=
  match decl_first_token root lo hi with
  | None => DocNone
  | Some c => match doc_loop_rowan (S (length (leaves_before c))) c [] with
              | None => DocOutOfFuel
              | Some lines => render_doc lines
              end
  end.

(** ---- specification on the flat leaf sequence ----
    [L] = the leaves before the declaration's first token, NEAREST FIRST.  The documentation is the maximal run of
    (whitespace with exactly one newline, `//` line comment) pairs going up from the declaration. *)
Fixpoint doc_lines_rev (L : list leaf) : list text :=
  match L with
  | w :: c :: rest =>
      if is_ws_one_newline w && is_doc_comment c then comment_text (lf_text c) :: doc_lines_rev rest else []
  | _ => []
  end.
Definition doc_spec (before_decl : list leaf) : doc_result :=
  render_doc (rev (doc_lines_rev (rev before_decl))).
