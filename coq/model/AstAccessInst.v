(** The child-frame table of the CURRENT grammar program and the known unreachable pairs (instances used by C04). *)
From Coq Require Import List NArith Bool String.
From TG.Gen Require Import GenTokens GenAst GenGrammar.
From TG.Model Require Import Tree GInterp AstAccess.
Import ListNotations.
Close Scope string_scope.
Open Scope list_scope.

(** child frames of every node kind, computed from the generated grammar program *)
Definition kid_frames : list (SyntaxKind * frame) :=
  match kid_table grammar_prog 60 20 with Some l => l | None => [] end.
(** known findings: the RangeList of a FieldLet (key unreachable:FieldLet.RangeList); the undocumented `<Type>` suffix of a
    list literal (key accepts:list-element-type-suffix) *)
Definition known_unreachable : list (SyntaxKind * SyntaxKind) :=
  (S_FieldLet, S_RangeList) :: map (fun k => (S_List, k)) (ast_enum_kinds "Type"%string).

(** kinds of the nodes of a tree that conform to none of their frames (empty = the tree conforms) *)
Fixpoint nonconforming (t : tree) : list SyntaxKind :=
  match t with
  | Tok _ _ => []
  | Node k cs =>
      (if existsb (fun kf => sk_eqb (fst kf) k && node_conforms (snd kf) t) kid_frames then [] else [k]) ++
      (fix go (l : list tree) : list SyntaxKind := match l with [] => [] | c :: r => nonconforming c ++ go r end) cs
  end.
(** child nodes no accessor returns: (parent kind, child kind) *)
Fixpoint unreached (t : tree) : list (SyntaxKind * SyntaxKind) :=
  match t with
  | Tok _ _ => []
  | Node k cs =>
      map (fun c => (k, kind_of c))
          (filter (fun c => negb (sk_eqb (kind_of c) S_Error) &&
                            negb (existsb (fun a => existsb (fun d => tree_eqb_shallow d c) (access t (acc_kinds a) (acc_mode_of a)))
                                          (accessors_of k)))
                  (node_children t)) ++
      (fix go (l : list tree) : list (SyntaxKind * SyntaxKind) := match l with [] => [] | c :: r => unreached c ++ go r end) cs
  end.
