(** A-shape: a small ABSTRACT INTERPRETATION of the grammar program (gen/GenGrammar.v) that makes every Identifier
    node the parser builds EMPTY or [Id token; more tokens...] (AstToCore.ident_shape).  It does not look for one
    particular rendering of grammar/value.rs `fn identifier`: it follows what is open and what has been pushed.

    Abstract state = what the innermost open node is:
      NoId       no Identifier node is open (anywhere on the builder stack)
      IdEmpty    the innermost open node is an Identifier without children
      IdStarted  the innermost open node is an Identifier whose first child is an Id token
      IdOk       IdEmpty or IdStarted (a join)
      Bot        unreachable
    [an e a] = (state when e evaluates to true, state when it evaluates to false); conditions are followed
    path-sensitively (`if eat_if(Id) {..} else {..}` as well as `let r = eat_if(Id); finish_node(); r`).
    While an Identifier is open: no node may be opened, no function called, no loop run, and the first token pushed
    must come from eat_if(Id) / assert(Id).  Soundness for every program: proofs/ShapeSound.v.
    Executable definitions only. *)
From Coq Require Import List NArith Bool.
From TG.Gen Require Import GenTokens.
From TG.Model Require Import Chars Lexer Prep Tree ParserPrims GInterp.
Import ListNotations.

Inductive ast : Set := Bot | NoId | IdEmpty | IdStarted | IdOk.

Definition join (a b : ast) : option ast :=
  match a, b with
  | Bot, x | x, Bot => Some x
  | NoId, NoId => Some NoId
  | NoId, _ | _, NoId => None
  | IdEmpty, IdEmpty => Some IdEmpty
  | IdStarted, IdStarted => Some IdStarted
  | _, _ => Some IdOk
  end.
(** [le_noid a]: a is NoId or unreachable *)
Definition le_noid (a : ast) : bool := match a with Bot | NoId => true | _ => false end.
Definition same (a : ast) : option (ast * ast) := Some (a, a).

Definition an_prim (pr : prim) (a : ast) : option (ast * ast) :=
  match a with
  | Bot => same Bot
  | _ =>
    match pr with
    | PStartNode k =>
        match a with NoId => same (if sk_eqb k S_Identifier then IdEmpty else NoId) | _ => None end
    | PFinishNode => same NoId
    | PCheckpoint | PError _ | PAtSet _ => same a
    | PStartNodeAt _ k =>
        match a with NoId => if sk_eqb k S_Identifier then None else same NoId | _ => None end
    | PAssert k =>
        match a with
        | NoId => same NoId | IdStarted => same IdStarted
        | IdEmpty => if tk_eqb k T_Id then same IdStarted else None
        | _ => None
        end
    | PEatIf k =>
        match a with
        | NoId => same NoId | IdStarted => same IdStarted
        | IdEmpty => if tk_eqb k T_Id then Some (IdStarted, IdEmpty) else None
        | _ => None
        end
    | PExpect _ _ | PEat | PSkip =>
        match a with NoId => same NoId | IdStarted => same IdStarted | _ => None end
    | PErrorAndEat _ | PErrorAndRecover _ =>
        match a with NoId => same NoId | _ => None end
    end
  end.

Definition obind {A B} (o : option A) (f : A -> option B) : option B := match o with Some x => f x | None => None end.

Fixpoint an (e : expr) (a : ast) : option (ast * ast) :=
  match e with
  | EB true => Some (a, Bot)
  | EB false => Some (Bot, a)
  | EVar _ => same a
  | ENot x => obind (an x a) (fun r => Some (snd r, fst r))
  | EPrim pr => an_prim pr a
  | ECall _ _ => match a with Bot => same Bot | NoId => same NoId | _ => None end
  | ESeq x y => obind (an x a) (fun r => obind (join (fst r) (snd r)) (fun a1 => an y a1))
  | EIf c x y =>
      obind (an c a) (fun rc =>
      obind (an x (fst rc)) (fun rx =>
      obind (an y (snd rc)) (fun ry =>
      obind (join (fst rx) (fst ry)) (fun t =>
      obind (join (snd rx) (snd ry)) (fun f => Some (t, f))))))
  | EWhile c b =>
      match a with
      | Bot => same Bot
      | NoId =>
          obind (an c NoId) (fun rc =>
          obind (an b NoId) (fun rb =>
          if le_noid (fst rc) && le_noid (snd rc) && le_noid (fst rb) && le_noid (snd rb) then same NoId else None))
      | _ => None
      end
  | EBreak => if le_noid a then same Bot else None
  | EReturn x => obind (an x a) (fun r => if le_noid (fst r) && le_noid (snd r) then same Bot else None)
  | ESet _ x => obind (an x a) (fun r => obind (join (fst r) (snd r)) (fun j => same j))
  end.

(** every function body, entered with no Identifier open, leaves none open on every exit *)
Definition shape_chk (body : expr) : bool :=
  match an body NoId with Some (t, f) => le_noid t && le_noid f | None => false end.
Definition shape_chk_prog (p : prog) : bool := forallb shape_chk (fns p).
