(** A-shape: a syntactic check on the grammar program (gen/GenGrammar.v) that makes every Identifier node the
    parser builds EMPTY or [Id token; trivia...] (AstToCore.ident_shape): the kind Identifier is opened only by
    the pattern of grammar/value.rs `fn identifier`
        start_node(Identifier); if eat_if(Id) { finish_node(); b } else { finish_node(); b' }
    and by no other start_node / start_node_at.  Soundness for every program: proofs/ShapeSound.v.
    Executable definitions only. *)
From Coq Require Import List NArith Bool.
From TG.Gen Require Import GenTokens.
From TG.Model Require Import Chars Lexer Prep Tree ParserPrims GInterp.
Import ListNotations.

Definition is_ident_pat (e : expr) : bool :=
  match e with
  | ESeq (EPrim (PStartNode k))
         (EIf (EPrim (PEatIf tk)) (ESeq (EPrim PFinishNode) (EB _)) (ESeq (EPrim PFinishNode) (EB _))) =>
      sk_eqb k S_Identifier && tk_eqb tk T_Id
  | _ => false
  end.

Definition prim_ok (pr : prim) : bool :=
  match pr with
  | PStartNode k | PStartNodeAt _ k => negb (sk_eqb k S_Identifier)
  | _ => true
  end.

Fixpoint shape_chk (e : expr) : bool :=
  is_ident_pat e ||
  match e with
  | EB _ | EVar _ | EBreak | ECall _ _ => true
  | ENot a | EReturn a | ESet _ a => shape_chk a
  | EPrim pr => prim_ok pr
  | ESeq a b => shape_chk a && shape_chk b
  | EIf c a b => shape_chk c && shape_chk a && shape_chk b
  | EWhile c b => shape_chk c && shape_chk b
  end.

Definition shape_chk_prog (p : prog) : bool := forallb shape_chk (fns p).
