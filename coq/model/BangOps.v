(** BangOps: the table-like part of crates/ide/src/index/bang_operator.rs: per operator the treatment of
    the <type> annotation, the arity accepted by `expect_values`, whether the operands are checked
    one by one while they are indexed (`index_values_and_check_types`), and the checks made after all
    operands have been indexed (`index_values` + the body of the arm), as a pure function of the list of
    (operand range, operand type).  The three variable-binding operators (!filter, !foldl, !foreach)
    interleave indexing and scoping and live in Indexer.v.  Executable definitions only. *)
From Coq Require Import List NArith Bool.
From TG.Model Require Import CoreAst Scope.
Import ListNotations.
Open Scope N_scope.

Inductive annot_mode : Set := AnUnexpect | AnExpect | AnOptional.
Definition bang_annot (op : bop) : annot_mode :=
  match op with
  | XCast | XExists | XGetDagArg | XIsA => AnExpect
  | XGetDagOp => AnOptional
  | _ => AnUnexpect
  end.

Inductive arity : Set := ArExact (n : nat) | ArRange (lo hi : nat) | ArAtLeast (n : nat).
Definition bang_arity (op : bop) : arity :=
  match op with
  | XAdd | XAnd | XMul | XOr | XXor | XCon | XListConcat | XStrConcat => ArAtLeast 2
  | XDiv | XSub | XSrl | XSra | XShl | XEq | XNe | XGe | XGt | XLe | XLt | XGetDagArg | XGetDagName
  | XInterleave | XListRemove | XListSplat | XSetDagOp => ArExact 2
  | XCast | XEmpty | XExists | XGetDagOp | XHead | XInitialized | XIsA | XListFlatten | XLog2 | XNot
  | XRepr | XSize | XTail | XToLower | XToUpper => ArExact 1
  | XDag | XFilter | XForEach | XIf | XSetDagArg | XSetDagName | XSubst => ArExact 3
  | XFoldl => ArExact 5
  | XFind | XSubstr => ArRange 2 3
  | XRange => ArRange 1 3
  end.
Definition arity_ok (a : arity) (n : nat) : bool :=
  match a with
  | ArExact k => Nat.eqb n k
  | ArRange lo hi => Nat.leb lo n && Nat.leb n hi
  | ArAtLeast k => Nat.leb k n
  end.

(** `index_values_and_check_types(ctx, values, &TY![t])` *)
Definition bang_check_each (op : bop) : option mty :=
  match op with
  | XAdd | XAnd | XMul | XOr | XXor | XDiv | XSub | XSrl | XSra | XShl => Some MInt
  | XCon => Some MDag
  | _ => None
  end.

Definition vt : Type := (rng * option mty)%type.
Definition dg : Type := (rng * dkind)%type.

(** `if let Some((range, Some(typ))) = it.next() { if !pred(typ) { error(range) } }` *)
Definition chk (x : option vt) (pred : mty -> bool) : list dg :=
  match x with
  | Some (r, Some t) => if pred t then [] else [(r, DOperand)]
  | _ => []
  end.
Definition chk_all (l : list vt) (pred : mty -> bool) : list dg :=
  flat_map (fun x => chk (Some x) pred) l.

Section Post.
  Variable s : st.
  Let to (b : mty) (a : mty) : bool := can_cast s a b.
  Let or_unknown (o : option mty) : mty := match o with Some t => t | None => MUnknown end.

  (** result: diagnostics in emission order, result type *)
  Definition bang_post (op : bop) (annot : option mty) (l : list vt) : list dg * option mty :=
    let n k := nth_error l k in
    match op with
    | XAdd | XAnd | XMul | XOr | XXor | XDiv | XSub | XSrl | XSra | XShl => ([], Some MInt)
    | XCon => ([], Some MDag)
    | XCast => ([], Some (or_unknown annot))
    | XDag =>
      (chk (n 1%nat) is_list ++ chk (n 2%nat) (to (MList MString)), Some MDag)
    | XEmpty =>
      (chk (n 0%nat) (fun t => to MString t || is_list t || to MDag t), Some MBit)
    | XEq | XNe =>
      (chk_all (firstn 2 l) (fun t => to MBit t || is_bits t || to MInt t || to MString t || is_record t),
       Some MBit)
    | XExists => (chk (n 0%nat) (to MString), Some MBit)
    | XFind =>
      (chk (n 0%nat) (to MString) ++ chk (n 1%nat) (to MString) ++ chk (n 2%nat) (to MInt), Some MInt)
    | XGe | XGt | XLe | XLt =>
      (chk_all (firstn 2 l) (fun t => to MBit t || is_bits t || to MInt t || to MString t), Some MBit)
    | XGetDagArg =>
      (chk (n 0%nat) (to MDag) ++ chk (n 1%nat) (fun t => to MInt t || to MString t),
       Some (or_unknown annot))
    | XGetDagName => (chk (n 0%nat) (to MDag) ++ chk (n 1%nat) (to MInt), Some MString)
    | XGetDagOp => (chk (n 0%nat) (to MDag), Some (or_unknown annot))
    | XHead =>
      match n 0%nat with
      | None => ([], None)
      | Some (_, None) => ([], None)
      | Some (_, Some (MList e)) => ([], Some e)
      | Some (_, Some MUnknown) => ([], Some MUnknown)
      | Some (r, Some _) => ([(r, DOperand)], Some MUnknown)
      end
    | XIf =>
      let d1 := chk (n 0%nat) (fun t => to MBit t || to MInt t) in
      match n 1%nat, n 2%nat with
      | Some (_, Some th), Some (re, Some el) =>
        if can_cast s th el then (d1, Some th) else (d1 ++ [(re, DOperand)], Some MUnknown)
      | _, _ => (d1, Some MUnknown)
      end
    | XInitialized => ([], Some MBit)
    | XInterleave =>
      (match n 0%nat with
       | Some (r, Some t) =>
         match t with
         | MList (MAny | MUnknown | MString | MInt | MBits _ | MBit) => []
         | MUnknown => []
         | _ => [(r, DOperand)]
         end
       | _ => []
       end ++ chk (n 1%nat) (to MString), Some MString)
    | XIsA => ([], Some MBit)
    | XListConcat =>
      match l with
      | (r1, Some t1) :: rest =>
        if is_list t1 then (chk_all rest (to t1), Some t1) else ([(r1, DOperand)], Some MUnknown)
      | _ => ([], None)
      end
    | XListFlatten =>
      match n 0%nat with
      | Some (r, Some t) =>
        match t with
        | MList (MList i) => ([], Some (MList i))
        | MList i => ([], Some (MList i))
        | MUnknown => ([], Some MUnknown)
        | _ => ([(r, DOperand)], Some MUnknown)
        end
      | _ => ([], None)
      end
    | XListRemove =>
      match n 0%nat with
      | Some (r1, Some t1) =>
        if is_list t1 then
          match n 1%nat with
          | Some (r2, Some t2) => (if can_cast s t2 t1 then [] else [(r2, DOperand)], Some t1)
          | _ => ([], None)
          end
        else ([(r1, DOperand)], Some MUnknown)
      | _ => ([], None)
      end
    | XListSplat =>
      match n 0%nat with
      | Some (_, Some t) => (chk (n 1%nat) (to MInt), Some (MList t))
      | _ => ([], None)
      end
    | XLog2 => (chk (n 0%nat) (to MInt), Some MInt)
    | XNot => (chk (n 0%nat) (to MInt), Some MBit)
    | XRange =>
      (match n 0%nat with
       | Some (r, Some t) =>
         if can_cast s t MInt then chk_all (firstn 2 (tl l)) (to MInt)
         else if is_list t then match n 1%nat with Some _ => [(r, DOperand)] | None => [] end
         else [(r, DOperand)]
       | _ => []
       end, Some (MList MInt))
    | XRepr => ([], Some MString)
    | XSetDagArg =>
      (chk (n 0%nat) (to MDag) ++ chk (n 1%nat) (fun t => to MInt t || to MString t), Some MDag)
    | XSetDagName =>
      (chk (n 0%nat) (to MDag) ++ chk (n 1%nat) (fun t => to MInt t || to MString t)
       ++ chk (n 2%nat) (to MString), Some MDag)
    | XSetDagOp => (chk (n 0%nat) (to MDag), Some MDag)
    | XSize => (chk (n 0%nat) (fun t => to MString t || is_list t || to MDag t), Some MInt)
    | XStrConcat => (chk_all l (to MString), Some MString)
    | XSubst =>
      match n 0%nat, n 1%nat, n 2%nat with
      | Some (rt, Some tt_), Some (rr, Some tr), Some (rv, Some tv) =>
        if to MString tv || is_record tv then
          ((if can_cast s tt_ tv then [] else [(rt, DOperand)])
           ++ (if can_cast s tr tv then [] else [(rr, DOperand)]), Some tv)
        else ([(rv, DOperand)], None)
      | _, _, _ => ([], None)
      end
    | XSubstr =>
      (chk (n 0%nat) (to MString) ++ chk (n 1%nat) (to MInt) ++ chk (n 2%nat) (to MInt), Some MString)
    | XTail =>
      match n 0%nat with
      | Some (r, Some t) => if is_list t then ([], Some t) else ([(r, DOperand)], Some MUnknown)
      | _ => ([], Some MUnknown)
      end
    | XToLower | XToUpper => (chk (n 0%nat) (to MString), Some MString)
    | XFilter | XFoldl | XForEach => ([], None)   (* handled in Indexer.v *)
    end.
End Post.
