(** PrepRun: additional observers of the preprocessor model (Prep.v is unchanged): the final state of a
    run (macro set at Eof) and the run with, for every delivered token, the raw tokens it covers. *)
From Coq Require Import List NArith Bool.
From TG.Gen Require Import GenTokens.
From TG.Model Require Import Chars Lexer Prep.
Import ListNotations.
Open Scope N_scope.

(** state in which Eof is delivered (same recursion as [prep_all]) *)
Fixpoint prep_final (fuel : nat) (st : pstate) (raw : list rtok) : pstate :=
  match fuel with
  | O => st
  | S n =>
      let '(k, len, st1, r1) := prep_next st raw in
      match k with
      | T_Eof => st1
      | T_Error => prep_final n (snd (take_error st1)) r1
      | _ => prep_final n st1 r1
      end
  end.
Definition prep_macros (s : text) : list text :=
  let raw := raw_lex s in macros (prep_final (S (S (List.length raw))) pinit raw).

(** [prep_all] with the covered raw tokens instead of their total byte length *)
Fixpoint prep_allx (fuel : nat) (st : pstate) (raw : list rtok) : list (TokenKind * list rtok * option any_err) :=
  match fuel with
  | O => []
  | S n =>
      let '(k, len, st1, r1) := prep_next st raw in
      let covered := firstn (List.length raw - List.length r1) raw in
      match k with
      | T_Eof => [(k, covered, None)]
      | T_Error => let '(e, st2) := take_error st1 in (k, covered, e) :: prep_allx n st2 r1
      | _ => (k, covered, None) :: prep_allx n st1 r1
      end
  end.

(** the runs on a raw token list with the fuel [prep_text] uses *)
Definition prep_run (raw : list rtok) := prep_all (S (S (List.length raw))) pinit raw.
Definition prep_runx (raw : list rtok) := prep_allx (S (S (List.length raw))) pinit raw.
Definition prep_run_macros (raw : list rtok) := macros (prep_final (S (S (List.length raw))) pinit raw).
