(** M-symbolmap: faithful state machine of `crates/ide/src/symbol_map.rs` and `symbol_map/*.rs`
    (group C03/C06/C17; imported by the groups C18/C19 and C05/C13).

    Representation choices (documented in design/notes-C06.md):
    - the seven `id_arena::Arena`s are lists of one uniform [entry] type (the common header
      name / define_loc / reference_locs plus a kind-specific [payload]); an id is the [N] index
      into the list (`Arena::alloc` appends, ids are never reused);
    - `HashMap`s are association lists with insert-replaces ([amap_insert]); `IndexMap`s are ordered
      association lists where a re-insert keeps the position and replaces the value (the same function);
    - `iset::IntervalMap<TextSize, SymbolId>` is a list of [(lo, hi, symbol_id)] kept sorted by (lo, hi)
      (the tree order of iset), insert replaces the value on an equal interval, a point query [p]
      yields the entries with [lo <= p < hi] in that order, a range query [a..b] those with
      [lo < b && a < hi]; both panic on an empty query like iset's `check_interval`;
    - every mutating call of the Rust API is one [op] (exactly the lines of the H3 op log,
      `ide::symbol_map::verif_take_oplog()`); `&mut` borrows (`record_mut(id)` followed by
      `record.add_parent(p)`) are two ops: the first sets the cursor [sm_cur], the second uses it;
    - `Type`s are not part of the op log; the four symbol kinds that carry one have a [typ : name]
      slot (the `Display` string, empty when unknown) so that the log can be extended without
      changing this interface;
    - `IndexCtx::error` is logged as well ([OpError]); the ranges are collected in [sm_diags].
    Executable definitions only; no proofs here. *)
From Coq Require Import List NArith Bool.
From TG.Model Require Import Chars.
Import ListNotations.
Open Scope N_scope.

Definition name := list N.
Definition fileid := N.

Record file_range := mkFR { fr_file : fileid; fr_lo : N; fr_hi : N }.

Definition fr_eqb (a b : file_range) : bool :=
  (fr_file a =? fr_file b) && (fr_lo a =? fr_lo b) && (fr_hi a =? fr_hi b).
Definition fr_is_empty (r : file_range) : bool := fr_hi r <=? fr_lo r.   (* TextRange::is_empty; lo <= hi by construction *)

Inductive sym_kind := KRecord | KTemplateArg | KRecordField | KVariable | KDefset | KMulticlass | KDefm.
Definition sym_kind_eqb (a b : sym_kind) : bool :=
  match a, b with
  | KRecord, KRecord | KTemplateArg, KTemplateArg | KRecordField, KRecordField | KVariable, KVariable
  | KDefset, KDefset | KMulticlass, KMulticlass | KDefm, KDefm => true
  | _, _ => false
  end.
Definition symbol_id := (sym_kind * N)%type.
Definition sid_eqb (a b : symbol_id) : bool := sym_kind_eqb (fst a) (fst b) && (snd a =? snd b).

Inductive record_kind := RKClass | RKDef.

(** kind-specific part of a symbol *)
Inductive payload :=
| PRecord (kind : record_kind) (targs : list (name * N)) (fields : list (name * N)) (parents : list N)
| PTemplateArg (typ : name)
| PRecordField (typ : name) (parent : N)
| PVariable (typ : name)
| PDefset (typ : name) (defs : list N)
| PMulticlass (targs : list (name * N)) (parents : list N)
| PDefm (parents : list N).

Record entry := mkEntry {
  e_name : name;
  e_def : file_range;               (* define_loc *)
  e_refs : list file_range;         (* reference_locs, in push order *)
  e_payload : payload }.

Definition ivl := (N * N * symbol_id)%type.      (* lo, hi, value *)

Record symbol_map := mkSM {
  sm_records : list entry;
  sm_targs : list entry;
  sm_fields : list entry;
  sm_vars : list entry;
  sm_defsets : list entry;
  sm_multiclasses : list entry;
  sm_defms : list entry;
  sm_name_to_class : list (name * N);
  sm_name_to_def : list (name * N);
  sm_name_to_multiclass : list (name * N);
  sm_name_to_defset : list (name * N);
  sm_file_syms : list (fileid * list symbol_id);     (* file_to_symbol_list *)
  sm_pos : list (fileid * list ivl);                 (* pos_to_symbol_map *)
  sm_cur : option symbol_id;                         (* target of the last `*_mut` borrow *)
  sm_diags : list file_range }.                      (* IndexCtx::diagnostics (ranges only) *)

Definition sm_empty : symbol_map := mkSM [] [] [] [] [] [] [] [] [] [] [] [] [] None [].

(** outcomes *)
Inductive sm_error :=
| EInvalidId (k : sym_kind)       (* `.expect("invalid … id")` *)
| EIntervalEmpty                  (* iset: "Interval is empty" *)
| EAnonymousNotDef                (* assert!(record.kind == RecordKind::Def) -- not reachable from an op *)
| ENoCursor                       (* a `record.add_*` line without the preceding `*_mut` line (malformed log) *)
| EIdMismatch                     (* the id in the log differs from the id the model allocates *)
| EOutOfFuel.
Inductive sres (A : Type) : Type := SOk (a : A) | SErr (e : sm_error).
Arguments SOk {A} a.
Arguments SErr {A} e.
Definition sbind {A B} (r : sres A) (f : A -> sres B) : sres B :=
  match r with SOk a => f a | SErr e => SErr e end.

(** ---- arenas *)
Definition get_arena (S : symbol_map) (k : sym_kind) : list entry :=
  match k with
  | KRecord => sm_records S | KTemplateArg => sm_targs S | KRecordField => sm_fields S
  | KVariable => sm_vars S | KDefset => sm_defsets S | KMulticlass => sm_multiclasses S
  | KDefm => sm_defms S
  end.

Definition set_arena (S : symbol_map) (k : sym_kind) (l : list entry) : symbol_map :=
  match k with
  | KRecord => mkSM l (sm_targs S) (sm_fields S) (sm_vars S) (sm_defsets S) (sm_multiclasses S) (sm_defms S)
                 (sm_name_to_class S) (sm_name_to_def S) (sm_name_to_multiclass S) (sm_name_to_defset S) (sm_file_syms S) (sm_pos S) (sm_cur S) (sm_diags S)
  | KTemplateArg => mkSM (sm_records S) l (sm_fields S) (sm_vars S) (sm_defsets S) (sm_multiclasses S) (sm_defms S)
                 (sm_name_to_class S) (sm_name_to_def S) (sm_name_to_multiclass S) (sm_name_to_defset S) (sm_file_syms S) (sm_pos S) (sm_cur S) (sm_diags S)
  | KRecordField => mkSM (sm_records S) (sm_targs S) l (sm_vars S) (sm_defsets S) (sm_multiclasses S) (sm_defms S)
                 (sm_name_to_class S) (sm_name_to_def S) (sm_name_to_multiclass S) (sm_name_to_defset S) (sm_file_syms S) (sm_pos S) (sm_cur S) (sm_diags S)
  | KVariable => mkSM (sm_records S) (sm_targs S) (sm_fields S) l (sm_defsets S) (sm_multiclasses S) (sm_defms S)
                 (sm_name_to_class S) (sm_name_to_def S) (sm_name_to_multiclass S) (sm_name_to_defset S) (sm_file_syms S) (sm_pos S) (sm_cur S) (sm_diags S)
  | KDefset => mkSM (sm_records S) (sm_targs S) (sm_fields S) (sm_vars S) l (sm_multiclasses S) (sm_defms S)
                 (sm_name_to_class S) (sm_name_to_def S) (sm_name_to_multiclass S) (sm_name_to_defset S) (sm_file_syms S) (sm_pos S) (sm_cur S) (sm_diags S)
  | KMulticlass => mkSM (sm_records S) (sm_targs S) (sm_fields S) (sm_vars S) (sm_defsets S) l (sm_defms S)
                 (sm_name_to_class S) (sm_name_to_def S) (sm_name_to_multiclass S) (sm_name_to_defset S) (sm_file_syms S) (sm_pos S) (sm_cur S) (sm_diags S)
  | KDefm => mkSM (sm_records S) (sm_targs S) (sm_fields S) (sm_vars S) (sm_defsets S) (sm_multiclasses S) l
                 (sm_name_to_class S) (sm_name_to_def S) (sm_name_to_multiclass S) (sm_name_to_defset S) (sm_file_syms S) (sm_pos S) (sm_cur S) (sm_diags S)
  end.

Definition set_name_to_class (S : symbol_map) (m : list (name * N)) : symbol_map :=
  mkSM (sm_records S) (sm_targs S) (sm_fields S) (sm_vars S) (sm_defsets S) (sm_multiclasses S) (sm_defms S)
       m (sm_name_to_def S) (sm_name_to_multiclass S) (sm_name_to_defset S) (sm_file_syms S) (sm_pos S) (sm_cur S) (sm_diags S).
Definition set_name_to_def (S : symbol_map) (m : list (name * N)) : symbol_map :=
  mkSM (sm_records S) (sm_targs S) (sm_fields S) (sm_vars S) (sm_defsets S) (sm_multiclasses S) (sm_defms S)
       (sm_name_to_class S) m (sm_name_to_multiclass S) (sm_name_to_defset S) (sm_file_syms S) (sm_pos S) (sm_cur S) (sm_diags S).
Definition set_name_to_multiclass (S : symbol_map) (m : list (name * N)) : symbol_map :=
  mkSM (sm_records S) (sm_targs S) (sm_fields S) (sm_vars S) (sm_defsets S) (sm_multiclasses S) (sm_defms S)
       (sm_name_to_class S) (sm_name_to_def S) m (sm_name_to_defset S) (sm_file_syms S) (sm_pos S) (sm_cur S) (sm_diags S).
Definition set_name_to_defset (S : symbol_map) (m : list (name * N)) : symbol_map :=
  mkSM (sm_records S) (sm_targs S) (sm_fields S) (sm_vars S) (sm_defsets S) (sm_multiclasses S) (sm_defms S)
       (sm_name_to_class S) (sm_name_to_def S) (sm_name_to_multiclass S) m (sm_file_syms S) (sm_pos S) (sm_cur S) (sm_diags S).
Definition set_file_syms (S : symbol_map) (m : list (fileid * list symbol_id)) : symbol_map :=
  mkSM (sm_records S) (sm_targs S) (sm_fields S) (sm_vars S) (sm_defsets S) (sm_multiclasses S) (sm_defms S)
       (sm_name_to_class S) (sm_name_to_def S) (sm_name_to_multiclass S) (sm_name_to_defset S) m (sm_pos S) (sm_cur S) (sm_diags S).
Definition set_pos (S : symbol_map) (m : list (fileid * list ivl)) : symbol_map :=
  mkSM (sm_records S) (sm_targs S) (sm_fields S) (sm_vars S) (sm_defsets S) (sm_multiclasses S) (sm_defms S)
       (sm_name_to_class S) (sm_name_to_def S) (sm_name_to_multiclass S) (sm_name_to_defset S) (sm_file_syms S) m (sm_cur S) (sm_diags S).
Definition set_cur (S : symbol_map) (c : option symbol_id) : symbol_map :=
  mkSM (sm_records S) (sm_targs S) (sm_fields S) (sm_vars S) (sm_defsets S) (sm_multiclasses S) (sm_defms S)
       (sm_name_to_class S) (sm_name_to_def S) (sm_name_to_multiclass S) (sm_name_to_defset S) (sm_file_syms S) (sm_pos S) c (sm_diags S).
Definition set_diags (S : symbol_map) (d : list file_range) : symbol_map :=
  mkSM (sm_records S) (sm_targs S) (sm_fields S) (sm_vars S) (sm_defsets S) (sm_multiclasses S) (sm_defms S)
       (sm_name_to_class S) (sm_name_to_def S) (sm_name_to_multiclass S) (sm_name_to_defset S) (sm_file_syms S) (sm_pos S) (sm_cur S) d.

Definition nth_N {A} (l : list A) (i : N) : option A := nth_error l (N.to_nat i).
Definition len_N {A} (l : list A) : N := N.of_nat (length l).

Fixpoint update_nth {A} (l : list A) (i : nat) (f : A -> A) : list A :=
  match l, i with
  | [], _ => []
  | x :: r, O => f x :: r
  | x :: r, S j => x :: update_nth r j f
  end.

(** `Arena::get(id)` *)
Definition get_entry (S : symbol_map) (s : symbol_id) : option entry := nth_N (get_arena S (fst s)) (snd s).
(** `Arena::get_mut(id)` followed by an in-place update *)
Definition update_entry (S : symbol_map) (s : symbol_id) (f : entry -> entry) : symbol_map :=
  set_arena S (fst s) (update_nth (get_arena S (fst s)) (N.to_nat (snd s)) f).
(** `Arena::alloc` / `Arena::next_id` *)
Definition next_id (S : symbol_map) (k : sym_kind) : N := len_N (get_arena S k).
Definition alloc (S : symbol_map) (k : sym_kind) (e : entry) : symbol_map * N :=
  (set_arena S k (get_arena S k ++ [e]), next_id S k).

(** ---- HashMap / IndexMap as association lists *)
Fixpoint amap_insert {V} (m : list (name * V)) (k : name) (v : V) : list (name * V) :=
  match m with
  | [] => [(k, v)]
  | (k', v') :: r => if list_eqb k' k then (k', v) :: r else (k', v') :: amap_insert r k v
  end.
Definition amap_get {V} (m : list (name * V)) (k : name) : option V := lookup m k.
Definition amap_values {V} (m : list (name * V)) : list V := map snd m.

Fixpoint fmap_get {V} (m : list (fileid * V)) (f : fileid) : option V :=
  match m with
  | [] => None
  | (f', v) :: r => if f' =? f then Some v else fmap_get r f
  end.
Fixpoint fmap_set {V} (m : list (fileid * V)) (f : fileid) (v : V) : list (fileid * V) :=
  match m with
  | [] => [(f, v)]
  | (f', v') :: r => if f' =? f then (f', v) :: r else (f', v') :: fmap_set r f v
  end.

(** ---- iset::IntervalMap *)
Definition ivl_lt (lo hi lo' hi' : N) : bool := (lo <? lo') || ((lo =? lo') && (hi <? hi')).
Fixpoint ivl_insert (m : list ivl) (lo hi : N) (v : symbol_id) : list ivl :=
  match m with
  | [] => [(lo, hi, v)]
  | (lo', hi', v') :: r =>
      if ivl_lt lo hi lo' hi' then (lo, hi, v) :: m
      else if (lo =? lo') && (hi =? hi') then (lo, hi, v) :: r
      else (lo', hi', v') :: ivl_insert r lo hi v
  end.
Definition ivl_contains (p : N) (e : ivl) : bool := let '(lo, hi, _) := e in (lo <=? p) && (p <? hi).
Definition ivl_overlaps (a b : N) (e : ivl) : bool := let '(lo, hi, _) := e in (lo <? b) && (a <? hi).
(** `values_overlap(p)` / `overlap(p)`: the query `p..=p` is never empty *)
Definition ivl_overlap_point (m : list ivl) (p : N) : list ivl := filter (ivl_contains p) m.
(** `iter(a..b)`: panics when `a >= b` *)
Definition ivl_iter (m : list ivl) (a b : N) : sres (list ivl) :=
  if b <=? a then SErr EIntervalEmpty else SOk (filter (ivl_overlaps a b) m).
(** `insert(range, v)`: panics when the range is empty *)
Definition ivl_insert_checked (m : list ivl) (lo hi : N) (v : symbol_id) : sres (list ivl) :=
  if hi <=? lo then SErr EIntervalEmpty else SOk (ivl_insert m lo hi v).

(** ---- immutable api *)
Definition symbol (S : symbol_map) (s : symbol_id) : sres entry :=
  match get_entry S s with Some e => SOk e | None => SErr (EInvalidId (fst s)) end.
Definition record (S : symbol_map) (id : N) : sres entry := symbol S (KRecord, id).
Definition template_arg (S : symbol_map) (id : N) : sres entry := symbol S (KTemplateArg, id).
Definition record_field (S : symbol_map) (id : N) : sres entry := symbol S (KRecordField, id).
Definition variable (S : symbol_map) (id : N) : sres entry := symbol S (KVariable, id).
Definition defset (S : symbol_map) (id : N) : sres entry := symbol S (KDefset, id).
Definition multiclass (S : symbol_map) (id : N) : sres entry := symbol S (KMulticlass, id).
Definition defm (S : symbol_map) (id : N) : sres entry := symbol S (KDefm, id).

Definition find_class (S : symbol_map) (n : name) : option N := amap_get (sm_name_to_class S) n.
Definition find_def (S : symbol_map) (n : name) : option N := amap_get (sm_name_to_def S) n.
Definition find_multiclass (S : symbol_map) (n : name) : option N := amap_get (sm_name_to_multiclass S) n.
Definition find_defset (S : symbol_map) (n : name) : option N := amap_get (sm_name_to_defset S) n.
(** HashMap iteration order is unspecified: compare as multisets *)
Definition iter_class (S : symbol_map) : list N := amap_values (sm_name_to_class S).
Definition iter_def (S : symbol_map) : list N := amap_values (sm_name_to_def S).

(** payload accessors (total: the empty answer for a payload of another kind) *)
Definition p_record_kind (p : payload) : option record_kind := match p with PRecord k _ _ _ => Some k | _ => None end.
Definition p_targs (p : payload) : list (name * N) :=
  match p with PRecord _ t _ _ => t | PMulticlass t _ => t | _ => [] end.
Definition p_fields (p : payload) : list (name * N) := match p with PRecord _ _ f _ => f | _ => [] end.
Definition p_parents (p : payload) : list N :=
  match p with PRecord _ _ _ ps => ps | PMulticlass _ ps => ps | PDefm ps => ps | _ => [] end.
Definition p_defs (p : payload) : list N := match p with PDefset _ ds => ds | _ => [] end.
Definition p_typ (p : payload) : name :=
  match p with PTemplateArg t | PRecordField t _ | PVariable t | PDefset t _ => t | _ => [] end.
Definition p_field_parent (p : payload) : option N := match p with PRecordField _ r => Some r | _ => None end.

(** `Symbol::name / define_loc / reference_locs`, `Record::iter_template_arg / iter_field / parent_list`, ... on ids *)
Definition sym_name (S : symbol_map) (s : symbol_id) : option name := option_map e_name (get_entry S s).
Definition sym_def (S : symbol_map) (s : symbol_id) : option file_range := option_map e_def (get_entry S s).
Definition sym_refs (S : symbol_map) (s : symbol_id) : option (list file_range) := option_map e_refs (get_entry S s).
Definition sym_kind_of (s : symbol_id) : sym_kind := fst s.
Definition record_kind_of (S : symbol_map) (id : N) : option record_kind :=
  match get_entry S (KRecord, id) with Some e => p_record_kind (e_payload e) | None => None end.
Definition record_targs (S : symbol_map) (id : N) : list (name * N) :=
  match get_entry S (KRecord, id) with Some e => p_targs (e_payload e) | None => [] end.
Definition record_fields (S : symbol_map) (id : N) : list (name * N) :=
  match get_entry S (KRecord, id) with Some e => p_fields (e_payload e) | None => [] end.
Definition record_parents (S : symbol_map) (id : N) : list N :=
  match get_entry S (KRecord, id) with Some e => p_parents (e_payload e) | None => [] end.
Definition multiclass_targs (S : symbol_map) (id : N) : list (name * N) :=
  match get_entry S (KMulticlass, id) with Some e => p_targs (e_payload e) | None => [] end.
Definition multiclass_parents (S : symbol_map) (id : N) : list N :=
  match get_entry S (KMulticlass, id) with Some e => p_parents (e_payload e) | None => [] end.
Definition defm_parents (S : symbol_map) (id : N) : list N :=
  match get_entry S (KDefm, id) with Some e => p_parents (e_payload e) | None => [] end.
Definition defset_defs (S : symbol_map) (id : N) : list N :=
  match get_entry S (KDefset, id) with Some e => p_defs (e_payload e) | None => [] end.
(** `Record::find_template_arg`, `Multiclass::find_template_arg` *)
Definition find_template_arg (e : entry) (n : name) : option N := amap_get (p_targs (e_payload e)) n.

(** `iter_symbols_in_file` *)
Definition iter_symbols_in_file (S : symbol_map) (f : fileid) : option (list symbol_id) := fmap_get (sm_file_syms S) f.

(** `iter_symbols_in_range` (with the empty-range guard of fix 751cf5a; [guard = false] is the code before it) *)
Definition iter_symbols_in_range_g (guard : bool) (S : symbol_map) (loc : file_range)
  : sres (option (list (file_range * symbol_id))) :=
  if guard && fr_is_empty loc then SOk None
  else match fmap_get (sm_pos S) (fr_file loc) with
       | None => SOk None
       | Some m =>
           sbind (ivl_iter m (fr_lo loc) (fr_hi loc)) (fun es =>
           SOk (Some (map (fun e : ivl => let '(lo, hi, v) := e in (mkFR (fr_file loc) lo hi, v)) es)))
       end.
Definition iter_symbols_in_range := iter_symbols_in_range_g true.

(** `find_symbol_at`: first value (in interval order) whose interval contains the position, then
    `self.symbol(id)` (which panics on an id that was never allocated) *)
Definition find_symbol_id_at (S : symbol_map) (f : fileid) (p : N) : option symbol_id :=
  match fmap_get (sm_pos S) f with
  | None => None
  | Some m => match ivl_overlap_point m p with
              | [] => None
              | (_, _, v) :: _ => Some v
              end
  end.
Definition find_symbol_at (S : symbol_map) (f : fileid) (p : N) : sres (option (symbol_id * entry)) :=
  match find_symbol_id_at S f p with
  | None => SOk None
  | Some s => sbind (symbol S s) (fun e => SOk (Some (s, e)))
  end.

(** `Record::find_field` / `Record::is_subclass_of` (after fix 1b571ae): recursion through `parent_list` with a
    `visited: &mut HashSet<RecordId>` threaded through -- each ancestor is searched once.  The set is a list;
    `visited.insert(p)` returning false = [p] already a member.  Fuel bounds the recursion DEPTH; the
    theorems show that (number of records + 1) is always enough, for every parent relation (even a cyclic one). *)
Definition vis_mem (p : N) (vis : list N) : bool := existsb (N.eqb p) vis.

Fixpoint find_field_in (fuel : nat) (S : symbol_map) (rid : N) (n : name) (visited : list N)
  : sres (option N * list N) :=
  match fuel with
  | O => SErr EOutOfFuel
  | Datatypes.S fuel' =>
      sbind (record S rid) (fun e =>
      match amap_get (p_fields (e_payload e)) n with
      | Some f => SOk (Some f, visited)
      | None =>
          (fix go (ps : list N) (vis : list N) : sres (option N * list N) :=
             match ps with
             | [] => SOk (None, vis)
             | p :: ps' =>
                 if vis_mem p vis then go ps' vis
                 else match find_field_in fuel' S p n (p :: vis) with
                      | SOk (Some f, vis') => SOk (Some f, vis')
                      | SOk (None, vis') => go ps' vis'
                      | SErr e => SErr e
                      end
             end) (p_parents (e_payload e)) visited
      end)
  end.
Definition find_field (fuel : nat) (S : symbol_map) (rid : N) (n : name) : sres (option N) :=
  sbind (find_field_in fuel S rid n []) (fun r => SOk (fst r)).

Fixpoint is_subclass_of_in (fuel : nat) (S : symbol_map) (rid other : N) (visited : list N) : sres (bool * list N) :=
  match fuel with
  | O => SErr EOutOfFuel
  | Datatypes.S fuel' =>
      sbind (record S rid) (fun e =>
      let ps := p_parents (e_payload e) in
      if existsb (N.eqb other) ps then SOk (true, visited)
      else (fix go (ps : list N) (vis : list N) : sres (bool * list N) :=
              match ps with
              | [] => SOk (false, vis)
              | p :: ps' =>
                  if vis_mem p vis then go ps' vis
                  else match is_subclass_of_in fuel' S p other (p :: vis) with
                       | SOk (true, vis') => SOk (true, vis')
                       | SOk (false, vis') => go ps' vis'
                       | SErr e => SErr e
                       end
              end) ps visited)
  end.
Definition is_subclass_of (fuel : nat) (S : symbol_map) (rid other : N) : sres bool :=
  sbind (is_subclass_of_in fuel S rid other []) (fun r => SOk (fst r)).

(** the same two functions BEFORE fix 1b571ae (an ancestor is searched once per inheritance path) *)
Fixpoint find_field_v0 (fuel : nat) (S : symbol_map) (rid : N) (n : name) : sres (option N) :=
  match fuel with
  | O => SErr EOutOfFuel
  | Datatypes.S fuel' =>
      sbind (record S rid) (fun e =>
      match amap_get (p_fields (e_payload e)) n with
      | Some f => SOk (Some f)
      | None =>
          (fix go (ps : list N) : sres (option N) :=
             match ps with
             | [] => SOk None
             | p :: ps' =>
                 match find_field_v0 fuel' S p n with
                 | SOk (Some f) => SOk (Some f)
                 | SOk None => go ps'
                 | SErr e => SErr e
                 end
             end) (p_parents (e_payload e))
      end)
  end.

(** number of invocations of the recursive function for one lookup: new and old version *)
Fixpoint find_field_calls (fuel : nat) (S : symbol_map) (rid : N) (n : name) (visited : list N) : nat * list N :=
  match fuel with
  | O => (1%nat, visited)
  | Datatypes.S fuel' =>
      match get_entry S (KRecord, rid) with
      | None => (1%nat, visited)
      | Some e =>
          match amap_get (p_fields (e_payload e)) n with
          | Some _ => (1%nat, visited)
          | None =>
              (fix go (ps : list N) (vis : list N) (acc : nat) : nat * list N :=
                 match ps with
                 | [] => (acc, vis)
                 | p :: ps' =>
                     if vis_mem p vis then go ps' vis acc
                     else let '(c, vis') := find_field_calls fuel' S p n (p :: vis) in
                          match find_field_in fuel' S p n (p :: vis) with
                          | SOk (None, _) => go ps' vis' (acc + c)%nat
                          | _ => ((acc + c)%nat, vis')
                          end
                 end) (p_parents (e_payload e)) visited 1%nat
          end
      end
  end.
Fixpoint find_field_calls_v0 (fuel : nat) (S : symbol_map) (rid : N) (n : name) : nat :=
  match fuel with
  | O => 1%nat
  | Datatypes.S fuel' =>
      match get_entry S (KRecord, rid) with
      | None => 1%nat
      | Some e =>
          match amap_get (p_fields (e_payload e)) n with
          | Some _ => 1%nat
          | None =>
              (fix go (ps : list N) (acc : nat) : nat :=
                 match ps with
                 | [] => acc
                 | p :: ps' =>
                     match find_field_v0 fuel' S p n with
                     | SOk None => go ps' (acc + find_field_calls_v0 fuel' S p n)%nat
                     | _ => (acc + find_field_calls_v0 fuel' S p n)%nat
                     end
                 end) (p_parents (e_payload e)) 1%nat
          end
      end
  end.

(** ---- mutable api: one constructor per logged call *)
Inductive op :=
| OpAddRecord (n : name) (k : record_kind) (loc : file_range) (is_global : bool) (id : N)
| OpAddAnonymousDef (n : name) (loc : file_range) (id : N)
| OpAddTemplateArg (n : name) (typ : name) (loc : file_range) (id : N)
| OpAddRecordField (n : name) (typ : name) (loc : file_range) (parent : N) (id : N)
| OpAddVariable (n : name) (typ : name) (loc : file_range) (id : N)
| OpAddDefset (n : name) (typ : name) (loc : file_range) (id : N)
| OpAddMulticlass (n : name) (loc : file_range) (id : N)
| OpAddDefm (n : name) (loc : file_range) (is_global : bool) (id : N)
| OpAddAnonymousDefm (n : name) (loc : file_range) (id : N)
| OpAddReference (s : symbol_id) (loc : file_range)
| OpRecordMut (id : N)
| OpDefsetMut (id : N)
| OpMulticlassMut (id : N)
| OpDefmMut (id : N)
| OpRecAddTemplateArg (n : name) (id : N)       (* record.add_template_arg *)
| OpRecAddField (n : name) (id : N)             (* record.add_record_field *)
| OpRecAddParent (id : N)                       (* record.add_parent *)
| OpDefsetAddDef (id : N)                       (* defset.add_def *)
| OpMcAddTemplateArg (n : name) (id : N)        (* multiclass.add_template_arg *)
| OpMcAddParent (id : N)                        (* multiclass.add_parent *)
| OpDefmAddParent (id : N)                      (* defm.add_parent *)
| OpError (loc : file_range).                   (* IndexCtx::error *)

(** `add_to_pos_to_symbol_map` *)
Definition add_to_pos (S : symbol_map) (loc : file_range) (s : symbol_id) : sres symbol_map :=
  if fr_is_empty loc then SOk S
  else
    let m := match fmap_get (sm_pos S) (fr_file loc) with Some m => m | None => [] end in
    sbind (ivl_insert_checked m (fr_lo loc) (fr_hi loc) s) (fun m' =>
    SOk (set_pos S (fmap_set (sm_pos S) (fr_file loc) m'))).

(** `file_to_symbol_list.entry(file).or_default().push(id)` *)
Definition push_file_sym (S : symbol_map) (f : fileid) (s : symbol_id) : symbol_map :=
  let l := match fmap_get (sm_file_syms S) f with Some l => l | None => [] end in
  set_file_syms S (fmap_set (sm_file_syms S) f (l ++ [s])).

Definition check_id (logged model : N) : sres unit := if logged =? model then SOk tt else SErr EIdMismatch.

(** the common shape of the `add_*` calls: alloc, name map, file list, interval map *)
Definition add_symbol (S : symbol_map) (k : sym_kind) (e : entry) (in_file_list : bool) (in_pos : bool) (logged : N)
  : sres symbol_map :=
  let '(S1, id) := alloc S k e in
  sbind (check_id logged id) (fun _ =>
  let S2 := if in_file_list then push_file_sym S1 (fr_file (e_def e)) (k, id) else S1 in
  if in_pos then add_to_pos S2 (e_def e) (k, id) else SOk S2).

Definition with_cur (S : symbol_map) (k : sym_kind) (f : entry -> entry) : sres symbol_map :=
  match sm_cur S with
  | Some (k', id) =>
      if sym_kind_eqb k k' then
        match get_entry S (k, id) with
        | Some _ => SOk (update_entry S (k, id) f)
        | None => SErr (EInvalidId k)
        end
      else SErr ENoCursor
  | None => SErr ENoCursor
  end.

Definition borrow_mut (S : symbol_map) (s : symbol_id) : sres symbol_map :=
  match get_entry S s with
  | Some _ => SOk (set_cur S (Some s))
  | None => SErr (EInvalidId (fst s))
  end.

Definition upd_payload (f : payload -> payload) (e : entry) : entry :=
  mkEntry (e_name e) (e_def e) (e_refs e) (f (e_payload e)).

Definition apply_op (S : symbol_map) (o : op) : sres symbol_map :=
  match o with
  | OpAddRecord n k loc is_global id =>
      let S1 := match k with
                | RKClass => set_name_to_class S (amap_insert (sm_name_to_class S) n (next_id S KRecord))
                | RKDef => set_name_to_def S (amap_insert (sm_name_to_def S) n (next_id S KRecord))
                end in
      add_symbol S1 KRecord (mkEntry n loc [] (PRecord k [] [] [])) is_global true id
  | OpAddAnonymousDef n loc id =>
      add_symbol S KRecord (mkEntry n loc [] (PRecord RKDef [] [] [])) false false id
  | OpAddTemplateArg n typ loc id =>
      add_symbol S KTemplateArg (mkEntry n loc [] (PTemplateArg typ)) false true id
  | OpAddRecordField n typ loc parent id =>
      add_symbol S KRecordField (mkEntry n loc [] (PRecordField typ parent)) false true id
  | OpAddVariable n typ loc id =>
      add_symbol S KVariable (mkEntry n loc [] (PVariable typ)) true true id
  | OpAddDefset n typ loc id =>
      let S1 := set_name_to_defset S (amap_insert (sm_name_to_defset S) n (next_id S KDefset)) in
      add_symbol S1 KDefset (mkEntry n loc [] (PDefset typ [])) true true id
  | OpAddMulticlass n loc id =>
      let S1 := set_name_to_multiclass S (amap_insert (sm_name_to_multiclass S) n (next_id S KMulticlass)) in
      add_symbol S1 KMulticlass (mkEntry n loc [] (PMulticlass [] [])) true true id
  | OpAddDefm n loc is_global id =>
      add_symbol S KDefm (mkEntry n loc [] (PDefm [])) is_global true id
  | OpAddAnonymousDefm n loc id =>
      add_symbol S KDefm (mkEntry n loc [] (PDefm [])) false false id
  | OpAddReference s loc =>
      match get_entry S s with
      | None => SErr (EInvalidId (fst s))
      | Some _ =>
          let S1 := update_entry S s (fun e => mkEntry (e_name e) (e_def e) (e_refs e ++ [loc]) (e_payload e)) in
          add_to_pos S1 loc s
      end
  | OpRecordMut id => borrow_mut S (KRecord, id)
  | OpDefsetMut id => borrow_mut S (KDefset, id)
  | OpMulticlassMut id => borrow_mut S (KMulticlass, id)
  | OpDefmMut id => borrow_mut S (KDefm, id)
  | OpRecAddTemplateArg n id =>
      with_cur S KRecord (upd_payload (fun p => match p with
        | PRecord k t f ps => PRecord k (amap_insert t n id) f ps | _ => p end))
  | OpRecAddField n id =>
      with_cur S KRecord (upd_payload (fun p => match p with
        | PRecord k t f ps => PRecord k t (amap_insert f n id) ps | _ => p end))
  | OpRecAddParent id =>
      with_cur S KRecord (upd_payload (fun p => match p with
        | PRecord k t f ps => PRecord k t f (ps ++ [id]) | _ => p end))
  | OpDefsetAddDef id =>
      with_cur S KDefset (upd_payload (fun p => match p with
        | PDefset ty ds => PDefset ty (ds ++ [id]) | _ => p end))
  | OpMcAddTemplateArg n id =>
      with_cur S KMulticlass (upd_payload (fun p => match p with
        | PMulticlass t ps => PMulticlass (amap_insert t n id) ps | _ => p end))
  | OpMcAddParent id =>
      with_cur S KMulticlass (upd_payload (fun p => match p with
        | PMulticlass t ps => PMulticlass t (ps ++ [id]) | _ => p end))
  | OpDefmAddParent id =>
      with_cur S KDefm (upd_payload (fun p => match p with
        | PDefm ps => PDefm (ps ++ [id]) | _ => p end))
  | OpError loc => SOk (set_diags S (sm_diags S ++ [loc]))
  end.

Fixpoint run_ops_from (S : symbol_map) (ops : list op) : sres symbol_map :=
  match ops with
  | [] => SOk S
  | o :: r => sbind (apply_op S o) (fun S' => run_ops_from S' r)
  end.
Definition run_ops (ops : list op) : sres symbol_map := run_ops_from sm_empty ops.

(** ---- handlers that only read the symbol map *)
(** `handlers/goto_definition.rs::exec` *)
Definition goto_definition (S : symbol_map) (f : fileid) (p : N) : sres (option file_range) :=
  sbind (find_symbol_at S f p) (fun r => SOk (option_map (fun se : symbol_id * entry => e_def (snd se)) r)).
(** `handlers/references.rs::exec` *)
Definition references (S : symbol_map) (f : fileid) (p : N) : sres (option (list file_range)) :=
  sbind (find_symbol_at S f p) (fun r => SOk (option_map (fun se : symbol_id * entry => e_refs (snd se)) r)).
