(** M-server (b): the lock protocol of crates/lsp/src/server.rs as a labelled transition system (C08, C11).

    Threads: the main loop, executing a script (the handlers of the incoming messages, in order), and an
    unbounded number of snapshot tasks ("workers"), each executing the straight-line synchronisation skeleton
    fixed when it is spawned.  Locks:
      V  the [Arc<RwLock<Vfs>>]: write-held by main ([vw]), read-held by workers ([wv]); a writer that found the
         lock busy is queued ([vwait]); whether a new reader may pass a queued writer is decided by the POLICY,
         an arbitrary function of the number of readers inside (constant true = reader preference, constant
         false = writer preference, the std futex implementation);
      Q  the salsa revision lock: held shared by a worker from spawn to the drop of its snapshot ([wq]),
         needed exclusively by every salsa input write of main and by the barrier [wait_for_snapshots]
         (salsa-0.16.1 runtime.rs: with_incremented_revision / synthetic_write take query_lock.write());
      P  the [published_files] mutex ([wp]).
    [out] is a ghost: the publications emitted so far, in order (the ClientSocket channel is FIFO).

    Every worker/main action that corresponds to a hook-H2 point of /repo (server.rs, from_proto.rs) is named
    after it; actions without a hook (guard drops, mutex, analysis calls, the publish call) are "unobserved"
    (see SchedTrace.v).  Executable definitions only; the theorems are in proofs/SchedProofs.v.
    The skeletons and the handler script below are re-derived from the CURRENT server.rs / from_proto.rs on every
    run by tools/translate/t_server.py (gen/GenServerSkel.v); proofs/SchedSource.v proves them equal. *)
From Coq Require Import List Bool Arith.
Import ListNotations.

Set Implicit Arguments.

(** call sites of [vfs.read()] in tasks (names of the hook points task.vfs_read.<site>) *)
Inductive site := SFilePos | SFile | SFileRange | SDefinition | SReferences | SDocumentLink | SDiagnostics.

(** main-loop hook points that are not lock operations *)
Inductive mpoint := PBarrierBefore | PVfsWriteBefore | PSetContentBefore | PVfsWriteReleased | PUpdateDiagnostics.

(** salsa input writes of one notification: set_file_content, the writes inside set_root_file
    (collect_sources: one per included file + include maps; their number is not observable), and the last
    one (set_source_root) *)
Inductive qtag := QContent | QRootInner | QRoot.

(** request kinds; [found] = the analysis returned Some (the closure takes the vfs a second time) *)
Inductive kind :=
| KHover | KCompletion | KDocumentSymbol | KFoldingRange | KInlayHint
| KDefinition (found : bool) | KReferences (found : bool) | KDocumentLink (found : bool).

Section Sched.
Context {P : Type}.                     (* payload of a publication *)

Inductive wact : Type :=
| WStart                                (* task.start *)
| WReqV (s : site)                      (* task.vfs_read.<s>: about to call vfs.read() *)
| WAcqV                                 (* vfs.read() returned (task.vfs_acquired) *)
| WRelV                                 (* the read guard is dropped *)
| WCompute                              (* analysis call / conversion: no synchronisation *)
| WReqP                                 (* task.published_files.lock: about to lock the mutex *)
| WAcqP
| WRelP
| WPub (p : P)                          (* client.publish_diagnostics(p) *)
| WDrop                                 (* the snapshot is dropped: Q released *)
| WEnd.                                 (* task.end: the JoinHandle resolves, the response is sent *)

Record worker := mkW { wv : bool; wp : bool; wq : bool; rem : list wact }.

Inductive mact : Type :=
| MNote (p : mpoint)
| MBar                                  (* host.wait_for_snapshots() returned (main.barrier.after) *)
| MVW                                   (* vfs.write() returned (main.vfs_write.acquired) *)
| MQW (t : qtag)                        (* one salsa input write completed *)
| MVWu                                  (* the write guard is dropped *)
| MSpawn (sk : list wact).              (* spawn_with_snapshot: host.analysis() + spawn_blocking (main.spawn) *)

Record st := mkSt { mpc : list mact; ws : list worker; vw : bool; vwait : bool; out : list P }.

Definition policy := nat -> bool.
Definition ReaderPref : policy := fun _ => true.
Definition WriterPref : policy := fun _ => false.

Inductive label := LMain | LMainWait | LWorker (i : nat).

Definition readers (l : list worker) : nat := length (filter wv l).
Definition p_held (l : list worker) : bool := existsb wp l.
Definition noq (l : list worker) : bool := forallb (fun w => negb (wq w)) l.

Fixpoint upd {A : Type} (i : nat) (x : A) (l : list A) : list A :=
  match l with
  | [] => []
  | y :: r => match i with O => x :: r | S j => y :: upd j x r end
  end.

Definition can_read (pol : policy) (s : st) : bool :=
  negb (vw s) && (negb (vwait s) || pol (readers (ws s))).
Definition can_write (s : st) : bool := negb (vw s) && (readers (ws s) =? 0).

(** one step of a worker: new local state and the publications it emits *)
Definition wstep (pol : policy) (s : st) (w : worker) : option (worker * list P) :=
  match rem w with
  | [] => None
  | a :: r =>
    match a with
    | WAcqV => if can_read pol s then Some (mkW true (wp w) (wq w) r, []) else None
    | WRelV => Some (mkW false (wp w) (wq w) r, [])
    | WAcqP => if negb (p_held (ws s)) then Some (mkW (wv w) true (wq w) r, []) else None
    | WRelP => Some (mkW (wv w) false (wq w) r, [])
    | WDrop => Some (mkW (wv w) (wp w) false r, [])
    | WPub p => Some (mkW (wv w) (wp w) (wq w) r, [p])
    | WStart | WReqV _ | WCompute | WReqP | WEnd => Some (mkW (wv w) (wp w) (wq w) r, [])
    end
  end.

Definition mstep (s : st) : option st :=
  match mpc s with
  | [] => None
  | a :: r =>
    match a with
    | MNote _ => Some (mkSt r (ws s) (vw s) (vwait s) (out s))
    | MBar | MQW _ => if noq (ws s) then Some (mkSt r (ws s) (vw s) (vwait s) (out s)) else None
    | MVW => if can_write s then Some (mkSt r (ws s) true false (out s)) else None
    | MVWu => Some (mkSt r (ws s) false (vwait s) (out s))
    | MSpawn sk => Some (mkSt r (ws s ++ [mkW false false true sk]) (vw s) (vwait s) (out s))
    end
  end.

(** main found the lock busy and queues as a writer *)
Definition mwait (s : st) : option st :=
  match mpc s with
  | MVW :: _ => if negb (vwait s) && negb (can_write s)
                then Some (mkSt (mpc s) (ws s) (vw s) true (out s)) else None
  | _ => None
  end.

Definition exec (pol : policy) (l : label) (s : st) : option st :=
  match l with
  | LMain => mstep s
  | LMainWait => mwait s
  | LWorker i =>
    match nth_error (ws s) i with
    | None => None
    | Some w =>
      match wstep pol s w with
      | None => None
      | Some (w', o) => Some (mkSt (mpc s) (upd i w' (ws s)) (vw s) (vwait s) (out s ++ o))
      end
    end
  end.

Fixpoint run (pol : policy) (tr : list label) (s : st) : option st :=
  match tr with
  | [] => Some s
  | l :: r => match exec pol l s with None => None | Some s' => run pol r s' end
  end.

Definition step (pol : policy) (s s' : st) : Prop := exists l, exec pol l s = Some s'.

Inductive reach (pol : policy) (s : st) : st -> Prop :=
| reach_refl : reach pol s s
| reach_step : forall s1 s2, reach pol s s1 -> step pol s1 s2 -> reach pol s s2.

Definition init (script : list mact) : st := mkSt script [] false false [].

Definition final (s : st) : Prop := mpc s = [] /\ forall w, In w (ws s) -> rem w = [].
Definition final_b (s : st) : bool :=
  match mpc s with [] => forallb (fun w => match rem w with [] => true | _ => false end) (ws s) | _ => false end.
Definition stuck (pol : policy) (s : st) : Prop := forall l, exec pol l s = None.

(* ------------------------------------------------------------------------------------------ *)
(** * Static discipline of skeletons and scripts (decidable; the theorems quantify over everything
      that passes these checks) *)

(** a task holds at most one of V/P at a time, releases what it takes, drops its snapshot exactly once *)
Fixpoint wf_from (v p q : bool) (l : list wact) : bool :=
  match l with
  | [] => negb v && negb p && negb q
  | a :: r =>
    match a with
    | WAcqV => negb v && negb p && wf_from true p q r
    | WRelV => v && wf_from false p q r
    | WAcqP => negb v && negb p && wf_from v true q r
    | WRelP => p && wf_from v false q r
    | WDrop => q && wf_from v p false r
    | _ => wf_from v p q r
    end
  end.
Definition wf_skel (sk : list wact) : bool := wf_from false false true sk.
Definition wf_worker (w : worker) : bool := wf_from (wv w) (wp w) (wq w) (rem w).

(** the main script: [h] = main holds V exclusively, [nw] = no live snapshot is guaranteed *)
Fixpoint script_ok (h nw : bool) (l : list mact) : bool :=
  match l with
  | [] => negb h
  | a :: r =>
    match a with
    | MNote _ => script_ok h nw r
    | MBar | MQW _ => implb h nw && script_ok h true r
    | MVW => negb h && script_ok true nw r
    | MVWu => h && script_ok false nw r
    | MSpawn sk => wf_skel sk && script_ok h false r
    end
  end.

(** publications of a skeleton / still to come from a script *)
Fixpoint pubs_of (l : list wact) : list P :=
  match l with [] => [] | WPub p :: r => p :: pubs_of r | _ :: r => pubs_of r end.
Fixpoint script_pubs (l : list mact) : list P :=
  match l with [] => [] | MSpawn sk :: r => pubs_of sk ++ script_pubs r | _ :: r => script_pubs r end.

(** a task publishes only while it holds its snapshot *)
Fixpoint pubs_before_drop (l : list wact) : bool :=
  match l with
  | [] => true
  | WDrop :: r => match pubs_of r with [] => true | _ => false end
  | _ :: r => pubs_before_drop r
  end.

(** a publishing task is spawned only when no snapshot is live *)
Fixpoint pub_ok (nw : bool) (l : list mact) : bool :=
  match l with
  | [] => true
  | a :: r =>
    match a with
    | MBar | MQW _ => pub_ok true r
    | MSpawn sk => pubs_before_drop sk && (match pubs_of sk with [] => true | _ => nw end) && pub_ok false r
    | _ => pub_ok nw r
    end
  end.

(* ------------------------------------------------------------------------------------------ *)
(** * The skeletons of server.rs (validated against hook-H2 traces of the real server by checks/C08.py) *)

(** from_proto::{file_pos,file,file_range}: the guard is a local of the helper; the line index of the document
    (a salsa query) is computed while it is held *)
Definition lookup (s : site) : list wact := [WReqV s; WAcqV; WCompute; WRelV].
Definition tail : list wact := [WDrop; WEnd].
(** second acquisition in the closure body: held until the closure returns; [c] = a salsa query (line_index of
    the target file) is evaluated under the guard (definition, references; not document_link) *)
Definition convert (s : site) (c : bool) : list wact :=
  [WReqV s; WAcqV] ++ (if c then [WCompute] else []) ++ [WRelV].
Definition req1 (s : site) : list wact := WStart :: lookup s ++ [WCompute] ++ tail.
Definition req2 (s s2 : site) (c found : bool) : list wact :=
  WStart :: lookup s ++ [WCompute] ++ (if found then convert s2 c else []) ++ tail.
(** one iteration of the publish loop of update_diagnostics (line_index of the file, then the vfs for its path) *)
Definition pub1 (p : P) : list wact := [WCompute; WReqV SDiagnostics; WAcqV; WPub p; WRelV].
Definition diag (pubs : list P) : list wact :=
  [WStart; WCompute; WReqP; WAcqP; WRelP] ++ flat_map pub1 pubs ++ tail.

Definition skeleton (k : kind) : list wact :=
  match k with
  | KHover | KCompletion => req1 SFilePos
  | KDocumentSymbol | KFoldingRange => req1 SFile
  | KInlayHint => req1 SFileRange
  | KDefinition f => req2 SFilePos SDefinition true f
  | KReferences f => req2 SFilePos SReferences true f
  | KDocumentLink f => req2 SFile SDocumentLink false f
  end.

(** what the main loop does for one incoming message *)
Inductive item :=
| INotif (k : nat) (pubs : list P)      (* didOpen / didChange; k = unobservable salsa writes inside set_root_file *)
| IReq (kd : kind).

Fixpoint inner (k : nat) : list mact := match k with O => [] | S j => MQW QRootInner :: inner j end.

(** Server::set_file_content + update_diagnostics after fix 0d12b07 *)
Definition handler (k : nat) (pubs : list P) : list mact :=
  [MNote PBarrierBefore; MBar; MNote PVfsWriteBefore; MVW; MNote PSetContentBefore; MQW QContent]
  ++ inner k ++
  [MQW QRoot; MVWu; MNote PVfsWriteReleased; MNote PUpdateDiagnostics; MSpawn (diag pubs)].

(** the same before the fix (no barrier) *)
Definition handler_old (k : nat) (pubs : list P) : list mact :=
  [MNote PVfsWriteBefore; MVW; MNote PSetContentBefore; MQW QContent]
  ++ inner k ++
  [MQW QRoot; MVWu; MNote PVfsWriteReleased; MNote PUpdateDiagnostics; MSpawn (diag pubs)].

Definition block (it : item) : list mact :=
  match it with INotif k pubs => handler k pubs | IReq kd => [MSpawn (skeleton kd)] end.
Definition block_old (it : item) : list mact :=
  match it with INotif k pubs => handler_old k pubs | IReq kd => [MSpawn (skeleton kd)] end.

Definition script_of (items : list item) : list mact := flat_map block items.
Definition script_old (items : list item) : list mact := flat_map block_old items.

(** a task that still has business with the published_files mutex (holds it, or will take/release it) *)
Definition isP (a : wact) : bool := match a with WAcqP | WRelP => true | _ => false end.
Definition usesP (l : list wact) : bool := existsb isP l.
Definition Pind (w : worker) : bool := usesP (rem w) || wp w.

(** termination measure: actions still to be executed by anybody (+1 while main may still queue) *)
Definition cost (a : mact) : nat :=
  match a with MSpawn sk => 1 + length sk | MVW => 2 | _ => 1 end.
Fixpoint mcost (l : list mact) : nat := match l with [] => 0 | a :: r => cost a + mcost r end.
Fixpoint wcost (l : list worker) : nat := match l with [] => 0 | w :: r => length (rem w) + wcost r end.
Definition measure (s : st) : nat := mcost (mpc s) + wcost (ws s) + (if vwait s then 0 else 1).

End Sched.

Arguments wact : clear implicits.
Arguments worker : clear implicits.
Arguments mact : clear implicits.
Arguments st : clear implicits.
Arguments item : clear implicits.
