(** M-host, part 1 (C16, C07, C12): hand model of crates/ide/src/file_system.rs
    ([FileSystem] as implemented by lsp::vfs::Vfs and by the harness' MemFs, [collect_sources],
    [list_includes], [resolve_include_file]) and of the three salsa inputs of crates/ide/src/db.rs.

    Abstraction of the parse (DESIGN A.3): the text of a file is abstracted to a [content]:
    a tag identifying the text and the ordered list of its [item]s in document order
    (= pre-order of [SyntaxNode::descendants]):
      [IInc sid reached tgt]  an [ast::Include] node; [sid] is its text range (the [IncludeId] is the
                              [SyntaxNodePtr] = kind + range); [tgt = Some (s, lr)] when the node has a
                              string child with value [s] whose range without trivia is [lr] (the range
                              of the document link), [None] for [include] without a file name;
                              [reached] says whether the indexer's traversal arrives at the statement
                              (false only below an early [?] return of index.rs, DESIGN appendix D);
      [IDecl name]            a declaration that appears in the outline of the file (a class).
    Paths are abstract: any type with a decidable equality, [parent] and [join] (class [PathAlg]);
    the extracted instance uses lists of segments.  The disk is static ([world]).
    One Coq function per Rust function, same order of effects; [Panic]/[OutOfFuel] are explicit. *)
From Coq Require Import List NArith Bool.
Import ListNotations.
Open Scope N_scope.

Definition rng := (N * N)%type.
Definition rng_eqb (a b : rng) : bool := (fst a =? fst b) && (snd a =? snd b).

Inductive panic :=
| PUnsetContent      (* salsa: read of file_content(f) that was never set *)
| PNoPath            (* FileSet::path_for_file: id_to_path[file_id] on an unknown id *)
| PNoParent          (* file_path.parent().expect("file dir not found") *)
| PUnsetIncludeMap   (* salsa: read of resolved_include_map(f) that was never set *)
| PNoSourceRoot.     (* salsa: read of source_root() before the first set_source_root *)

Inductive outcome (A : Type) :=
| Done (a : A)
| OutOfFuel
| Panic (why : panic).
Arguments Done {A} a.
Arguments OutOfFuel {A}.
Arguments Panic {A} why.

Class PathAlg (path istr : Type) := {
  path_eqb : path -> path -> bool;
  parent : path -> option path;          (* Path::parent *)
  join : path -> istr -> path            (* PathBuf::join(include string) *)
}.

Inductive item (istr : Type) :=
| IInc (sid : rng) (reached : bool) (tgt : option (istr * rng))
| IDecl (name : N).
Arguments IInc {istr} sid reached tgt.
Arguments IDecl {istr} name.

Record content (istr : Type) := { c_tag : N; c_items : list (item istr) }.
Arguments c_tag {istr} c.
Arguments c_items {istr} c.

(** the static part of a session: the on-disk files and $INCLUDE_DIR (0 or 1 directory in the code;
    any list here) *)
Record world (path istr : Type) := { disk : path -> option (content istr); extra : list path }.
Arguments disk {path istr} w.
Arguments extra {path istr} w.

Section Includes.
Context {path istr : Type} {PA : PathAlg path istr}.
Notation content := (content istr).
Notation item := (item istr).
Notation world := (world path istr).

(** ** FileSystem: FileSet + next id + open documents (Vfs; MemFs has no open documents but its
    [contents] map is disk overlaid by what the harness wrote) + the log of read_content calls *)
Record fsys := {
  ids : list (path * N);              (* FileSet, newest first; ids are allocated 0,1,2,... *)
  next : N;
  opened : list (path * content);     (* Vfs::open_documents, newest first *)
  rlog : list path                    (* read_content calls, newest first (observed via MemFs) *)
}.

Definition fs_init : fsys := {| ids := []; next := 0; opened := []; rlog := [] |}.

Fixpoint assoc {B : Type} (p : path) (l : list (path * B)) : option B :=
  match l with
  | [] => None
  | (q, b) :: r => if path_eqb q p then Some b else assoc p r
  end.

Fixpoint rassoc (f : N) (l : list (path * N)) : option path :=
  match l with
  | [] => None
  | (q, g) :: r => if g =? f then Some q else rassoc f r
  end.

Definition file_for_path (fs : fsys) (p : path) : option N := assoc p (ids fs).
Definition path_for_file (fs : fsys) (f : N) : option path := rassoc f (ids fs).

(** Vfs::assign_or_get_file_id *)
Definition assign (fs : fsys) (p : path) : N * fsys :=
  match file_for_path fs p with
  | Some f => (f, fs)
  | None => (next fs, {| ids := (p, next fs) :: ids fs; next := next fs + 1;
                         opened := opened fs; rlog := rlog fs |})
  end.

(** Vfs::set_open_document *)
Definition set_open (fs : fsys) (p : path) (c : content) : fsys :=
  {| ids := ids fs; next := next fs; opened := (p, c) :: opened fs; rlog := rlog fs |}.

(** Vfs::read_content: open documents first, then the disk *)
Definition read (w : world) (fs : fsys) (p : path) : option content :=
  match assoc p (opened fs) with
  | Some c => Some c
  | None => disk w p
  end.

Definition log_read (fs : fsys) (p : path) : fsys :=
  {| ids := ids fs; next := next fs; opened := opened fs; rlog := p :: rlog fs |}.

(** ** the three salsa inputs *)
Record inputs := {
  fc : N -> option content;                       (* file_content *)
  rim : N -> option (list (rng * N));             (* resolved_include_map, in insertion order *)
  sroot : option (list (N * path) * N)            (* source_root: FileSet (newest first), root *)
}.

Definition db_init : inputs := {| fc := fun _ => None; rim := fun _ => None; sroot := None |}.

Definition set_fc (db : inputs) (f : N) (c : content) : inputs :=
  {| fc := fun g => if g =? f then Some c else fc db g; rim := rim db; sroot := sroot db |}.
Definition set_rim (db : inputs) (f : N) (m : list (rng * N)) : inputs :=
  {| fc := fc db; rim := fun g => if g =? f then Some m else rim db g; sroot := sroot db |}.
Definition set_sroot (db : inputs) (r : list (N * path) * N) : inputs :=
  {| fc := fc db; rim := rim db; sroot := Some r |}.

(** HashMap<IncludeId, FileId> filled by successive [insert]s: the last insertion of a key wins *)
Fixpoint im_get (sid : rng) (m : list (rng * N)) : option N :=
  match m with
  | [] => None
  | (s, f) :: r =>
      match im_get sid r with
      | Some g => Some g
      | None => if rng_eqb s sid then Some f else None
      end
  end.

(** list_includes: the Include descendants that have a file name, in document order *)
Fixpoint list_includes (its : list item) : list (rng * istr) :=
  match its with
  | [] => []
  | IInc sid _ (Some (s, _)) :: r => (sid, s) :: list_includes r
  | _ :: r => list_includes r
  end.

(** resolve_include_file: first directory whose candidate can be read *)
Fixpoint resolve (w : world) (fs : fsys) (db : inputs) (s : istr) (dirs : list path)
  : fsys * inputs * option N :=
  match dirs with
  | [] => (fs, db, None)
  | d :: r =>
      let cand := join d s in
      let fs1 := log_read fs cand in
      match read w fs cand with
      | Some c =>
          let '(f, fs2) := assign fs1 cand in
          (fs2, set_fc db f c, Some f)
      | None => resolve w fs1 db s r
      end
  end.

(** the [for (include_id, include_path) in list_includes(..)] loop of collect_sources:
    returns the (id, resolved file) pairs in statement order (= the insertions into include_map
    and the pushes onto the queue) *)
Fixpoint resolve_all (w : world) (fs : fsys) (db : inputs) (dirs : list path)
         (incs : list (rng * istr)) : fsys * inputs * list (rng * N) :=
  match incs with
  | [] => (fs, db, [])
  | (sid, s) :: r =>
      let '(fs1, db1, o) := resolve w fs db s dirs in
      let '(fs2, db2, l) := resolve_all w fs1 db1 dirs r in
      (fs2, db2, match o with Some f => (sid, f) :: l | None => l end)
  end.

Definition fset_mem (f : N) (fset : list (N * path)) : bool :=
  existsb (fun x => fst x =? f) fset.

(** collect_sources: the [while let Some(file_id) = files.pop_front()] loop; [fset] is the FileSet
    being built (newest first) *)
Fixpoint collect (fuel : nat) (w : world) (fs : fsys) (db : inputs) (queue : list N)
         (fset : list (N * path)) : outcome (fsys * inputs * list (N * path)) :=
  match queue with
  | [] => Done (fs, db, fset)
  | f :: q =>
      match fuel with
      | O => OutOfFuel
      | S n =>
          if fset_mem f fset then collect n w fs db q fset
          else
            match fc db f with                         (* db.parse(file_id) *)
            | None => Panic PUnsetContent
            | Some c =>
                match path_for_file fs f with
                | None => Panic PNoPath
                | Some p =>
                    match parent p with
                    | None => Panic PNoParent
                    | Some d =>
                        let '(fs', db', l) :=
                          resolve_all w fs db (d :: extra w) (list_includes (c_items c)) in
                        collect n w fs' (set_rim db' f l) (q ++ map snd l) ((f, p) :: fset)
                    end
                end
            end
      end
  end.

(** AnalysisHost::set_root_file *)
Definition set_root_file (fuel : nat) (w : world) (fs : fsys) (db : inputs) (root : N)
  : outcome (fsys * inputs) :=
  match collect fuel w fs db [root] [] with
  | Done (fs', db', fset) => Done (fs', set_sroot db' (fset, root))
  | OutOfFuel => OutOfFuel
  | Panic e => Panic e
  end.

End Includes.
