(** Combinators for the translated source of crates/ide/src/index/bang_operator.rs (coq/gen/GenBangOps.v, translator
    tools/translate/t_bangops.py; helper of builder "lexprep").  The rendering works on the state [Scope.st] and in the
    monad [Scope.M] of the hand model (group scope; only imported).  Representation (trusted, see
    design/notes-translator-bangops.md):
    - an `ast::BangOperator` node is the triple of what its typed accessors deliver on a Core tree:
      `r#type()` (the annotation with the range of its syntax node), `values()`, `syntax().text_range()`;
    - a `Vec<T>` and the iterator `vec.into_iter()` are the list; `it.next()` is [hd_error] of the current list, the
      iterator variable continues as [tl]; `take(k)` = [firstn k]; `first()` = [hd_error]; `get(k)` = [nth_error];
    - `std::ops::RangeBounds<usize>`: the pair (start_bound, end_bound) of the three range literal forms
      `a..` / `a..=b` / `a..b`;
    - `iter.map(|x| ..).collect::<Vec<_>>()` with an effectful closure = [collectM] (left to right).
    Executable definitions only. *)
From Coq Require Import List NArith Bool.
From TG.Model Require Import CoreAst Scope.
Import ListNotations.
Open Scope N_scope.
Open Scope ix_scope.

(** std::ops::Bound<&usize> *)
Inductive bound : Set := Included (n : nat) | Excluded (n : nat) | Unbounded.
(** impl RangeBounds<usize> for RangeFrom / RangeInclusive / Range *)
Record range_bounds : Set := mkRB { start_bound : bound; end_bound : bound }.

(** &ast::BangOperator *)
Record bang_node : Type := mkBang { bn_annot : option (ty * rng); bn_values : list value; bn_range : rng }.

(** open recursion: what `value.index(ctx)`, `typ.index(ctx)` (the impls of index.rs for ast::Value / ast::Type) and
    `utils::identifier(&identifier, ctx)` do; one parameter of every rendering *)
Record ix_env : Type := mkIx {
  ix_Value : value -> M mty;
  ix_Type : ty -> M mty;
  utils_identifier : ident -> M (name * rng) }.

(** `.into_iter().map(|x| f(x, ctx)).collect()` *)
Fixpoint collectM {A B} (f : A -> M B) (l : list A) : M (list B) :=
  match l with
  | [] => ret []
  | x :: r => y <- f x ;; ys <- collectM f r ;; ret (y :: ys)
  end.

Definition is_some {A} (o : option A) : bool := match o with Some _ => true | None => false end.
