(** ScanMonad: the hand-written part of the SHALLOW embedding in which tools/translate/t_lexer.py renders
    crates/syntax/src/lexer.rs (coq/gen/GenLexer.v, regenerated from the sources on every run).

    Defined here ONCE (trusted / modelled, like Chars.v before):
    - the state of `Lexer`: the unscanny `Scanner` (string + cursor, kept as the text before / after the
      cursor) and the one-slot `error` field;
    - a state monad with early exit (`return`), explicit Panic (`unreachable!()`) and explicit OutOfFuel;
    - the unscanny 0.1.0 API used by the lexer (eat, eat_if, eat_while, eat_until, peek, at, done, cursor,
      from, get, jump; patterns: char, &str, predicate), byte offsets with `snap` to a char boundary;
    - loops as fuelled iteration (fuel = characters after the cursor + 1 at loop entry);
    - the Rust std functions used by `interpret_number` (str::strip_prefix, str::starts_with(char),
      u64::from_str_radix, str::parse::<u64 / i64>, `as i64`) and the char predicates (Chars.v).
    Everything else of the lexer is GENERATED. *)
From Coq Require Import List NArith ZArith Bool String.
From TG.Gen Require Import GenTokens.
From TG.Model Require Import Chars.
Import ListNotations.
Open Scope N_scope.

(** * Lexer state *)
Record scanner := mk_scanner { sc_before : text; sc_after : text }.
Record lx := mk_lx { l_s : scanner; l_error : option string }.

Definition scanner_new (t : text) : scanner := mk_scanner [] t.
Definition sc_string (s : scanner) : text := sc_before s ++ sc_after s.
Definition sc_cursor (s : scanner) : N := bytes (sc_before s).

(** split a string at byte offset [n], snapping DOWN to a char boundary (unscanny `snap`) *)
Fixpoint split_b (n : N) (t : text) : text * text :=
  match t with
  | [] => ([], [])
  | c :: r => if utf8_len c <=? n then let '(a, b) := split_b (n - utf8_len c) r in (c :: a, b) else ([], t)
  end.

(** * The monad *)
Inductive res (A : Type) : Type :=
| Norm (a : A)            (* normal completion *)
| Ret (k : TokenKind)     (* `return k;` travelling to the function boundary *)
| Panic                   (* unreachable!() *)
| Oof.                    (* a loop ran out of fuel (shown unreachable) *)
Arguments Norm {A} a.
Arguments Ret {A} k.
Arguments Panic {A}.
Arguments Oof {A}.

Definition M (A : Type) : Type := lx -> res A * lx.
Definition ret {A} (a : A) : M A := fun st => (Norm a, st).
Definition bind {A B} (m : M A) (f : A -> M B) : M B :=
  fun st => match m st with
            | (Norm a, st') => f a st'
            | (Ret k, st') => (Ret k, st')
            | (Panic, st') => (Panic, st')
            | (Oof, st') => (Oof, st')
            end.
Definition early {A} (k : TokenKind) : M A := fun st => (Ret k, st).
Definition m_unreachable {A} : M A := fun st => (Panic, st).
(** function boundary: `return k` becomes the value *)
Definition fn_body (m : M TokenKind) : M TokenKind :=
  fun st => match m st with (Ret k, st') => (Norm k, st') | r => r end.

Declare Scope m_scope.
Delimit Scope m_scope with m.
Notation "x <- m ;; k" := (bind m (fun x => k)) (at level 61, m at next level, right associativity) : m_scope.
Notation "m ;;; k" := (bind m (fun _ => k)) (at level 61, right associativity) : m_scope.

(** * Loops: `loop { .. }` / `while c { .. }` over the mutable locals [S] *)
Inductive ctl (S : Type) : Type := Continue (s : S) | Break (s : S).
Arguments Continue {S} s.
Arguments Break {S} s.
Fixpoint m_loop {S} (fuel : nat) (body : S -> M (ctl S)) (s : S) : M S :=
  match fuel with
  | O => fun st => (Oof, st)
  | Datatypes.S n => bind (body s) (fun c => match c with Continue s' => m_loop n body s' | Break s' => ret s' end)
  end.
Definition loop_fuel : M nat := fun st => (Norm (Datatypes.S (List.length (sc_after (l_s st)))), st).

(** * Field access *)
Definition set_error (e : option string) : M unit := fun st => (Norm tt, mk_lx (l_s st) e).
Definition take_error_field : M (option string) := fun st => (Norm (l_error st), mk_lx (l_s st) None).
Definition with_scanner {A} (f : scanner -> A * scanner) : M A :=
  fun st => let '(a, s') := f (l_s st) in (Norm a, mk_lx s' (l_error st)).

(** * unscanny::Scanner *)
Definition s_cursor : M N := with_scanner (fun s => (sc_cursor s, s)).
Definition s_done : M bool := with_scanner (fun s => (match sc_after s with [] => true | _ => false end, s)).
Definition s_peek : M (option N) := with_scanner (fun s => (match sc_after s with c :: _ => Some c | [] => None end, s)).
Definition s_eat : M (option N) :=
  with_scanner (fun s => match sc_after s with
                         | c :: r => (Some c, mk_scanner (sc_before s ++ [c]) r)
                         | [] => (None, s) end).
(** patterns: a char, a string, a predicate on chars *)
Definition s_at_pred (p : N -> bool) : M bool :=
  with_scanner (fun s => (match sc_after s with c :: _ => p c | [] => false end, s)).
Definition s_eat_if_pred (p : N -> bool) : M bool :=
  with_scanner (fun s => match sc_after s with
                         | c :: r => if p c then (true, mk_scanner (sc_before s ++ [c]) r) else (false, s)
                         | [] => (false, s) end).
Definition s_eat_if_char (x : N) : M bool := s_eat_if_pred (N.eqb x).
Fixpoint strip_prefix (p t : text) : option text :=
  match p, t with
  | [], _ => Some t
  | x :: p', y :: t' => if x =? y then strip_prefix p' t' else None
  | _ :: _, [] => None
  end.
Definition s_eat_if_str (p : text) : M bool :=
  with_scanner (fun s => match strip_prefix p (sc_after s) with
                         | Some r => (true, mk_scanner (sc_before s ++ p) r)
                         | None => (false, s) end).
Definition s_eat_while (p : N -> bool) : M unit :=
  with_scanner (fun s => let '(a, r) := eat_while p (sc_after s) in (tt, mk_scanner (sc_before s ++ a) r)).
Definition s_eat_until_pred (p : N -> bool) : M unit :=
  with_scanner (fun s => let '(a, r) := eat_until p (sc_after s) in (tt, mk_scanner (sc_before s ++ a) r)).
(** eat_until(&str): `while !done && pat.matches(after).is_none() { eat }` *)
Fixpoint until_str (p : text) (t : text) : text * text :=
  match t with
  | [] => ([], [])
  | c :: r => match strip_prefix p t with
              | Some _ => ([], t)
              | None => let '(a, b) := until_str p r in (c :: a, b)
              end
  end.
Definition s_eat_until_str (p : text) : M unit :=
  with_scanner (fun s => let '(a, r) := until_str p (sc_after s) in (tt, mk_scanner (sc_before s ++ a) r)).
Definition s_from (start : N) : M text := with_scanner (fun s => (snd (split_b start (sc_before s)), s)).
Definition s_get (lo hi : N) : M text :=
  with_scanner (fun s => let '(a, rest) := split_b lo (sc_string s) in (fst (split_b (hi - bytes a) rest), s)).
Definition s_jump (target : N) : M unit :=
  with_scanner (fun s => let '(a, b) := split_b target (sc_string s) in (tt, mk_scanner a b)).

(** * `match x { "lit" => K, ... , _ => d }` on a string *)
Fixpoint str_lookup {A} (tbl : list (text * A)) (k : text) : option A :=
  match tbl with
  | [] => None
  | (k', v) :: r => if list_eqb k' k then Some v else str_lookup r k
  end.

(** * Option<char> patterns *)
Definition opt_is (v : option N) (c : N) : bool := match v with Some d => d =? c | None => false end.
Definition opt_some (v : option N) : bool := match v with Some _ => true | None => false end.
Definition opt_none {A} (v : option A) : bool := match v with Some _ => false | None => true end.
Definition opt_get (v : option N) : N := match v with Some d => d | None => 0 end.

(** * Rust std used by interpret_number *)
Definition str_starts_with_char (c : N) (t : text) : bool := match t with d :: _ => d =? c | [] => false end.
Definition digit_of (radix : N) (c : N) : option N :=
  let v := if is_ascii_digit c then Some (c - 48)
           else if (97 <=? c) && (c <=? 122) then Some (c - 97 + 10)
           else if (65 <=? c) && (c <=? 90) then Some (c - 65 + 10) else None in
  match v with Some d => if d <? radix then Some d else None | None => None end.
(** digits in [radix] with overflow check against [bound] (exclusive); the empty string is an error *)
Fixpoint digits_value (radix bound : N) (acc : N) (ds : text) : option N :=
  match ds with
  | [] => Some acc
  | c :: r => match digit_of radix c with
              | Some d => let v := acc * radix + d in if bound <=? v then None else digits_value radix bound v r
              | None => None
              end
  end.
Definition two64 : N := 18446744073709551616.
Definition two63 : N := 9223372036854775808.
(** u64::from_str_radix / str::parse::<u64>: optional leading '+', at least one digit, value < 2^64
    (`Result` is rendered as `option`, `.ok()` is the identity) *)
Definition u64_from_str_radix (t : text) (radix : N) : option N :=
  let ds := match t with 43 :: r => r | _ => t end in
  match ds with [] => None | _ => digits_value radix two64 0 ds end.
Definition parse_u64 (t : text) : option N := u64_from_str_radix t 10.
(** str::parse::<i64>: optional sign, at least one digit, -2^63 <= value < 2^63 *)
Definition parse_i64 (t : text) : option Z :=
  match t with
  | 45 :: ds => match ds with [] => None | _ => option_map (fun v => (- Z.of_N v)%Z) (digits_value 10 (two63 + 1) 0 ds) end
  | 43 :: ds => match ds with [] => None | _ => option_map Z.of_N (digits_value 10 two63 0 ds) end
  | [] => None
  | _ => option_map Z.of_N (digits_value 10 two63 0 t)
  end.
(** `u as i64` (two's complement reinterpretation) *)
Definition u64_as_i64 (v : N) : Z := if v <? two63 then Z.of_N v else (Z.of_N v - Z.of_N two64)%Z.
