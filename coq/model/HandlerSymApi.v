(** M-handlersymapi (group outline, C18/C19): the symbol-table vocabulary of coq/gen/GenHandlers.v for the handlers that READ the
    symbol map (document_symbol.rs, inlay_hint.rs): `Symbol` as a view of an arena entry, the struct fields the handlers read,
    the (panicking) accessors of SymbolMap.v lifted into the control monad, monadic iterator adaptors, constructors of the
    handlers' result structs.  SymbolMap.v itself (group symmap) is the modelled contract of crates/ide/src/symbol_map. *)
From Coq Require Import List NArith Bool.
From TG.Gen Require Import GenTokens.
From TG.Model Require Import Chars Tree TreeNav SymbolMap DocComments Outline HandlerApi.
Import ListNotations.
Open Scope N_scope.

(** `db.index().symbol_map()` and `db.parse(file)` *)
Record index_db := mkIdb { idb_sm : symbol_map; idb_trees : fileid -> tree }.
Definition db_index (db : index_db) : index_db := db.
Definition index_symbol_map (db : index_db) : symbol_map := idb_sm db.
Definition idb_parse (db : index_db) (f : fileid) : tree := idb_trees db f.

(** `enum Symbol<'a>`: which arena the entry lives in *)
Inductive symview :=
| SvRecord (e : entry) | SvTemplateArgument (e : entry) | SvRecordField (e : entry) | SvVariable (e : entry)
| SvDefset (e : entry) | SvMulticlass (e : entry) | SvDefm (e : entry).
Definition sv_of (k : sym_kind) (e : entry) : symview :=
  match k with
  | KRecord => SvRecord e | KTemplateArg => SvTemplateArgument e | KRecordField => SvRecordField e
  | KVariable => SvVariable e | KDefset => SvDefset e | KMulticlass => SvMulticlass e | KDefm => SvDefm e
  end.

(** a panicking accessor (`expect("invalid .. id")`) in the control monad *)
Definition hsres {R B A : Type} (r : sres A) : hm R B A :=
  match r with SOk a => Val a | SErr _ => Panic end.
Definition outcome_of_sres {A : Type} (r : sres A) : outcome A :=
  match r with SOk a => Done a | SErr _ => Panicked end.

Definition sm_symbol (S : symbol_map) (s : symbol_id) : sres symview :=
  sbind (symbol S s) (fun e => SOk (sv_of (fst s) e)).
Definition sm_template_arg (S : symbol_map) (id : N) : sres entry := template_arg S id.
Definition sm_record_field (S : symbol_map) (id : N) : sres entry := record_field S id.
Definition sm_record (S : symbol_map) (id : N) : sres entry := record S id.
Definition sm_iter_symbols_in_file (S : symbol_map) (f : fileid) : option (list symbol_id) := iter_symbols_in_file S f.
Definition sm_iter_symbols_in_range (S : symbol_map) (r : file_range) : sres (option (list (file_range * symbol_id))) :=
  iter_symbols_in_range S r.
Definition sid_of_record (id : N) : symbol_id := (KRecord, id).

(** struct fields *)
Definition en_name (e : entry) : name := e_name e.
Definition en_typ (e : entry) : name := p_typ (e_payload e).
Definition en_define_loc (e : entry) : file_range := e_def e.
Definition en_rkind (e : entry) : option record_kind := p_record_kind (e_payload e).
Definition en_iter_template_arg (e : entry) : list N := amap_values (p_targs (e_payload e)).
Definition en_iter_field (e : entry) : list N := amap_values (p_fields (e_payload e)).
Definition en_def_list (e : entry) : list N := p_defs (e_payload e).
Definition fr_range (r : file_range) : trange := (fr_lo r, fr_hi r).
Definition mk_file_range (f : fileid) (r : trange) : file_range := mkFR f (fst r) (snd r).
Definition opt_rk_eqb (a b : option record_kind) : bool :=
  match a, b with
  | Some RKClass, Some RKClass | Some RKDef, Some RKDef | None, None => true
  | _, _ => false
  end.
Definition rg_contains_inclusive (r : trange) (p : N) : bool := (fst r <=? p) && (p <=? snd r).

(** iterator adaptors whose closure can panic, in iteration order *)
Fixpoint hmapM {R B X Y : Type} (f : X -> hm R B Y) (l : list X) : hm R B (list Y) :=
  match l with
  | [] => Val []
  | x :: r => y <- f x ;; ys <- hmapM f r ;; Val (y :: ys)
  end.
Fixpoint hfilterM {R B X : Type} (f : X -> hm R B bool) (l : list X) : hm R B (list X) :=
  match l with
  | [] => Val []
  | x :: r => b <- f x ;; ys <- hfilterM f r ;; Val (if b then x :: ys else ys)
  end.
Fixpoint hfilter_mapM {R B X Y : Type} (f : X -> hm R B (option Y)) (l : list X) : hm R B (list Y) :=
  match l with
  | [] => Val []
  | x :: r => o <- f x ;; ys <- hfilter_mapM f r ;; Val (match o with Some y => y :: ys | None => ys end)
  end.

(** result structs *)
Definition mk_document_symbol (nm typ : name) (r : trange) (k : ds_kind) (children : list docsym) : docsym :=
  DocSym nm typ (fst r) (snd r) k children.
Definition mk_inlay_hint (pos : N) (label : name) (k : hint_kind) : hint := mkHint pos label k.

(** typed AST (rowan::ast::support) as used by inlay_hint.rs *)
Definition ast_cast (k : SyntaxKind) (c : cursor) : option cursor :=
  if is_node (fst c) && sk_eqb (kind_of (fst c)) k then Some c else None.
Definition ast_arg_value_list (c : cursor) : option cursor := arg_value_list c.
Definition ast_arg_values (c : cursor) : list cursor := child_node_cursors is_arg_value c.
Definition it_take_while {A : Type} (p : A -> bool) (l : list A) : list A := take_while p l.

(** hover.rs / goto_definition.rs / references.rs *)
Definition file_pos : Type := (fileid * N)%type.                   (* FilePosition { file, position } *)
Definition fp_file (p : file_pos) : fileid := fst p.
Definition fp_position (p : file_pos) : N := snd p.
Definition sv_entry (v : symview) : entry :=
  match v with
  | SvRecord e | SvTemplateArgument e | SvRecordField e | SvVariable e | SvDefset e | SvMulticlass e | SvDefm e => e
  end.
Definition sv_define_loc (v : symview) : file_range := e_def (sv_entry v).
Definition sv_reference_locs (v : symview) : list file_range := e_refs (sv_entry v).
(** `symbol_map.find_symbol_at(pos)`: Option<Symbol>; the lookup of the found id can panic *)
Definition sm_find_symbol_at (S : symbol_map) (p : file_pos) : sres (option symview) :=
  sbind (find_symbol_at S (fst p) (snd p))
        (fun r => SOk (option_map (fun se : symbol_id * entry => sv_of (fst (fst se)) (snd se)) r)).
(** `record_field.parent` (0 for an entry that is not a record field: excluded by [kinded]) *)
Definition en_field_parent (e : entry) : N := match p_field_parent (e_payload e) with Some r => r | None => 0 end.
(** `variable.kind`: VariableKind is not part of the op log / SymbolMap.v; a match on it is rendered only when all arms agree *)
Definition en_vkind (e : entry) : unit := tt.
(** `Hover { signature, document }` *)
Definition hover_result : Type := (name * option text)%type.
Definition mk_hover (sig : name) (doc : option text) : hover_result := (sig, doc).
