(** M-astaccess: (1) the typed accessors of crates/syntax/src/ast.rs interpreted from the GENERATED table
    (gen/GenAst.v: node kind -> fields (target kinds, child | children | nth i));
    (2) a reflective analysis of the generated grammar program: for every node kind the possible
    multisets of child NODE kinds ("frames": kind -> 1, 2 or many) the parser can build, following
    start_node / start_node_at(checkpoint) / finish_node through all paths (guards ignored: an
    over-approximation), with function summaries iterated to a fixed point;
    (3) the coverage check: in every frame every child is returned by some accessor. *)
From Coq Require Import List NArith Bool String PeanoNat.
From TG.Gen Require Import GenTokens GenAst.
From TG.Model Require Import Chars Lexer Prep Tree ParserPrims GInterp.
Import ListNotations.
Close Scope string_scope.
Close Scope N_scope.
Open Scope nat_scope.
Open Scope list_scope.

(** structural equality of trees *)
Fixpoint tree_eqb (a b : tree) : bool :=
  match a, b with
  | Tok k x, Tok k' y => sk_eqb k k' && list_eqb x y
  | Node k cs, Node k' ds =>
      sk_eqb k k' &&
      (fix go (l : list tree) (m : list tree) : bool :=
         match l, m with
         | [], [] => true
         | c :: r, d :: r' => tree_eqb c d && go r r'
         | _, _ => false
         end) cs ds
  | _, _ => false
  end.
Definition tree_eqb_shallow := tree_eqb.

(** * Accessors *)
Definition kind_in (k : SyntaxKind) (ks : list SyntaxKind) : bool := existsb (sk_eqb k) ks.
Definition node_children (t : tree) : list tree := filter is_node (children_of t).
Definition of_kinds (ks : list SyntaxKind) (cs : list tree) : list tree := filter (fun c => kind_in (kind_of c) ks) cs.

(** rowan::ast::support::child / children / children().nth(i) *)
Definition access (t : tree) (ks : list SyntaxKind) (m : acc_mode) : list tree :=
  let cs := of_kinds ks (node_children t) in
  match m with
  | AChild => firstn 1 cs
  | AChildren => cs
  | ANth i => match nth_error cs i with Some c => [c] | None => [] end
  end.
Definition accessors_of (k : SyntaxKind) : list (string * list SyntaxKind * acc_mode) :=
  match find (fun e => sk_eqb (fst e) k) ast_nodes with Some e => snd e | None => [] end.

(** * Frames *)
Definition frame := list (SyntaxKind * nat).          (* counts, 3 = "3 or more" *)
Definition cap (n : nat) : nat := if Nat.leb 3 n then 3 else n.
Fixpoint fcount (f : frame) (k : SyntaxKind) : nat :=
  match f with [] => 0 | (k', n) :: r => if sk_eqb k' k then n else fcount r k end.
(** insertion ordered by kind index: equal multisets are equal lists *)
Fixpoint fadd (f : frame) (k : SyntaxKind) (n : nat) : frame :=
  match f with
  | [] => [(k, cap n)]
  | (k', m) :: r =>
      if sk_eqb k' k then (k', cap (m + n)) :: r
      else if N.ltb (sk_index k) (sk_index k') then (k, cap n) :: f
      else (k', m) :: fadd r k n
  end.
Definition fplus (a b : frame) : frame := fold_left (fun acc kn => fadd acc (fst kn) (snd kn)) b a.
(** children emitted since a snapshot: pointwise difference (a saturated count stays saturated) *)
Definition fminus (a b : frame) : frame :=
  fold_left (fun acc kn => let d := if Nat.eqb (snd kn) 3 then 3 else (snd kn - fcount b (fst kn)) in
                           if Nat.eqb d 0 then acc else fadd acc (fst kn) d) a [].
Fixpoint frame_eqb (a b : frame) : bool :=
  match a, b with
  | [], [] => true
  | (k, n) :: a', (k', n') :: b' => sk_eqb k k' && Nat.eqb n n' && frame_eqb a' b'
  | _, _ => false
  end.

(** * The analysis *)
(** a checkpoint local holds (stack depth at the checkpoint, children emitted at that depth since) *)
Definition cpval := option (nat * frame).
Record kstate := { stk : list (option SyntaxKind * frame); kenv : list cpval }.
Fixpoint stack_eqb (a b : list (option SyntaxKind * frame)) : bool :=
  match a, b with
  | [], [] => true
  | (k, f) :: a', (k', f') :: b' =>
      (match k, k' with Some x, Some y => sk_eqb x y | None, None => true | _, _ => false end) && frame_eqb f f' && stack_eqb a' b'
  | _, _ => false
  end.
Definition oframe_eqb (a b : cpval) : bool :=
  match a, b with Some (d, x), Some (d', y) => Nat.eqb d d' && frame_eqb x y | None, None => true | _, _ => false end.
Fixpoint kenv_eqb (a b : list cpval) : bool :=
  match a, b with
  | [], [] => true
  | x :: a', y :: b' => oframe_eqb x y && kenv_eqb a' b'
  | _, _ => false
  end.
Definition kstate_eqb (a b : kstate) : bool := stack_eqb (stk a) (stk b) && kenv_eqb (kenv a) (kenv b).
Fixpoint dedup_k (l : list kstate) : list kstate :=
  match l with [] => [] | x :: r => if existsb (kstate_eqb x) r then dedup_k r else x :: dedup_k r end.
Definition ksubset (a b : list kstate) : bool := forallb (fun x => existsb (kstate_eqb x) b) a.

Record kouts := { k_norm : list (cpval * kstate); k_brk : list kstate; k_ret : list kstate;
                  k_acc : list (SyntaxKind * frame) }.       (* k_acc: (node kind, its children) at every finish_node *)
Definition kouts_nil : kouts := {| k_norm := []; k_brk := []; k_ret := []; k_acc := [] |}.
Definition kouts_app (a b : kouts) : kouts :=
  {| k_norm := k_norm a ++ k_norm b; k_brk := k_brk a ++ k_brk b; k_ret := k_ret a ++ k_ret b; k_acc := k_acc a ++ k_acc b |}.

Fixpoint dedup_vs (l : list (cpval * kstate)) : list (cpval * kstate) :=
  match l with
  | [] => []
  | x :: r => if existsb (fun y => oframe_eqb (fst x) (fst y) && kstate_eqb (snd x) (snd y)) r then dedup_vs r else x :: dedup_vs r
  end.
Fixpoint dedup_acc (l : list (SyntaxKind * frame)) : list (SyntaxKind * frame) :=
  match l with
  | [] => []
  | x :: r => if existsb (fun y => sk_eqb (fst x) (fst y) && frame_eqb (snd x) (snd y)) r then dedup_acc r else x :: dedup_acc r
  end.
(** normalise: no duplicate states (keeps the sets small; the analysis is exponential otherwise) *)
Definition knorm (o : kouts) : kouts :=
  {| k_norm := dedup_vs (k_norm o); k_brk := dedup_k (k_brk o); k_ret := dedup_k (k_ret o); k_acc := dedup_acc (k_acc o) |}.

Definition kenv_get (en : list cpval) (x : nat) : cpval := match nth_error en x with Some v => v | None => None end.
Fixpoint kenv_set (en : list cpval) (x : nat) (v : cpval) : list cpval :=
  match x, en with
  | O, [] => [v]
  | O, _ :: r => v :: r
  | S n, [] => None :: kenv_set [] n v
  | S n, a :: r => a :: kenv_set r n v
  end.

(** children added to the open node are also recorded in the checkpoints taken at this depth *)
Definition note (depth : nat) (e : frame) (en : list cpval) : list cpval :=
  map (fun v => match v with Some (d, delta) => if Nat.eqb d depth then Some (d, fplus delta e) else v | None => None end) en.
Definition plus_top (st : kstate) (e : frame) : kstate :=
  match stk st with
  | (k0, f) :: r => {| stk := (k0, fplus f e) :: r; kenv := note (List.length (stk st)) e (kenv st) |}
  | [] => st
  end.
Definition add_top (st : kstate) (k : SyntaxKind) (n : nat) : kstate := plus_top st [(k, cap n)].

Definition kprim (pr : prim) (st : kstate) : option (cpval * kstate * list (SyntaxKind * frame)) :=
  match pr with
  | PStartNode k => Some (None, {| stk := (Some k, []) :: stk st; kenv := kenv st |}, [])
  | PFinishNode =>
      match stk st with
      | (Some k, f) :: r => Some (None, add_top {| stk := r; kenv := kenv st |} k 1, [(k, f)])
      | _ => None
      end
  | PCheckpoint => Some (Some (List.length (stk st), []), st, [])
  | PStartNodeAt x k =>
      match stk st with
      | (k0, f) :: r =>
          (* the children emitted since the checkpoint move into the new node; an unknown checkpoint wraps everything *)
          let delta := match kenv_get (kenv st) x with Some (_, dl) => dl | None => f end in
          Some (None, {| stk := (Some k, delta) :: (k0, fminus f delta) :: r; kenv := kenv st |}, [])
      | [] => None
      end
  | PErrorAndEat _ | PErrorAndRecover _ => Some (None, add_top st S_Error 1, [])   (* may wrap the token in an Error node *)
  | _ => Some (None, st, [])
  end.

Definition krun_all (f : kstate -> option kouts) (l : list kstate) : option kouts :=
  fold_right (fun st acc => match f st, acc with Some o, Some o' => Some (kouts_app o o') | _, _ => None end) (Some kouts_nil) l.
Definition kbind (o : kouts) (k : cpval -> kstate -> option kouts) : option kouts :=
  fold_right (fun vs acc => match k (fst vs) (snd vs), acc with Some o1, Some o2 => Some (kouts_app o1 o2) | _, _ => None end)
             (Some {| k_norm := []; k_brk := k_brk o; k_ret := k_ret o; k_acc := k_acc o |}) (k_norm o).

Section Kids.
  Variable p : prog.
  Variable summ : nat -> list frame.          (* what a call of function f adds to the caller's open node *)

  (** loops are summarised, not unrolled: every kind whose count grows during one round (condition + body) gets the
      saturated count 3 ("many") in ONE merged head state, which bounds every number of iterations from above *)
  Definition sat_frame (base f' : frame) : frame :=
    fold_left (fun acc kn => if Nat.ltb (fcount base (fst kn)) (snd kn) then fadd acc (fst kn) 3 else acc) f' base.
  Definition saturate (st : kstate) (others : list kstate) : kstate :=
    match stk st with
    | (k0, f) :: r =>
        {| stk := (k0, fold_left (fun acc s' => match stk s' with (_, f') :: _ => sat_frame acc f' | [] => acc end) others f) :: r;
           kenv := kenv st |}
    | [] => st
    end.
  Definition kloop (exc exb : kstate -> option kouts) (st : kstate) : option kouts :=
    let pass (s0 : kstate) : option (kouts * list kstate) :=
      match exc s0 with
      | None => None
      | Some oc =>
          match krun_all exb (map snd (k_norm oc)) with
          | None => None
          | Some ob => Some (kouts_app oc ob, map snd (k_norm oc) ++ map snd (k_norm ob) ++ k_brk ob)
          end
      end in
    match pass st with
    | None => None
    | Some (_, all1) =>
        let m1 := saturate st all1 in
        match pass m1 with
        | None => None
        | Some (o2, all2) =>
            Some {| k_norm := [(None, saturate m1 all2)]; k_brk := []; k_ret := k_ret o2; k_acc := k_acc o2 |}
        end
    end.

  Fixpoint kexec (fuel : nat) (e : expr) (st : kstate) : option kouts :=
    match fuel with
    | O => None
    | S n =>
      let one v s := Some {| k_norm := [(v, s)]; k_brk := []; k_ret := []; k_acc := [] |} in
      match e with
      | EB _ | EVar _ => one None st
      | ENot a => kexec n a st
      | EPrim pr =>
          match kprim pr st with
          | Some (v, s, acc) => Some {| k_norm := [(v, s)]; k_brk := []; k_ret := []; k_acc := acc |}
          | None => None
          end
      | ECall f arg =>
          match arg with
          | None =>
              Some {| k_norm := map (fun e => (None, plus_top st e)) (summ f); k_brk := []; k_ret := []; k_acc := [] |}
          | Some (x, _) =>
              match fn_body p f with
              | None => None
              | Some body =>
                  match kexec n body {| stk := stk st; kenv := [kenv_get (kenv st) x] |} with
                  | None => None
                  | Some o =>
                      Some {| k_norm := map (fun s => (None, {| stk := stk s; kenv := kenv st |})) (map snd (k_norm o) ++ k_ret o);
                              k_brk := []; k_ret := []; k_acc := k_acc o |}
                  end
              end
          end
      | ESeq a b => match kexec n a st with
                    | Some o => match kbind (knorm o) (fun _ s1 => kexec n b s1) with Some o' => Some (knorm o') | None => None end
                    | None => None end
      | EIf c a b =>
          match kexec n c st with
          | Some o => match kbind (knorm o) (fun _ s1 => match kexec n a s1, kexec n b s1 with
                                           | Some o1, Some o2 => Some (kouts_app o1 o2) | _, _ => None end) with
                      | Some o' => Some (knorm o') | None => None end
          | None => None
          end
      | EWhile c b => match kloop (kexec n c) (kexec n b) st with Some o => Some (knorm o) | None => None end
      | EBreak => Some {| k_norm := []; k_brk := [st]; k_ret := []; k_acc := [] |}
      | EReturn a =>
          match kexec n a st with
          | Some o => Some {| k_norm := []; k_brk := k_brk o; k_ret := map snd (k_norm o) ++ k_ret o; k_acc := k_acc o |}
          | None => None
          end
      | ESet x a =>
          match kexec n a st with
          | Some o => Some {| k_norm := map (fun vs => (None, {| stk := stk (snd vs); kenv := kenv_set (kenv (snd vs)) x (fst vs) |})) (k_norm o);
                              k_brk := k_brk o; k_ret := k_ret o; k_acc := k_acc o |}
          | None => None
          end
      end
    end.
End Kids.

(** * Summaries and the table of child frames *)
Fixpoint dedup_f (l : list frame) : list frame :=
  match l with [] => [] | x :: r => if existsb (frame_eqb x) r then dedup_f r else x :: dedup_f r end.

Definition fn_result (p : prog) (summ : nat -> list frame) (fuel : nat) (f : nat) : option (list frame * list (SyntaxKind * frame)) :=
  match fn_body p f with
  | None => None
  | Some body =>
      match kexec p summ fuel body {| stk := [(None, [])]; kenv := [None] |} with
      | None => None
      | Some o =>
          let exits := map snd (k_norm o) ++ k_ret o in
          if forallb (fun s => match stk s with [(None, _)] => true | _ => false end) exits
          then Some (dedup_f (map (fun s => match stk s with [(_, e)] => e | _ => [] end) exits), k_acc o)
          else None
      end
  end.

(** one round: all functions with the summaries of the previous round *)
Definition kround (p : prog) (fuel : nat) (summ : list (list frame)) : option (list (list frame) * list (SyntaxKind * frame)) :=
  fold_right (fun f acc =>
                match fn_result p (fun g => nth g summ []) fuel f, acc with
                | Some (e, a), Some (es, aa) => Some (e :: es, a ++ aa)
                | _, _ => None
                end) (Some ([], [])) (seq 0 (List.length (fns p))).
Fixpoint krounds (p : prog) (fuel : nat) (k : nat) (summ : list (list frame)) : option (list (list frame) * list (SyntaxKind * frame)) :=
  match k with
  | O => None
  | S k' =>
      match kround p fuel summ with
      | None => None
      | Some (s', acc) =>
          if forallb (fun ab => Nat.eqb (List.length (fst ab)) (List.length (snd ab)) &&
                                forallb (fun x => existsb (frame_eqb x) (snd ab)) (fst ab)) (combine s' summ)
          then Some (s', acc) else krounds p fuel k' s'
      end
  end.

Fixpoint dedup_kf (l : list (SyntaxKind * frame)) : list (SyntaxKind * frame) :=
  match l with
  | [] => []
  | x :: r => if existsb (fun y => sk_eqb (fst x) (fst y) && frame_eqb (snd x) (snd y)) r then dedup_kf r else x :: dedup_kf r
  end.
(** (node kind, frame) pairs the parser can build; None = the analysis did not converge / refused the program *)
Definition kid_table (p : prog) (fuel rounds : nat) : option (list (SyntaxKind * frame)) :=
  match krounds p fuel rounds (repeat [] (List.length (fns p))) with
  | Some (_, acc) => Some (dedup_kf acc)
  | None => None
  end.

(** * Conformance of a concrete node to a frame, and the coverage check *)
Definition acc_kinds (a : string * list SyntaxKind * acc_mode) : list SyntaxKind := snd (fst a).
Definition acc_mode_of (a : string * list SyntaxKind * acc_mode) : acc_mode := snd a.

(** total count of the kinds [ks] in a frame; 3 (= unbounded) as soon as one of them is saturated or the sum reaches 3 *)
Definition ftotal (f : frame) (ks : list SyntaxKind) : nat :=
  cap (fold_left (fun acc kn => if kind_in (fst kn) ks then acc + snd kn else acc) f 0).
Definition bound_le (n c : nat) : bool := Nat.leb 3 c || Nat.leb n c.

(** every child node kind occurs in the frame, and for every accessor kind set the number of such children is
    within the frame's total *)
Definition node_conforms (f : frame) (t : tree) : bool :=
  forallb (fun c => negb (Nat.eqb (fcount f (kind_of c)) 0)) (node_children t) &&
  forallb (fun a => bound_le (List.length (of_kinds (acc_kinds a) (node_children t))) (ftotal f (acc_kinds a)))
          (accessors_of (kind_of t)).

Fixpoint kinds_same (a b : list SyntaxKind) : bool :=
  match a, b with
  | [], [] => true
  | x :: a', y :: b' => sk_eqb x y && kinds_same a' b'
  | _, _ => false
  end.
Definition has_nth (accs : list (string * list SyntaxKind * acc_mode)) (ks : list SyntaxKind) (j : nat) : bool :=
  existsb (fun a => kinds_same (acc_kinds a) ks && match acc_mode_of a with ANth i => Nat.eqb i j | _ => false end) accs.
(** a child of kind [k] of a node with frame [f] is returned by some accessor *)
Definition reach (accs : list (string * list SyntaxKind * acc_mode)) (f : frame) (k : SyntaxKind) : bool :=
  existsb (fun a =>
             kind_in k (acc_kinds a) &&
             match acc_mode_of a with
             | AChildren => true
             | AChild => Nat.leb (ftotal f (acc_kinds a)) 1
             | ANth _ => Nat.ltb (ftotal f (acc_kinds a)) 3 &&
                         forallb (has_nth accs (acc_kinds a)) (seq 0 (ftotal f (acc_kinds a)))
             end) accs.
Definition pair_in (x : SyntaxKind * SyntaxKind) (l : list (SyntaxKind * SyntaxKind)) : bool :=
  existsb (fun y => sk_eqb (fst x) (fst y) && sk_eqb (snd x) (snd y)) l.
Definition covers_frame (known : list (SyntaxKind * SyntaxKind)) (K : SyntaxKind) (f : frame) : bool :=
  forallb (fun kn => Nat.eqb (snd kn) 0 || sk_eqb (fst kn) S_Error || pair_in (K, fst kn) known ||
                     reach (accessors_of K) f (fst kn)) f.

(** node kinds without an ast struct must not have child nodes at all *)
Definition covers_all (known : list (SyntaxKind * SyntaxKind)) (tbl : list (SyntaxKind * frame)) : bool :=
  forallb (fun kf => covers_frame known (fst kf) (snd kf)) tbl.

(** a whole tree conforms: every node has a frame of the table it conforms to *)
Fixpoint tree_conforms (tbl : list (SyntaxKind * frame)) (t : tree) : bool :=
  match t with
  | Tok _ _ => true
  | Node k cs =>
      existsb (fun kf => sk_eqb (fst kf) k && node_conforms (snd kf) t) tbl &&
      (fix go (l : list tree) : bool := match l with [] => true | c :: r => tree_conforms tbl c && go r end) cs
  end.
