(** M-pipeline over an arbitrary host state (C07 for the whole modelled query set).

    [Pipeline.analyze] starts a fresh host, touches the root once and assembles the analysis from the
    resulting state, numbering the workspace files by ascending FileId (in a fresh host the root has id 0
    and ids are handed out in discovery order, so this is the order of the walk, root first).
    [analyze_from_state] is the same assembly from ANY session state - e.g. after a history of touches,
    where FileIds carry the history - numbering the files in walk order (the order of the source root's
    file set, root first).  TG.Proofs.PipelineHostFresh: on the fresh state the two coincide
    ([analyze_is_from_state]).  Executable definitions only. *)
From Coq Require Import List NArith Bool String.
From TG.Gen Require Import GenTokens GenAst GenGrammar.
From TG.Model Require Import Chars Lexer Prep Tree ParserPrims GInterp AstAccess.
From TG.Model Require Includes Host.
From TG.Model Require Import CoreAst AstToCore Scope Indexer Pipeline.
Import ListNotations.
Close Scope string_scope.
Open Scope N_scope.
Open Scope list_scope.

Definition parsed_of (pfuel : nat) (files : list (text * text)) : list pfile :=
  map (fun pt => parse_file pfuel (components (fst pt)) (snd pt)) files.

(** the in-memory disk of [analyze]: (path, content) with tag = position in [files] *)
Definition disk_files_of (pfuel : nat) (files : list (text * text)) : list (fpath * Includes.content text) :=
  map (fun tp => (pf_path (snd tp), content_of (fst tp) (snd tp))) (number_from 0 (parsed_of pfuel files)).

Definition world_of (dfs : list (fpath * Includes.content text)) : Includes.world fpath text :=
  {| Includes.disk := fun p => Includes.assoc p dfs; Includes.extra := [] |}.

Definition path_in_fset (f : N) (fset : list (N * fpath)) : fpath :=
  match find (fun x => fst x =? f) fset with Some x => snd x | None => [] end.

Definition analyze_from_state (pfuel : nat) (files : list (text * text)) (st : @Host.state fpath text)
  : option analysis :=
  let parsed := parsed_of pfuel files in
  let '(fs2, db2) := st in
  match Includes.sroot db2 with
  | None => None
  | Some (fset, root) =>
      let ids := rev (map fst fset) in                          (* walk order, root first *)
      let rootp := path_in_fset root fset in
      let pfile_of (f : N) : option (N * pfile) :=
        match Includes.fc db2 f with
        | Some c => match nth_error parsed (N.to_nat (Includes.c_tag c)) with
                    | Some p => Some (f, p)
                    | None => Some (f, parse_file pfuel rootp [])
                    end
        | None => None
        end in
      let doclinks (f : N) : list (Includes.rng * N) :=
        match Host.document_link db2 f with Includes.Done l => l | _ => [] end in
      match Pipeline.all_some (map pfile_of ids) with
      | Some wsf => Some (assemble ids doclinks wsf)
      | None => None
      end
  end.

(** what the queries read: everything but the FileIds kept beside the parsed files *)
Definition an_obs (a : analysis) :=
  (map snd (an_files a), an_perrs a, an_cores a, an_core a, an_shape a).
