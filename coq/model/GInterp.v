(** M-ginterp: the deep-embedded DSL in which the translator (tools/translate/t_grammar.py) expresses
    every function of crates/syntax/src/grammar*.rs, and its fuelled big-step interpreter.
    Values: booleans (unit = true, CompletedMarker::Success = true / Fail = false) and checkpoints. *)
From Coq Require Import List NArith Bool String.
From TG.Gen Require Import GenTokens.
From TG.Model Require Import Chars Lexer Prep Tree ParserPrims.
Import ListNotations.

Inductive val := VB (b : bool) | VN (n : nat).

Inductive prim :=
| PStartNode (k : SyntaxKind)
| PFinishNode
| PCheckpoint
| PStartNodeAt (x : nat) (k : SyntaxKind)       (* checkpoint held in local x *)
| PAssert (k : TokenKind)
| PExpect (k : TokenKind) (m : parse_msg)
| PEat
| PEatIf (k : TokenKind)
| PSkip
| PError (m : parse_msg)
| PErrorAndEat (m : parse_msg)
| PErrorAndRecover (m : parse_msg)
| PAtSet (ks : list TokenKind).                 (* at(k) = AtSet [k]; eof() = AtSet [Eof]; peek-matches *)

Inductive expr :=
| EB (b : bool)
| EVar (x : nat)
| ENot (e : expr)
| EPrim (p : prim)
| ECall (f : nat) (arg : option (nat * bool))   (* optional local passed to the callee's local 0; true = by reference *)
| ESeq (a b : expr)
| EIf (c a b : expr)
| EWhile (c b : expr)
| EBreak
| EReturn (e : expr)
| ESet (x : nat) (e : expr).

Definition env := list val.                      (* locals by index *)
Definition env_get (en : env) (x : nat) : option val := nth_error en x.
Fixpoint env_set (en : env) (x : nat) (v : val) : env :=
  match x, en with
  | O, [] => [v]
  | O, _ :: r => v :: r
  | S n, [] => VB true :: env_set [] n v
  | S n, a :: r => a :: env_set r n v
  end.

Inductive res :=
| RVal (v : val) (en : env) (s : pst)
| RBrk (en : env) (s : pst)
| RRet (v : val) (en : env) (s : pst)
| RPanic                                           (* a Rust panic: assert!, expect, unwrap, builder misuse, ill-typed DSL *)
| ROOF.                                            (* out of fuel *)

Record prog := { fns : list expr; recover_tokens : list TokenKind }.
Definition fn_body (p : prog) (f : nat) : option expr := nth_error (fns p) f.

Definition lift (o : option pst) (en : env) : res :=
  match o with Some s => RVal (VB true) en s | None => RPanic end.

Definition exec_prim (p : prog) (pr : prim) (en : env) (s : pst) : res :=
  match pr with
  | PStartNode k => RVal (VB true) en (p_start_node s k)
  | PFinishNode => lift (p_finish_node s) en
  | PCheckpoint => RVal (VN (b_checkpoint (bld s))) en s
  | PStartNodeAt x k =>
      match env_get en x with
      | Some (VN cp) => lift (p_start_node_at s cp k) en
      | _ => RPanic
      end
  | PAssert k => lift (p_assert s k) en
  | PExpect k m => lift (p_expect s k m) en
  | PEat => lift (p_eat s) en
  | PEatIf k => match p_eat_if s k with Some (b, s1) => RVal (VB b) en s1 | None => RPanic end
  | PSkip => lift (p_skip_all s) en
  | PError m => RVal (VB true) en (p_error s m)
  | PErrorAndEat m => lift (p_error_and_eat s m) en
  | PErrorAndRecover m => lift (p_error_and_recover (recover_tokens p) s m) en
  | PAtSet ks => RVal (VB (p_at_set s ks)) en s
  end.

Fixpoint gexec (fuel : nat) (p : prog) (e : expr) (en : env) (s : pst) : res :=
  match fuel with
  | O => ROOF
  | S n =>
    match e with
    | EB b => RVal (VB b) en s
    | EVar x => match env_get en x with Some v => RVal v en s | None => RPanic end
    | ENot a =>
        match gexec n p a en s with
        | RVal (VB b) en1 s1 => RVal (VB (negb b)) en1 s1
        | RVal (VN _) _ _ => RPanic
        | r => r
        end
    | EPrim pr => exec_prim p pr en s
    | ECall f arg =>
        match fn_body p f with
        | None => RPanic
        | Some body =>
            let cen := match arg with
                       | Some (x, _) => match env_get en x with Some v => Some [v] | None => None end
                       | None => Some []
                       end in
            match cen with
            | None => RPanic
            | Some cen0 =>
                let back (v : val) (cen1 : env) (s1 : pst) :=
                  match arg with
                  | Some (x, true) => match env_get cen1 0 with
                                      | Some w => RVal v (env_set en x w) s1
                                      | None => RPanic end
                  | _ => RVal v en s1
                  end in
                match gexec n p body cen0 s with
                | RVal v cen1 s1 => back v cen1 s1
                | RRet v cen1 s1 => back v cen1 s1
                | RBrk _ _ => RPanic                 (* `break` outside a loop does not compile in Rust *)
                | RPanic => RPanic
                | ROOF => ROOF
                end
            end
        end
    | ESeq a b =>
        match gexec n p a en s with
        | RVal _ en1 s1 => gexec n p b en1 s1
        | r => r
        end
    | EIf c a b =>
        match gexec n p c en s with
        | RVal (VB true) en1 s1 => gexec n p a en1 s1
        | RVal (VB false) en1 s1 => gexec n p b en1 s1
        | RVal (VN _) _ _ => RPanic
        | r => r
        end
    | EWhile c b =>
        match gexec n p c en s with
        | RVal (VB true) en1 s1 =>
            match gexec n p b en1 s1 with
            | RVal _ en2 s2 => gexec n p (EWhile c b) en2 s2
            | RBrk en2 s2 => RVal (VB true) en2 s2
            | r => r
            end
        | RVal (VB false) en1 s1 => RVal (VB true) en1 s1
        | RVal (VN _) _ _ => RPanic
        | r => r
        end
    | EBreak => RBrk en s
    | EReturn a =>
        match gexec n p a en s with
        | RVal v en1 s1 => RRet v en1 s1
        | r => r
        end
    | ESet x a =>
        match gexec n p a en s with
        | RVal v en1 s1 => RVal (VB true) (env_set en1 x v) s1
        | r => r
        end
    end
  end.

(** syntax::parse: Parser::new; grammar::source_file (function index [entry]); finish *)
Inductive parse_out :=
| ParseOk (t : tree) (errors : list (N * N * parse_msg)) (final : pst)
| ParsePanic
| ParseOOF.

Definition parse_with (fuel : nat) (p : prog) (entry : nat) (txt : text) : parse_out :=
  match gexec fuel p (ECall entry None) [] (p_new txt) with
  | RVal _ _ s | RRet _ _ s =>
      match p_finish s with
      | Some (t, es) => ParseOk t es s
      | None => ParsePanic
      end
  | RBrk _ _ => ParsePanic
  | RPanic => ParsePanic
  | ROOF => ParseOOF
  end.
