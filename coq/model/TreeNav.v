(** M-treenav (group outline, C18/C19): rowan cursor navigation over the green trees of [Tree.v].

    A rowan cursor (SyntaxNode / SyntaxToken / SyntaxElement = green element + parent pointer + index in the
    parent) is modelled as a ZIPPER: the focused subtree and the list of frames up to the root (innermost
    first), each frame holding the parent's kind, the left siblings (nearest first) and the right siblings.
    Absolute offsets are derived, as everywhere in Tree.v: the offset of a cursor is the total length of
    everything to its left ([cur_offset]).
    * [leaves_forest]/[descendants_forest]: list versions of [leaves_from]/[descendants_from] of Tree.v
      (convertible with their nested [fix]: proofs/TreeNavProofs.v).
    * [parent], [prev_sibling_or_token], [descend_last] (the `while let Some(last) = prev.as_node()
      .and_then(|n| n.last_child_or_token())` loop), [first_token] (SyntaxNode::first_token).
    * [prev_token]: the hand-written `prev_token` of handlers/hover.rs (the repaired one, D25).
    * [rowan_prev_token]: rowan's own SyntaxToken::prev_token, which gives up at empty nodes (what the code
      used before the repair; kept for the refutation example).
    * [covering_element]: SyntaxNode::covering_element for a non-empty range (modelled contract of rowan). *)
From Coq Require Import List NArith Bool.
From TG.Gen Require Import GenTokens.
From TG.Model Require Import Chars Tree.
Import ListNotations.
Open Scope N_scope.

Definition leaf : Type := (SyntaxKind * N * N * text)%type.
Definition lf_kind (l : leaf) : SyntaxKind := let '(k, _, _, _) := l in k.
Definition lf_lo (l : leaf) : N := let '(_, lo, _, _) := l in lo.
Definition lf_hi (l : leaf) : N := let '(_, _, hi, _) := l in hi.
Definition lf_text (l : leaf) : text := let '(_, _, _, t) := l in t.

Fixpoint leaves_forest (o : N) (cs : list tree) : list leaf :=
  match cs with [] => [] | c :: r => leaves_from o c ++ leaves_forest (o + tree_len c) r end.

Fixpoint descendants_forest (o : N) (cs : list tree) : list (N * N * tree) :=
  match cs with [] => [] | c :: r => descendants_from o c ++ descendants_forest (o + tree_len c) r end.

Fixpoint last_opt {A} (l : list A) : option A :=
  match l with [] => None | [x] => Some x | _ :: r => last_opt r end.

(** number of elements (nodes and tokens) of a tree / forest *)
Fixpoint tree_size (t : tree) : nat :=
  match t with
  | Tok _ _ => 1
  | Node _ cs => S ((fix go (l : list tree) : nat := match l with [] => O | c :: r => (tree_size c + go r)%nat end) cs)
  end.
Fixpoint forest_size (cs : list tree) : nat :=
  match cs with [] => O | c :: r => (tree_size c + forest_size r)%nat end.

(** ---- cursors ---- *)
Record frame := mkFrame { fr_kind : SyntaxKind; fr_left : list tree; fr_right : list tree }.
Definition cursor : Type := (tree * list frame)%type.
Definition cur_root (t : tree) : cursor := (t, []).
Definition focus (c : cursor) : tree := fst c.

Definition plug (t : tree) (f : frame) : tree := Node (fr_kind f) (rev (fr_left f) ++ t :: fr_right f).

(** everything to the left of a cursor, in document order (outermost frame first) *)
Fixpoint before_ctx (ctx : list frame) : list tree :=
  match ctx with [] => [] | f :: outer => before_ctx outer ++ rev (fr_left f) end.
Definition cur_offset (c : cursor) : N := forest_len (before_ctx (snd c)).
Definition leaves_before (c : cursor) : list leaf := leaves_forest 0 (before_ctx (snd c)).
(** the leaf (kind, lo, hi, text) under a token cursor *)
Definition cur_leaf (c : cursor) : option leaf :=
  match fst c with
  | Tok k txt => Some (k, cur_offset c, cur_offset c + bytes txt, txt)
  | Node _ _ => None
  end.
Definition cur_range (c : cursor) : N * N := (cur_offset c, cur_offset c + tree_len (fst c)).

(** SyntaxElement::parent *)
Definition parent (c : cursor) : option cursor :=
  match snd c with [] => None | f :: ctx => Some (plug (fst c) f, ctx) end.

(** SyntaxElement::prev_sibling_or_token *)
Definition prev_sibling_or_token (c : cursor) : option cursor :=
  match snd c with
  | [] => None
  | f :: ctx => match fr_left f with
                | [] => None
                | l :: ls => Some (l, mkFrame (fr_kind f) ls (fst c :: fr_right f) :: ctx)
                end
  end.

(** `while let Some(last) = prev.as_node().and_then(|node| node.last_child_or_token()) { prev = last; }`:
    the rightmost leaf element (a token, or a node without children) of [t] *)
Fixpoint descend_last (t : tree) (ctx : list frame) : cursor :=
  match t with
  | Tok _ _ => (t, ctx)
  | Node k cs =>
      (fix go (left_rev : list tree) (l : list tree) : cursor :=
         match l with
         | [] => (t, ctx)
         | [c] => descend_last c (mkFrame k left_rev [] :: ctx)
         | c :: r => go (c :: left_rev) r
         end) [] cs
  end.

(** SyntaxNode::first_token = first_child_or_token()?.first_token(): gives up at an empty first child *)
Fixpoint first_token (t : tree) (ctx : list frame) : option cursor :=
  match t with
  | Tok _ _ => Some (t, ctx)
  | Node k cs => match cs with
                 | [] => None
                 | c :: r => first_token c (mkFrame k [] r :: ctx)
                 end
  end.

(** SyntaxNode::last_token = last_child_or_token()?.last_token(): gives up at an empty last child *)
Definition last_token (t : tree) (ctx : list frame) : option cursor :=
  let e := descend_last t ctx in
  match fst e with Tok _ _ => Some e | Node _ _ => None end.

Inductive walk_result : Type := WFound (c : cursor) | WNone | WOutOfFuel.

(** handlers/hover.rs `prev_token` (repaired, D25): one loop iteration per unit of fuel *)
Fixpoint prev_token (fuel : nat) (c : cursor) : walk_result :=
  match fuel with
  | O => WOutOfFuel
  | S f =>
      let next : option cursor :=
        match prev_sibling_or_token c with
        | Some p => Some (descend_last (fst p) (snd p))
        | None => parent c
        end in
      match next with
      | None => WNone
      | Some e => match fst e with
                  | Tok _ _ => WFound e
                  | Node _ _ => prev_token f e
                  end
      end
  end.

(** rowan SyntaxToken::prev_token:
      match self.prev_sibling_or_token() { Some(e) => e.last_token(),
        None => self.ancestors().find_map(|it| it.prev_sibling_or_token()).and_then(|e| e.last_token()) } *)
Fixpoint first_prev_sibling_of_ancestors (fuel : nat) (c : cursor) : option cursor :=
  match fuel with
  | O => None
  | S f => match parent c with
           | None => None
           | Some p => match prev_sibling_or_token p with
                       | Some s => Some s
                       | None => first_prev_sibling_of_ancestors f p
                       end
           end
  end.
Definition rowan_prev_token (c : cursor) : option cursor :=
  match prev_sibling_or_token c with
  | Some e => last_token (fst e) (snd e)
  | None => match first_prev_sibling_of_ancestors (S (length (snd c))) c with
            | Some e => last_token (fst e) (snd e)
            | None => None
            end
  end.

(** covering_element(range) for a NON-EMPTY range lo < hi inside the node: descend while a child contains
    the range (the child is unique then, because siblings tile their parent; rowan's binary search finds it). *)
Fixpoint covering_from (lo hi : N) (off : N) (t : tree) (ctx : list frame) : cursor :=
  match t with
  | Tok _ _ => (t, ctx)
  | Node k cs =>
      (fix go (o : N) (left_rev : list tree) (l : list tree) : cursor :=
         match l with
         | [] => (t, ctx)
         | c :: r => if (o <=? lo) && (hi <=? o + tree_len c)
                     then covering_from lo hi o c (mkFrame k left_rev r :: ctx)
                     else go (o + tree_len c) (c :: left_rev) r
         end) off [] cs
  end.

Definition covering_element (root : tree) (lo hi : N) : option cursor :=
  if (lo <? hi) && (hi <=? tree_len root) then Some (covering_from lo hi 0 root []) else None.

(** typed-AST support over cursors: `support::child` (first child NODE of a kind), children with their cursors *)
Fixpoint child_cursors_go (k : SyntaxKind) (ctx : list frame) (left_rev : list tree) (l : list tree) : list cursor :=
  match l with
  | [] => []
  | c :: r => (c, mkFrame k left_rev r :: ctx) :: child_cursors_go k ctx (c :: left_rev) r
  end.
Definition child_cursors (c : cursor) : list cursor :=
  match fst c with
  | Tok _ _ => []
  | Node k cs => child_cursors_go k (snd c) [] cs
  end.
Definition child_node_cursors (p : SyntaxKind -> bool) (c : cursor) : list cursor :=
  filter (fun x => is_node (fst x) && p (kind_of (fst x))) (child_cursors c).
