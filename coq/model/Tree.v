(** M-tree: rowan green trees.  As in rowan, a node stores no absolute range: ranges are DERIVED
    from the byte lengths of the leaves (a token carries its text), so that children are contiguous
    and nested by construction, exactly like rowan's SyntaxNode::text_range. *)
From Coq Require Import List NArith Bool.
From TG.Gen Require Import GenTokens.
From TG.Model Require Import Chars.
Import ListNotations.
Open Scope N_scope.

Inductive tree : Type :=
| Node (k : SyntaxKind) (children : list tree)
| Tok (k : SyntaxKind) (txt : text).

Fixpoint tree_len (t : tree) : N :=
  match t with
  | Tok _ txt => bytes txt
  | Node _ cs => (fix go (l : list tree) : N := match l with [] => 0 | c :: r => tree_len c + go r end) cs
  end.
Definition forest_len (cs : list tree) : N := fold_right (fun c a => tree_len c + a) 0 cs.

Definition kind_of (t : tree) : SyntaxKind := match t with Node k _ | Tok k _ => k end.
Definition is_node (t : tree) : bool := match t with Node _ _ => true | Tok _ _ => false end.
Definition children_of (t : tree) : list tree := match t with Node _ cs => cs | Tok _ _ => [] end.

(** SyntaxNode::text(): concatenation of the leaf texts in order *)
Fixpoint tree_text (t : tree) : text :=
  match t with
  | Tok _ txt => txt
  | Node _ cs => (fix go (l : list tree) : text := match l with [] => [] | c :: r => tree_text c ++ go r end) cs
  end.

(** leaves with absolute byte ranges: (kind, lo, hi, text), in order, starting at [off] *)
Fixpoint leaves_from (off : N) (t : tree) : list (SyntaxKind * N * N * text) :=
  match t with
  | Tok k txt => [(k, off, off + bytes txt, txt)]
  | Node _ cs =>
      (fix go (o : N) (l : list tree) : list (SyntaxKind * N * N * text) :=
         match l with [] => [] | c :: r => leaves_from o c ++ go (o + tree_len c) r end) off cs
  end.
Definition leaves (t : tree) := leaves_from 0 t.

(** children with their absolute start offsets *)
Fixpoint with_offsets (off : N) (cs : list tree) : list (N * tree) :=
  match cs with [] => [] | c :: r => (off, c) :: with_offsets (off + tree_len c) r end.

(** descendants(): preorder list of NODES (not tokens) with their absolute ranges, self included *)
Fixpoint descendants_from (off : N) (t : tree) : list (N * N * tree) :=
  match t with
  | Tok _ _ => []
  | Node _ cs =>
      (off, off + tree_len t, t) ::
      (fix go (o : N) (l : list tree) : list (N * N * tree) :=
         match l with [] => [] | c :: r => descendants_from o c ++ go (o + tree_len c) r end) off cs
  end.
Definition descendants (t : tree) := descendants_from 0 t.

(** typed-accessor primitives (rowan::ast::support): child nodes of a given kind set *)
Definition child_nodes (p : SyntaxKind -> bool) (t : tree) : list tree :=
  filter (fun c => is_node c && p (kind_of c)) (children_of t).
Definition child_tokens (p : SyntaxKind -> bool) (t : tree) : list tree :=
  filter (fun c => negb (is_node c) && p (kind_of c)) (children_of t).

(** first / last token of a subtree (SyntaxNode::first_token / last_token) *)
Definition first_leaf (t : tree) := hd_error (leaves t).
Definition last_leaf_from (off : N) (t : tree) := last (map Some (leaves_from off t)) None.
