(** M-host, part 2 (C16, C07, C12): the session state (Vfs + AnalysisHost inputs),
    [touch] = lsp Server::set_file_content, histories, and the include-related derived queries:
    the indexer's include traversal (index.rs: [Include::index] with push_file/pop_file and the
    [indexed_files] set), document_link, the not-found diagnostics, the outline and the
    workspace (keys of Analysis::diagnostics).  salsa derived queries are functions of the
    current inputs (DESIGN section 2, assumed). *)
From Coq Require Import List NArith Bool.
From TG.Model Require Import Includes.
Import ListNotations.
Open Scope N_scope.

Section Host.
Context {path istr : Type} {PA : PathAlg path istr}.
Notation content := (content istr).
Notation item := (item istr).
Notation world := (world path istr).
Notation fsys := (@fsys path istr).
Notation inputs := (@inputs path istr).

Definition state := (fsys * inputs)%type.
Definition st_init : state := (fs_init, db_init).

(** Server::set_file_content(uri, text):
      vfs.set_open_document(path, text); let id = vfs.assign_or_get_file_id(path);
      host.set_file_content(id, text); host.set_root_file(&mut vfs, id) *)
Definition touch (fuel : nat) (w : world) (st : state) (p : path) (c : content) : outcome state :=
  let '(fs, db) := st in
  let fs1 := set_open fs p c in
  let '(f, fs2) := assign fs1 p in
  let db1 := set_fc db f c in
  set_root_file fuel w fs2 db1 f.

(** the raw AnalysisHost API (not used by the server): set_file_content without set_root_file *)
Definition raw_set_content (st : state) (p : path) (c : content) : state :=
  let '(fs, db) := st in
  let fs1 := set_open fs p c in
  let '(f, fs2) := assign fs1 p in
  (fs2, set_fc db f c).

Fixpoint run (fuel : nat) (w : world) (st : state) (h : list (path * content)) : outcome state :=
  match h with
  | [] => Done st
  | (p, c) :: r =>
      match touch fuel w st p c with
      | Done st' => run fuel w st' r
      | OutOfFuel => OutOfFuel
      | Panic e => Panic e
      end
  end.

(** ** the indexer's include traversal *)
Inductive event :=
| EvFile (f : N)                               (* IndexCtx::new(root) / push_file(f) *)
| EvDecl (f : N) (name : N)                    (* a symbol defined in file f *)
| EvNotFound (f : N) (sid : rng).              (* ctx.error(range, "include file not found: ..") *)

Record ictx := { indexed : list N; trace : list event (* newest first *) }.

Definition memN (f : N) (l : list N) : bool := existsb (fun g => g =? f) l.
Definition emit (e : event) (cx : ictx) : ictx := {| indexed := indexed cx; trace := e :: trace cx |}.
Definition enter (g : N) (cx : ictx) : ictx := {| indexed := g :: indexed cx; trace := EvFile g :: trace cx |}.

(** StatementList::index over the items of the file [f] on top of file_trace;
    [rec g cx] indexes the included file [g] *)
Fixpoint index_items (rec : N -> ictx -> outcome ictx) (db : inputs) (f : N) (its : list item)
         (cx : ictx) : outcome ictx :=
  match its with
  | [] => Done cx
  | IDecl nm :: r => index_items rec db f r (emit (EvDecl f nm) cx)
  | IInc sid reached _ :: r =>
      if reached then
        match rim db f with                               (* ctx.db.resolved_include_map(file_id) *)
        | None => Panic PUnsetIncludeMap
        | Some m =>
            match im_get sid m with
            | None => index_items rec db f r (emit (EvNotFound f sid) cx)
            | Some g =>
                if memN g (indexed cx) then index_items rec db f r cx   (* !indexed_files.insert(..) *)
                else
                  match rec g (enter g cx) with
                  | Done cx' => index_items rec db f r cx'
                  | OutOfFuel => OutOfFuel
                  | Panic e => Panic e
                  end
            end
        end
      else index_items rec db f r cx
  end.

(** SourceFile::index of file [f] (parse = file_content) *)
Fixpoint index_file (fuel : nat) (db : inputs) (f : N) (cx : ictx) : outcome ictx :=
  match fuel with
  | O => OutOfFuel
  | S n =>
      match fc db f with
      | None => Panic PUnsetContent
      | Some c => index_items (index_file n db) db f (c_items c) cx
      end
  end.

(** the [index] query: events in order of occurrence *)
Definition index (fuel : nat) (db : inputs) : outcome (list event) :=
  match sroot db with
  | None => Panic PNoSourceRoot
  | Some (_, root) =>
      match index_file fuel db root {| indexed := [root]; trace := [EvFile root] |} with
      | Done cx => Done (rev (trace cx))
      | OutOfFuel => OutOfFuel
      | Panic e => Panic e
      end
  end.

(** handlers/document_link.rs: (link range, target) for every include with a file name whose id
    is in the resolved map, in document order *)
Fixpoint links_of (m : list (rng * N)) (its : list item) : list (rng * N) :=
  match its with
  | [] => []
  | IInc sid _ (Some (_, lr)) :: r =>
      match im_get sid m with
      | Some t => (lr, t) :: links_of m r
      | None => links_of m r
      end
  | _ :: r => links_of m r
  end.

Definition document_link (db : inputs) (f : N) : outcome (list (rng * N)) :=
  match rim db f with
  | None => Panic PUnsetIncludeMap
  | Some m => match fc db f with
              | None => Panic PUnsetContent
              | Some c => Done (links_of m (c_items c))
              end
  end.

(** keys of Analysis::diagnostics = SourceRoot::iter_files *)
Definition workspace (db : inputs) : option (list (N * path)) :=
  match sroot db with Some (fset, _) => Some fset | None => None end.

(** the not-found diagnostics of file [f], in the order of the index *)
Fixpoint notfound_of (f : N) (tr : list event) : list rng :=
  match tr with
  | [] => []
  | EvNotFound g sid :: r => if g =? f then sid :: notfound_of f r else notfound_of f r
  | _ :: r => notfound_of f r
  end.

(** document_symbol(f): the names defined in f, in the order of the index; None when the file has
    no symbol list (SymbolMap::iter_symbols_in_file) *)
Fixpoint outline_of (f : N) (tr : list event) : list N :=
  match tr with
  | [] => []
  | EvDecl g nm :: r => if g =? f then nm :: outline_of f r else outline_of f r
  | _ :: r => outline_of f r
  end.

Fixpoint files_of (tr : list event) : list N :=
  match tr with
  | [] => []
  | EvFile g :: r => g :: files_of r
  | _ :: r => files_of r
  end.

End Host.
