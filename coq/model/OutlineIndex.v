(** M-outline-index (C18): hand model of the OUTLINE-RELEVANT SLICE of crates/ide/src/index.rs over the typed AST of
    CoreAst.v (the bridge harness/src/bin/coreast.rs builds it from the real parse tree through the real accessors).

    It emits, in the order index.rs makes the calls, exactly the symbol-map ops that decide what document_symbol shows:
      add_record / add_anonymous_def                       (Class::index, Def::index; is_global as computed there)
      add_template_argument + record_mut/multiclass_mut + add_template_arg       (TemplateArgDecl::index)
      add_record_field + record_mut + add_record_field     (FieldDef::index, FieldLet::index through find_field)
      record_mut + add_parent                              (ParentClassList::index in a record scope; find_field follows it)
      add_defset, defset_mut + add_def                     (Defset::index, Def::index)
      add_multiclass                                       (MultiClass::index)
    Everything else (values, references, variables, defms, diagnostics) allocates in other arenas or only touches the
    interval map, and is left out; the anonymous-name counter (shared by def and defm) is kept.  Which of these calls
    happens depends only on the statement structure, `find_class` (types, parents) and `find_field` (field overrides) --
    never on the type inference of values (since 5e125cb a foreach body is indexed whatever its iterator's type).
    Each op is applied to the SymbolMap.v state as it is emitted ([emit]), so [oi_ops] replays to [oi_sm]
    (proofs/OutlineIndexProofs.v).  The check compares [oi_ops] with the projection of the REAL op log. *)
From Coq Require Import List NArith Bool String.
From TG.Model Require Import Chars CoreAst SymbolMap Outline.
Import ListNotations.
Open Scope N_scope.

Inductive oscope := OBlock | ORecord (id : N) | ODefset (id : N) | OMulticlass (id : N) | ODefm.

Record ostate := mkO {
  oi_sm : symbol_map;
  oi_ops : list op;            (* newest first *)
  oi_trace : list N;           (* file_trace, innermost first *)
  oi_indexed : list N;         (* indexed_files *)
  oi_scopes : list oscope;     (* innermost first *)
  oi_anon : N;
  oi_bad : bool }.             (* an emitted op did not apply (a Rust panic), or fuel exhausted *)

Definition o0 : ostate := mkO sm_empty [] [0] [0] [] 0 false.

Definition set_sm_ops (s : ostate) (sm : symbol_map) (ops : list op) (bad : bool) : ostate :=
  mkO sm ops (oi_trace s) (oi_indexed s) (oi_scopes s) (oi_anon s) bad.
Definition set_files (s : ostate) (tr ix : list N) : ostate :=
  mkO (oi_sm s) (oi_ops s) tr ix (oi_scopes s) (oi_anon s) (oi_bad s).
Definition set_scopes (s : ostate) (sc : list oscope) : ostate :=
  mkO (oi_sm s) (oi_ops s) (oi_trace s) (oi_indexed s) sc (oi_anon s) (oi_bad s).
Definition set_anon (s : ostate) (a : N) : ostate :=
  mkO (oi_sm s) (oi_ops s) (oi_trace s) (oi_indexed s) (oi_scopes s) a (oi_bad s).
Definition set_bad (s : ostate) : ostate :=
  mkO (oi_sm s) (oi_ops s) (oi_trace s) (oi_indexed s) (oi_scopes s) (oi_anon s) true.

(** one mutating call of the symbol map *)
Definition emit (o : op) (s : ostate) : ostate :=
  if oi_bad s then s
  else match apply_op (oi_sm s) o with
       | SOk sm' => set_sm_ops s sm' (o :: oi_ops s) false
       | SErr _ => set_bad s
       end.

Definition cur_file (s : ostate) : N := match oi_trace s with f :: _ => f | [] => 0 end.
Definition loc_of (s : ostate) (r : rng) : file_range := mkFR (cur_file s) (r_lo r) (r_hi r).

Definition push_scope (k : oscope) (s : ostate) : ostate := set_scopes s (k :: oi_scopes s).
Definition pop_scope (s : ostate) : ostate := set_scopes s (tl (oi_scopes s)).

Fixpoint first_record (l : list oscope) : option N :=
  match l with [] => None | ORecord id :: _ => Some id | _ :: r => first_record r end.
Fixpoint first_defset (l : list oscope) : option N :=
  match l with [] => None | ODefset id :: _ => Some id | _ :: r => first_defset r end.
Fixpoint first_multiclass (l : list oscope) : option N :=
  match l with [] => None | OMulticlass id :: _ => Some id | _ :: r => first_multiclass r end.

(** decimal rendering (`{}` of an integer) *)
Fixpoint dec_go (fuel : nat) (n : N) (acc : list N) : list N :=
  match fuel with
  | O => acc
  | S f => let d := 48 + n mod 10 in
           if n <? 10 then d :: acc else dec_go f (n / 10) (d :: acc)
  end.
Definition dec (n : N) : list N := dec_go (S (N.to_nat (N.log2 n))) n [].

(** impl Indexable for ast::Type, as far as the Display string and the `?` are concerned *)
Fixpoint ty_string (sm : symbol_map) (t : ty) : option SymbolMap.name :=
  match t with
  | TyBit => Some (s2n "bit") | TyInt => Some (s2n "int") | TyString => Some (s2n "string")
  | TyCode => Some (s2n "code") | TyDag => Some (s2n "dag")
  | TyBits n => Some (s2n "bits<" ++ dec n ++ s2n ">")
  | TyList e => match ty_string sm e with Some x => Some (s2n "list<" ++ x ++ s2n ">") | None => None end
  | TyClass i => match find_class sm (i_name i) with Some _ => Some (i_name i) | None => None end
  end.

(** `v.inner_values().next()?.simple_value()` is an Identifier (index_name_value) *)
Definition value_first_ident (v : value) : option ident :=
  match v with Val _ (Inner (SId i) _ :: _) => Some i | _ => None end.

(** TemplateArgDecl::index *)
Definition index_targ (a : targ) (s : ostate) : ostate :=
  match a with
  | TArg t i _ =>
      match ty_string (oi_sm s) t with
      | None => s
      | Some typ =>
          let tid := next_id (oi_sm s) KTemplateArg in
          let s1 := emit (OpAddTemplateArg (i_name i) typ (loc_of s (i_rng i)) tid) s in
          match first_record (oi_scopes s1) with
          | Some rid => emit (OpRecAddTemplateArg (i_name i) tid) (emit (OpRecordMut rid) s1)
          | None =>
              match first_multiclass (oi_scopes s1) with
              | Some mid => emit (OpMcAddTemplateArg (i_name i) tid) (emit (OpMulticlassMut mid) s1)
              | None => set_bad s1          (* panic!("template arg decl outside of record or multiclass") *)
              end
          end
      end
  end.

(** ParentClassList::index in a record scope (the only case the outline depends on) *)
Definition index_parent (rid : N) (c : classref) (s : ostate) : ostate :=
  match c with
  | CRef i _ _ =>
      match find_class (oi_sm s) (i_name i) with
      | None => s
      | Some cid => if cid =? rid then s
                    else emit (OpRecAddParent cid) (emit (OpRecordMut rid) s)
      end
  end.

(** BodyItem::index: FieldDef, FieldLet *)
Definition index_item (rid : N) (it : item) (s : ostate) : ostate :=
  match it with
  | IField t i _ =>
      match ty_string (oi_sm s) t with
      | None => s
      | Some typ =>
          let fid := next_id (oi_sm s) KRecordField in
          emit (OpRecAddField (i_name i) fid)
            (emit (OpRecordMut rid)
               (emit (OpAddRecordField (i_name i) typ (loc_of s (i_rng i)) rid fid) s))
      end
  | ILet i _ =>
      match find_field (S (List.length (sm_records (oi_sm s)))) (oi_sm s) rid (i_name i) with
      | SOk (Some f0) =>
          match get_entry (oi_sm s) (KRecordField, f0) with
          | Some fe =>
              let fid := next_id (oi_sm s) KRecordField in
              emit (OpRecAddField (i_name i) fid)
                (emit (OpRecordMut rid)
                   (emit (OpAddRecordField (i_name i) (p_typ (e_payload fe)) (loc_of s (i_rng i)) rid fid) s))
          | None => set_bad s
          end
      | SOk None => s
      | SErr _ => set_bad s
      end
  | _ => s
  end.

Definition index_record_body (rid : N) (ps : list classref) (b : list item) (s : ostate) : ostate :=
  fold_left (fun st it => index_item rid it st) b (fold_left (fun st c => index_parent rid c st) ps s).

Definition anonymous_name (n : N) : SymbolMap.name := s2n "anonymous_" ++ dec n.

Section Statements.
  Variable files : list (list stmt).

  Fixpoint index_stmt (fuel : nat) (x : stmt) (s : ostate) : ostate :=
    match fuel with
    | O => set_bad s
    | S n =>
      let stmts := fun (b : list stmt) (st : ostate) => fold_left (fun a y => index_stmt n y a) b st in
      match x with
      | SInclude _ target =>
          match target with
          | None => s
          | Some f =>
              if existsb (N.eqb f) (oi_indexed s) then s
              else match nth_error files (N.to_nat f) with
                   | None => set_files s (oi_trace s) (f :: oi_indexed s)
                   | Some body =>
                       let s1 := set_files s (f :: oi_trace s) (f :: oi_indexed s) in
                       let s2 := stmts body s1 in
                       set_files s2 (tl (oi_trace s2)) (oi_indexed s2)
                   end
          end
      | SClass i targs ps b =>
          let rid := next_id (oi_sm s) KRecord in
          let s1 := push_scope (ORecord rid) (emit (OpAddRecord (i_name i) RKClass (loc_of s (i_rng i)) true rid) s) in
          let s2 := match targs with Some l => fold_left (fun st a => index_targ a st) l s1 | None => s1 end in
          pop_scope (index_record_body rid ps b s2)
      | SDef nm r ps b =>
          let dset := first_defset (oi_scopes s) in
          let same_file := match dset with
                           | Some d => match get_entry (oi_sm s) (KDefset, d) with
                                       | Some de => fr_file (e_def de) =? cur_file s
                                       | None => false
                                       end
                           | None => false
                           end in
          let rid := next_id (oi_sm s) KRecord in
          let after_add : option ostate :=
            match nm with
            | Some v => match value_first_ident v with
                        | Some i => Some (emit (OpAddRecord (i_name i) RKDef (loc_of s (i_rng i)) (negb same_file) rid) s)
                        | None => None
                        end
            | None => Some (emit (OpAddAnonymousDef (anonymous_name (oi_anon s)) (loc_of s r) rid)
                                 (set_anon s (oi_anon s + 1)))
            end in
          match after_add with
          | None => s
          | Some s1 =>
              let s2 := match dset with
                        | Some d => emit (OpDefsetAddDef rid) (emit (OpDefsetMut d) s1)
                        | None => s1
                        end in
              pop_scope (index_record_body rid ps b (push_scope (ORecord rid) s2))
          end
      | SDefm nm _ _ =>
          match nm with
          | None => set_anon s (oi_anon s + 1)
          | Some _ => s
          end
      | SDefset t i b =>
          match ty_string (oi_sm s) t with
          | None => s
          | Some typ =>
              let did := next_id (oi_sm s) KDefset in
              pop_scope (stmts b (push_scope (ODefset did) (emit (OpAddDefset (i_name i) typ (loc_of s (i_rng i)) did) s)))
          end
      | SForeach _ _ b => pop_scope (stmts b (push_scope OBlock s))
      | SIf _ th el =>
          let s1 := pop_scope (stmts th (push_scope OBlock s)) in
          match el with Some e => pop_scope (stmts e (push_scope OBlock s1)) | None => s1 end
      | SLet _ b => pop_scope (stmts b (push_scope OBlock s))
      | SMulticlass i targs _ b =>
          let mid := next_id (oi_sm s) KMulticlass in
          let s1 := push_scope (OMulticlass mid) (emit (OpAddMulticlass (i_name i) (loc_of s (i_rng i)) mid) s) in
          let s2 := match targs with Some l => fold_left (fun st a => index_targ a st) l s1 | None => s1 end in
          pop_scope (stmts b s2)
      | SAssert _ _ | SDefvar _ _ | SDump _ => s
      end
    end.
End Statements.

Definition oix (w : workspace) : ostate :=
  match ws_files w with
  | [] => o0
  | root :: _ => fold_left (fun a y => index_stmt (ws_files w) (ws_fuel w) y a) root o0
  end.

(** the emitted ops in call order, and the outline they determine *)
Definition oix_ops (w : workspace) : list op := rev (oi_ops (oix w)).
Definition outline_of_ws (w : workspace) (f : fileid) : sres (option (list docsym)) :=
  document_symbol (oi_sm (oix w)) f.
