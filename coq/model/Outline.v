(** M-outline (C18/C19): hand models of the handlers that read the symbol table:
      handlers/document_symbol.rs  exec, symbol_to_document_symbol
      handlers/hover.rs            exec, extract_symbol_signature          (doc comments: DocComments.v)
      handlers/inlay_hint.rs       exec, inlay_hint_class, inlay_hint_record_field
    over the state machine of SymbolMap.v (group symmap; replayable from the real op log, hook H3) and the green
    trees of Tree.v.  `panic`s (`expect("invalid … id")`) are [SErr].  Executable definitions only. *)
From Coq Require Import List NArith Bool String Ascii.
From TG.Gen Require Import GenTokens.
From TG.Model Require Import Chars Tree TreeNav SymbolMap DocComments.
Import ListNotations.
Open Scope N_scope.

(** string literals of the Rust source as code-point lists *)
Fixpoint s2n (s : string) : name :=
  match s with EmptyString => [] | String a r => N_of_ascii a :: s2n r end.

Fixpoint smap {A B} (f : A -> sres B) (l : list A) : sres (list B) :=
  match l with
  | [] => SOk []
  | x :: r => sbind (f x) (fun y => sbind (smap f r) (fun ys => SOk (y :: ys)))
  end.
Fixpoint filter_some {A} (l : list (option A)) : list A :=
  match l with [] => [] | Some x :: r => x :: filter_some r | None :: r => filter_some r end.

(** ================= document_symbol.rs ================= *)
Inductive ds_kind := DKClass | DKTemplateArgument | DKField | DKDef | DKVariable | DKDefset | DKMulticlass.
Inductive docsym := DocSym (nm : name) (typ : name) (lo hi : N) (kind : ds_kind) (children : list docsym).
Definition ds_name (d : docsym) := let '(DocSym n _ _ _ _ _) := d in n.
Definition ds_typ (d : docsym) := let '(DocSym _ t _ _ _ _) := d in t.
Definition ds_range (d : docsym) := let '(DocSym _ _ lo hi _ _) := d in (lo, hi).
Definition ds_kind_of (d : docsym) := let '(DocSym _ _ _ _ k _) := d in k.
Definition ds_children (d : docsym) := let '(DocSym _ _ _ _ _ c) := d in c.

(** `.map(|id| symbol_map.template_arg(id)).map(|arg| DocumentSymbol { name, typ: arg.typ.to_string(), range: arg.define_loc.range, .. })` *)
Definition leaf_docsym (S : symbol_map) (k : sym_kind) (dk : ds_kind) (id : N) : sres docsym :=
  sbind (symbol S (k, id)) (fun e =>
  SOk (DocSym (e_name e) (p_typ (e_payload e)) (fr_lo (e_def e)) (fr_hi (e_def e)) dk [])).
Definition targ_docsyms (S : symbol_map) (targs : list (name * N)) : sres (list docsym) :=
  smap (leaf_docsym S KTemplateArg DKTemplateArgument) (amap_values targs).
Definition field_docsyms (S : symbol_map) (fields : list (name * N)) : sres (list docsym) :=
  smap (leaf_docsym S KRecordField DKField) (amap_values fields).

(** the two `Symbol::Record` arms *)
Definition record_docsym (S : symbol_map) (e : entry) : sres (option docsym) :=
  match e_payload e with
  | PRecord RKClass targs fields _ =>
      sbind (targ_docsyms S targs) (fun ts =>
      sbind (field_docsyms S fields) (fun fs =>
      SOk (Some (DocSym (e_name e) (s2n "class") (fr_lo (e_def e)) (fr_hi (e_def e)) DKClass (ts ++ fs)))))
  | PRecord RKDef _ fields _ =>
      sbind (field_docsyms S fields) (fun fs =>
      SOk (Some (DocSym (e_name e) (s2n "def") (fr_lo (e_def e)) (fr_hi (e_def e)) DKDef fs)))
  | _ => SOk None
  end.

(** `record.define_loc.file == defset.define_loc.file` *)
Definition same_file_as (e de : entry) : bool := fr_file (e_def de) =? fr_file (e_def e).

Definition symbol_to_document_symbol (S : symbol_map) (s : symbol_id) : sres (option docsym) :=
  sbind (symbol S s) (fun e =>
  match fst s with
  | KRecord => record_docsym S e
  | KDefset =>
      (* defset.def_list.iter()
           .filter(|id| symbol_map.record(id).define_loc.file == defset.define_loc.file)      (fix 28899f7)
           .map(|id| symbol_map.symbol(id.into())).filter_map(|s| symbol_to_document_symbol(..)) *)
      sbind (smap (record S) (p_defs (e_payload e))) (fun des =>
      sbind (smap (record_docsym S) (filter (same_file_as e) des)) (fun ds =>
      SOk (Some (DocSym (e_name e) (s2n "defset") (fr_lo (e_def e)) (fr_hi (e_def e)) DKDefset (filter_some ds)))))
  | KMulticlass =>
      sbind (targ_docsyms S (p_targs (e_payload e))) (fun ts =>
      SOk (Some (DocSym (e_name e) (s2n "multiclass") (fr_lo (e_def e)) (fr_hi (e_def e)) DKMulticlass ts)))
  | _ => SOk None
  end).

Definition document_symbol (S : symbol_map) (f : fileid) : sres (option (list docsym)) :=
  match iter_symbols_in_file S f with
  | None => SOk None
  | Some ids => sbind (smap (symbol_to_document_symbol S) ids) (fun l => SOk (Some (filter_some l)))
  end.

(** ================= hover.rs: extract_symbol_signature ================= *)
Fixpoint join_with (sep : name) (l : list name) : name :=
  match l with [] => [] | [x] => x | x :: r => x ++ sep ++ join_with sep r end.
Definition is_nil {A} (l : list A) : bool := match l with [] => true | _ => false end.

Definition signature (S : symbol_map) (s : symbol_id) (e : entry) : sres name :=
  let n := e_name e in
  match fst s, e_payload e with
  | KRecord, PRecord RKClass targs _ _ =>
      sbind (smap (fun id => sbind (template_arg S id) (fun a =>
                   SOk (p_typ (e_payload a) ++ s2n " " ++ e_name a))) (amap_values targs)) (fun parts =>
      let ta := join_with (s2n ", ") parts in
      SOk (if is_nil ta then s2n "class " ++ n else s2n "class " ++ n ++ s2n "<" ++ ta ++ s2n ">"))
  | KRecord, PRecord RKDef _ _ _ => SOk (s2n "def " ++ n)
  | KTemplateArg, PTemplateArg typ => SOk (typ ++ s2n " " ++ n)
  | KRecordField, PRecordField typ parent =>
      sbind (record S parent) (fun pe => SOk (typ ++ s2n " " ++ e_name pe ++ s2n "::" ++ n))
  | KVariable, PVariable typ => SOk (typ ++ s2n " " ++ n)
  | KDefset, PDefset typ _ => SOk (typ ++ s2n " " ++ n)
  | KMulticlass, PMulticlass _ _ => SOk (s2n "multiclass " ++ n)
  | KDefm, PDefm _ => SOk (s2n "defm " ++ n)
  | _, _ => SErr (EInvalidId (fst s))        (* arena / payload mismatch: excluded by the SymbolMap invariant *)
  end.

Definition extract_symbol_signature (S : symbol_map) (f : fileid) (p : N) : sres (option (name * file_range)) :=
  sbind (find_symbol_at S f p) (fun r =>
  match r with
  | None => SOk None
  | Some (s, e) => sbind (signature S s e) (fun sig => SOk (Some (sig, e_def e)))
  end).

(** hover::exec: the signature, and the doc comments of the DEFINITION's file *)
Definition hover (S : symbol_map) (trees : fileid -> option tree) (f : fileid) (p : N)
  : sres (option (name * doc_result)) :=
  sbind (extract_symbol_signature S f p) (fun r =>
  match r with
  | None => SOk None
  | Some (sig, loc) =>
      SOk (Some (sig, match trees (fr_file loc) with
                      | Some t => extract_doc_comments t (fr_lo loc) (fr_hi loc)
                      | None => DocNone          (* db.parse of a file without text: not reachable *)
                      end))
  end).

(** ================= inlay_hint.rs ================= *)
Inductive hint_kind := HKTemplateArg | HKFieldLet.
Record hint := mkHint { h_pos : N; h_label : name; h_kind : hint_kind }.

(** `root.covering_element(range)` then `match id_node.kind() { Id => id_node.parent()?, Identifier => into_node()?, _ => None }` *)
Definition identifier_node (t : tree) (lo hi : N) (allow_identifier : bool) : option cursor :=
  match covering_element t lo hi with
  | None => None
  | Some idn =>
      match kind_of (fst idn) with
      | S_Id => parent idn
      | S_Identifier => if allow_identifier && is_node (fst idn) then Some idn else None
      | _ => None
      end
  end.

(** `ast::ClassRef::arg_value_list` / `ast::ClassValue::arg_value_list`: support::child = first child NODE castable *)
Definition arg_value_list (c : cursor) : option cursor :=
  hd_error (child_node_cursors (fun k => sk_eqb k S_ArgValueList) c).
(** `arg_values()` = support::children::<ArgValue>; `.take_while(|it| matches!(it, PositionalArgValue(_)))` *)
Definition is_arg_value (k : SyntaxKind) : bool := sk_eqb k S_PositionalArgValue || sk_eqb k S_NamedArgValue.
Fixpoint take_while {A} (p : A -> bool) (l : list A) : list A :=
  match l with [] => [] | x :: r => if p x then x :: take_while p r else [] end.
Definition positional_arg_starts (arg_list : cursor) : list N :=
  map cur_offset (take_while (fun c => sk_eqb (kind_of (fst c)) S_PositionalArgValue)
                             (child_node_cursors is_arg_value arg_list)).

(** `for (arg_range, name) in arg_ranges.zip(template_arg_names) { hints.push(InlayHint::new(arg_range.start(), format!("{}:", name), TemplateArg)) }` *)
Definition zip_hints (starts : list N) (names : list name) : list hint :=
  map (fun pn : N * name => mkHint (fst pn) (snd pn ++ s2n ":") HKTemplateArg) (combine starts names).

Definition class_arg_list (t : tree) (lo hi : N) : option cursor :=
  match identifier_node t lo hi true with
  | None => None
  | Some idc =>
      match parent idc with
      | None => None
      | Some cn =>
          if sk_eqb (kind_of (fst cn)) S_ClassRef || sk_eqb (kind_of (fst cn)) S_ClassValue
          then arg_value_list cn else None
      end
  end.

Definition inlay_hint_class (S : symbol_map) (t : tree) (targs : list (name * N)) (lo hi : N) : sres (list hint) :=
  match class_arg_list t lo hi with
  | None => SOk []
  | Some al =>
      sbind (smap (fun id => sbind (template_arg S id) (fun a => SOk (e_name a))) (amap_values targs)) (fun names =>
      SOk (zip_hints (positional_arg_starts al) names))
  end.

Definition inlay_hint_record_field (t : tree) (typ : name) (lo hi : N) : list hint :=
  match identifier_node t lo hi false with
  | None => []
  | Some idc =>
      match parent idc with
      | None => []
      | Some fl => if sk_eqb (kind_of (fst fl)) S_FieldLet
                   then [mkHint hi (s2n ":" ++ typ) HKFieldLet] else []
      end
  end.

(** `range.range.contains_inclusive(hint.position)` *)
Definition in_range_inclusive (loc : file_range) (h : hint) : bool :=
  (fr_lo loc <=? h_pos h) && (h_pos h <=? fr_hi loc).

Definition hints_of_symbol (S : symbol_map) (t : tree) (x : file_range * symbol_id) : sres (list hint) :=
  let '(sloc, sid) := x in
  sbind (symbol S sid) (fun e =>
  match fst sid, e_payload e with
  | KRecord, PRecord RKClass targs _ _ => inlay_hint_class S t targs (fr_lo sloc) (fr_hi sloc)
  | KRecordField, PRecordField typ _ => SOk (inlay_hint_record_field t typ (fr_lo sloc) (fr_hi sloc))
  | _, _ => SOk []
  end).

Definition inlay_hint (S : symbol_map) (trees : fileid -> option tree) (loc : file_range) : sres (option (list hint)) :=
  sbind (iter_symbols_in_range S loc) (fun r =>
  match r with
  | None => SOk None
  | Some l =>
      match trees (fr_file loc) with
      | None => SOk (Some [])                     (* db.parse of a file without text: not reachable *)
      | Some t =>
          sbind (smap (hints_of_symbol S t) l) (fun hs =>
          SOk (Some (filter (in_range_inclusive loc) (List.concat hs))))
      end
  end).
