(** LexSpec: the token language of TableGen, written from the LLVM "TableGen Programmer's Reference"
    (section Lexical Analysis), independently of the lexer model (Lexer.v is NOT imported).

    The only things shared with the rest of the development are the type [text = list N] of code
    points and the NAMES of the token kinds ([TokenKind], generated from token_kind.rs): the table
    below says which reference token class / spelling the server calls by which kind.

    Reference grammar (quoted):
      TokInteger     ::= DecimalInteger | HexInteger | BinInteger
      DecimalInteger ::= ["+" | "-"] ("0"..."9")+
      HexInteger     ::= "0x" ("0"..."9" | "a"..."f" | "A"..."F")+
      BinInteger     ::= "0b" ("0" | "1")+
      ualpha         ::= "a"..."z" | "A"..."Z" | "_"
      TokIdentifier  ::= ("0"..."9")* ualpha (ualpha | "0"..."9")*
      TokVarName     ::= "$" ualpha (ualpha | "0"..."9")*
      TokString      ::= '"' (non-'"' characters and escapes) '"'      escapes: \\ \' \" \t \n
      TokCode        ::= "[{" (shortest sequence of characters that ends with "}]")
      punctuation    ::= - + [ ] { } ( ) < > : ; . ... = ? #   (and the comma used by every list)
      keywords, BangOperator, CondOperator: the lists below.
      "TableGen supports BCPL-style comments (// ...) and nestable C-style comments (/* ... */)."
      "Formfeed characters may be used freely in files to produce page breaks".
      "In case of ambiguity, a token is interpreted as a numeric literal rather than an identifier."
    Integers must fit 64 bits (llvm-tblgen: "Integer value is out of range" otherwise): an unsigned or
    '+' decimal, a hex and a binary literal is < 2^64, a '-' decimal is >= -2^63. *)
From Coq Require Import List NArith Bool String Ascii.
From TG.Gen Require Import GenTokens.
Import ListNotations.
Open Scope N_scope.

Definition stext := list N.

Fixpoint cps (s : string) : stext :=
  match s with EmptyString => [] | String a r => N_of_ascii a :: cps r end.

Fixpoint stext_eqb (a b : stext) : bool :=
  match a, b with
  | [], [] => true
  | x :: a', y :: b' => (x =? y) && stext_eqb a' b'
  | _, _ => false
  end.

Fixpoint is_prefix (p s : stext) : bool :=
  match p, s with
  | [], _ => true
  | x :: p', y :: s' => (x =? y) && is_prefix p' s'
  | _ :: _, [] => false
  end.

(** first character test; [false] at the end of the text *)
Definition hdp (p : N -> bool) (r : stext) : bool := match r with c :: _ => p c | [] => false end.
Definition is_nil (r : stext) : bool := match r with [] => true | _ => false end.

(** * Character classes of the reference *)
Definition digit (c : N) : bool := (48 <=? c) && (c <=? 57).
Definition ualpha (c : N) : bool := ((97 <=? c) && (c <=? 122)) || ((65 <=? c) && (c <=? 90)) || (c =? 95).
Definition letter (c : N) : bool := ((97 <=? c) && (c <=? 122)) || ((65 <=? c) && (c <=? 90)).
Definition idchar (c : N) : bool := ualpha c || digit c.
Definition hexdigit (c : N) : bool := digit c || ((97 <=? c) && (c <=? 102)) || ((65 <=? c) && (c <=? 70)).
Definition bindigit (c : N) : bool := (c =? 48) || (c =? 49).
Definition newline (c : N) : bool := (c =? 10) || (c =? 13).
(** blank, tab, line feed, form feed, carriage return *)
Definition wschar (c : N) : bool := (c =? 32) || (c =? 9) || (c =? 10) || (c =? 12) || (c =? 13).
Definition escchar (c : N) : bool := (c =? 92) || (c =? 39) || (c =? 34) || (c =? 116) || (c =? 110).

(** * Fixed spellings *)
Definition keywords : list (string * TokenKind) :=
  [ ("assert", T_Assert); ("bit", T_Bit); ("bits", T_Bits); ("class", T_Class); ("code", T_Code);
    ("dag", T_Dag); ("def", T_Def); ("dump", T_Dump); ("else", T_ElseKw); ("false", T_FalseVal);
    ("foreach", T_Foreach); ("defm", T_Defm); ("defset", T_Defset); ("defvar", T_Defvar); ("field", T_Field);
    ("if", T_If); ("in", T_In); ("include", T_Include); ("int", T_Int); ("let", T_Let);
    ("list", T_List); ("multiclass", T_MultiClass); ("string", T_String); ("then", T_Then); ("true", T_TrueVal) ]%string.

(** BangOperator and CondOperator of the reference ([!logtwo], not [!log2]); the kind is the server's name *)
Definition bangs : list (string * TokenKind) :=
  [ ("!add", T_XAdd); ("!and", T_XAnd); ("!cast", T_XCast); ("!con", T_XCon); ("!dag", T_XDag);
    ("!div", T_XDiv); ("!empty", T_XEmpty); ("!eq", T_XEq); ("!exists", T_XExists); ("!filter", T_XFilter);
    ("!find", T_XFind); ("!foldl", T_XFoldl); ("!foreach", T_XForEach); ("!ge", T_XGe); ("!getdagarg", T_XGetDagArg);
    ("!getdagname", T_XGetDagName); ("!getdagop", T_XGetDagOp); ("!gt", T_XGt); ("!head", T_XHead); ("!if", T_XIf);
    ("!initialized", T_XInitialized); ("!interleave", T_XInterleave); ("!isa", T_XIsA); ("!le", T_XLe);
    ("!listconcat", T_XListConcat); ("!listflatten", T_XListFlatten); ("!listremove", T_XListRemove);
    ("!listsplat", T_XListSplat); ("!logtwo", T_XLog2); ("!lt", T_XLt); ("!mul", T_XMul); ("!ne", T_XNe);
    ("!not", T_XNot); ("!or", T_XOr); ("!range", T_XRange); ("!repr", T_XRepr); ("!setdagarg", T_XSetDagArg);
    ("!setdagname", T_XSetDagName); ("!setdagop", T_XSetDagOp); ("!shl", T_XShl); ("!size", T_XSize);
    ("!sra", T_XSra); ("!srl", T_XSrl); ("!strconcat", T_XStrConcat); ("!sub", T_XSub); ("!subst", T_XSubst);
    ("!substr", T_XSubstr); ("!tail", T_XTail); ("!tolower", T_XToLower); ("!toupper", T_XToUpper);
    ("!xor", T_XXor); ("!cond", T_XCond) ]%string.

Definition puncts : list (string * TokenKind) :=
  [ ("-", T_Minus); ("+", T_Plus); ("[", T_LSquare); ("]", T_RSquare); ("{", T_LBrace); ("}", T_RBrace);
    ("(", T_LParen); (")", T_RParen); ("<", T_Less); (">", T_Greater); (":", T_Colon); (";", T_Semi);
    (",", T_Comma); (".", T_Dot); ("...", T_DotDotDot); ("=", T_Equal); ("?", T_Question); ("#", T_Paste) ]%string.

(** preprocessing directives (section "Preprocessing Facilities") *)
Definition directives : list (string * TokenKind) :=
  [ ("#define", T_Define); ("#ifdef", T_Ifdef); ("#ifndef", T_Ifndef); ("#else", T_Else); ("#endif", T_Endif) ]%string.
Definition directive_words : list string := [ "define"; "ifdef"; "ifndef"; "else"; "endif" ]%string.

Definition in_table (tbl : list (string * TokenKind)) (k : TokenKind) (w : stext) : bool :=
  existsb (fun e => tk_eqb (snd e) k && stext_eqb (cps (fst e)) w) tbl.
Definition kind_in (tbl : list (string * TokenKind)) (k : TokenKind) : bool :=
  existsb (fun e => tk_eqb (snd e) k) tbl.
Definition word_in (tbl : list (string * TokenKind)) (w : stext) : bool :=
  existsb (fun e => stext_eqb (cps (fst e)) w) tbl.

(** * Token classes with an infinite language *)

(** TokIdentifier: a non-empty word over ualpha and digits that contains a ualpha
    (that is: digits, then a ualpha, then ualphas and digits), ... *)
Definition ident_shape (w : stext) : bool := forallb idchar w && existsb ualpha w.
(** ... that is not a reserved word, and that does not begin with a complete numeric literal
    [0x<hexdigit>] / [0b<bindigit>] ("in case of ambiguity ... a numeric literal"; llvm-tblgen lexes
    0x1g as the integer 0x1 followed by g). *)
Definition radix_literal_prefix (w : stext) : bool :=
  match w with
  | z :: m :: d :: _ => (z =? 48) && (((m =? 120) && hexdigit d) || ((m =? 98) && bindigit d))
  | _ => false
  end.
Definition is_ident (w : stext) : bool :=
  ident_shape w && negb (word_in keywords w) && negb (radix_literal_prefix w).

Definition is_var (w : stext) : bool :=
  match w with
  | d :: c :: cs => (d =? 36) && ualpha c && forallb idchar cs
  | _ => false
  end.

(** value of a digit string *)
Definition digit_value (c : N) : N :=
  if digit c then c - 48 else if (97 <=? c) then c - 97 + 10 else c - 65 + 10.
Definition value_of (base : N) (ds : stext) : N := fold_left (fun a d => a * base + digit_value d) ds 0.
Definition two64 : N := 2 ^ 64.
Definition two63 : N := 2 ^ 63.

Definition is_dec (w : stext) : bool :=
  match w with
  | [] => false
  | c :: ds =>
      if c =? 43 then negb (is_nil ds) && forallb digit ds && (value_of 10 ds <? two64)
      else if c =? 45 then negb (is_nil ds) && forallb digit ds && (value_of 10 ds <=? two63)
      else forallb digit w && (value_of 10 w <? two64)
  end.
Definition is_hex (w : stext) : bool :=
  match w with
  | z :: x :: ds => (z =? 48) && (x =? 120) && negb (is_nil ds) && forallb hexdigit ds && (value_of 16 ds <? two64)
  | _ => false
  end.
Definition is_bin (w : stext) : bool :=
  match w with
  | z :: b :: ds => (z =? 48) && (b =? 98) && negb (is_nil ds) && forallb bindigit ds && (value_of 2 ds <? two64)
  | _ => false
  end.

(** TokString: after the opening quote, a sequence of plain characters (anything but quote, backslash
    and line ends) and two-character escapes, ended by the closing quote, which must be the last
    character of the lexeme. *)
Fixpoint str_tail (s : stext) : bool :=
  match s with
  | [] => false
  | c :: r =>
      if c =? 34 then is_nil r
      else if c =? 92 then match r with e :: r' => escchar e && str_tail r' | [] => false end
      else negb (newline c) && str_tail r
  end.
Definition is_string (w : stext) : bool :=
  match w with q :: r => (q =? 34) && str_tail r | [] => false end.

(** TokCode: after "[{", the shortest sequence that ends with "}]": the first occurrence of "}]"
    is the end of the lexeme. *)
Fixpoint code_tail (s : stext) : bool :=
  match s with
  | [] => false
  | c :: r => if (c =? 125) && hdp (N.eqb 93) r then is_nil (tl r) else code_tail r
  end.
Definition is_code (w : stext) : bool :=
  match w with a :: b :: r => (a =? 91) && (b =? 123) && code_tail r | _ => false end.

(** * Separators *)
Definition is_ws (w : stext) : bool := negb (is_nil w) && forallb wschar w.
Definition is_line_comment (w : stext) : bool :=
  match w with a :: b :: r => (a =? 47) && (b =? 47) && forallb (fun c => negb (newline c)) r | _ => false end.

(** Nestable C-style comment: after the opening "/*", scanning left to right, "/*" opens a nested
    comment, "*/" closes the innermost open one; the lexeme ends exactly where the outermost closes
    ([depth] = number of nested comments currently open). *)
Fixpoint bc_tail (depth : nat) (s : stext) : bool :=
  match s with
  | [] => false
  | c :: r =>
      match r with
      | d :: r' =>
          if (c =? 47) && (d =? 42) then bc_tail (S depth) r'
          else if (c =? 42) && (d =? 47) then
            match depth with O => is_nil r' | S depth' => bc_tail depth' r' end
          else bc_tail depth r
      | [] => false
      end
  end.
Definition is_block_comment (w : stext) : bool :=
  match w with a :: b :: r => (a =? 47) && (b =? 42) && bc_tail O r | _ => false end.

(** A declarative reading of the same language, used to show that [bc_tail] accepts every well-nested
    comment: a comment body is a list of events; [CO] renders "/*", [CC] renders "*/". *)
Inductive cev := CCh (c : N) | CO | CC.
Definition render_cev (e : cev) : stext := match e with CCh c => [c] | CO => [47; 42] | CC => [42; 47] end.
Definition render_cevs (es : list cev) : stext := List.concat (map render_cev es).
(** events from depth [d] (nested comments open) up to and including the close of the outermost *)
Fixpoint cev_closed (d : nat) (es : list cev) : bool :=
  match es with
  | [] => false
  | CCh _ :: r => cev_closed d r
  | CO :: r => cev_closed (S d) r
  | CC :: r => match d with O => match r with [] => true | _ => false end | S d' => cev_closed d' r end
  end.
(** no plain character forms a delimiter with the character rendered after it *)
Fixpoint cev_clean (es : list cev) : bool :=
  match es with
  | [] => true
  | CCh c :: r =>
      negb ((c =? 47) && hdp (N.eqb 42) (render_cevs r)) && negb ((c =? 42) && hdp (N.eqb 47) (render_cevs r))
      && cev_clean r
  | _ :: r => cev_clean r
  end.

(** * The specification relation: lexeme [w] is an instance of the token class the server names [k] *)
Definition spec_tok (k : TokenKind) (w : stext) : bool :=
  match k with
  | T_Id => is_ident w
  | T_IntVal => is_dec w || is_hex w
  | T_BinaryIntVal => is_bin w
  | T_StrVal => is_string w
  | T_CodeFragment => is_code w
  | T_VarName => is_var w
  | _ => in_table keywords k w || in_table bangs k w || in_table puncts k w
  end.

(** preprocessing directives as lexical items (not part of the C14 statement; used by C15) *)
Definition spec_directive (k : TokenKind) (w : stext) : bool := in_table directives k w.

Definition spec_sep (k : TokenKind) (w : stext) : bool :=
  match k with
  | T_Whitespace => is_ws w
  | T_LineComment => is_line_comment w
  | T_BlockComment => is_block_comment w
  | _ => false
  end.

(** * When may a piece be directly followed by the text [r]?  (maximal munch does not merge them)
    - a word-like token (identifier, keyword, integer, $name) is not followed by a letter, digit or '_';
    - a bang operator is not followed by a letter;
    - '+' and '-' are not followed by a digit (that would be a signed integer);
    - '.' is not followed by '.', '[' is not followed by '{' (code fragment);
    - '#' is not followed by a directive word (that is the directive);
    - a directive is not followed by a letter;
    - a white-space run is maximal; a line comment extends to the end of the line or of the text. *)
Definition wordlike (k : TokenKind) : bool :=
  match k with
  | T_Id | T_IntVal | T_BinaryIntVal | T_VarName => true
  | _ => kind_in keywords k
  end.

Definition follow_ok (k : TokenKind) (r : stext) : bool :=
  if wordlike k then negb (hdp idchar r)
  else if kind_in bangs k then negb (hdp letter r)
  else if kind_in directives k then negb (hdp letter r) && negb (hdp (fun c => 128 <=? c) r)
  else match k with
  | T_Plus | T_Minus => negb (hdp digit r)
  | T_Dot => negb (hdp (N.eqb 46) r)
  | T_LSquare => negb (hdp (N.eqb 123) r)
  | T_Paste => negb (existsb (fun d => is_prefix (cps d) r) directive_words)
  | T_Whitespace => negb (hdp wschar r)
  | T_LineComment => is_nil r || hdp newline r
  | _ => true
  end.

(** * Sequences of pieces *)
Record piece := mkpiece { pk : TokenKind; pw : stext }.

Definition valid_piece (p : piece) : bool := spec_tok (pk p) (pw p) || spec_sep (pk p) (pw p).
Definition valid_piece_d (p : piece) : bool := valid_piece p || spec_directive (pk p) (pw p).

Definition render (ps : list piece) : stext := List.concat (map pw ps).

(** the side condition of C14: no piece is merged with what follows it *)
Fixpoint not_merged (ps : list piece) : bool :=
  match ps with
  | [] => true
  | p :: rest => follow_ok (pk p) (render rest) && not_merged rest
  end.

(** the usual sufficient condition: tokens are separated by well-formed gaps.
    [is_sep p]: p is a separator piece;  adjacent pieces: at least one of them is a separator, two
    white-space runs are not adjacent, a line comment is followed by a white-space run that begins
    with a line end (or by nothing). *)
Definition is_sep (p : piece) : bool :=
  match pk p with T_Whitespace | T_LineComment | T_BlockComment => true | _ => false end.
Definition adjacent_ok (p q : piece) : bool :=
  (is_sep p || is_sep q)
  && match pk p with
     | T_Whitespace => negb (tk_eqb (pk q) T_Whitespace)
     | T_LineComment => tk_eqb (pk q) T_Whitespace && hdp newline (pw q)
     | _ => true
     end.
Fixpoint separated (ps : list piece) : bool :=
  match ps with
  | p :: (q :: _) as rest => adjacent_ok p q && separated rest
  | _ => true
  end.

(** expected token list of the lexer: kinds, no error, lexemes (= boundaries), then Eof *)
Definition expected_tokens {E} (ps : list piece) : list (TokenKind * option E * stext) :=
  map (fun p => (pk p, None, pw p)) ps ++ [(T_Eof, None, [])].

(** * The class of defect D26 (repaired in /repo by 35af9d5): identifiers that begin with "0x" or "0b"
    (identifiers because no digit of that base follows the prefix: 0b, 0x, 0bz, 0xg, 0b2, 0x_1) were
    reported as "Invalid binary/hexadecimal number".  Kept to name the class. *)
Definition radix_word (w : stext) : bool :=
  match w with z :: m :: _ => (z =? 48) && ((m =? 120) || (m =? 98)) | _ => false end.
Definition known_d26 (p : piece) : bool := tk_eqb (pk p) T_Id && radix_word (pw p).
Definition outside_known (ps : list piece) : bool := negb (existsb known_d26 ps).

(** * Where the side condition is deliberately coarser than the lexer ([follow_ok] may be false although
    the lexer does not merge): a signed decimal / hex / binary integer directly followed by a letter or '_'
    that is no digit of its base (+12x, 0x1g, 0b12: the lexer, like llvm-tblgen, ends the integer there; the
    reference grammar is ambiguous), '#' followed by a directive word that goes on (#ifdefx), and the
    directives themselves.  Everywhere else the side condition is EXACT (C14_side_condition_exact). *)
Definition conservative (k : TokenKind) (a : stext) : bool :=
  ((tk_eqb k T_IntVal || tk_eqb k T_BinaryIntVal) && negb (forallb digit a))
  || tk_eqb k T_Paste || kind_in directives k.
Fixpoint no_conservative (ps : list piece) : bool :=
  match ps with [] => true | p :: rest => negb (conservative (pk p) (pw p)) && no_conservative rest end.
