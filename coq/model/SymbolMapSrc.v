(** Combinators and representation helpers for the translated source of the symbol map
    (coq/gen/GenSymbolMap.v, translator tools/translate/t_symbolmap.py; group "lines").

    The rendering works on the SAME state type and library contracts as the hand model TG.Model.SymbolMap
    (arenas = lists of [entry], HashMap / IndexMap = association lists, iset::IntervalMap = sorted interval list);
    this file only adds what a one-to-one rendering of the Rust text needs:
    - the Rust structs Record / TemplateArgument / RecordField / Variable / Defset / Multiclass / Defm as views of
      [entry]: constructors (struct literal, fields in declaration order; `has_default_value` and `Variable::kind`
      are not modelled and dropped), field getters and kind-specific setters;
    - `&mut` borrows into an arena as the borrowed [symbol_id];
    - `for` loops with `continue` / `break` / early `return`, `HashSet::insert`.
    Executable definitions only. *)
From Coq Require Import List NArith Bool.
From TG.Model Require Import Chars SymbolMap.
Import ListNotations.
Open Scope N_scope.

Notation "x <- r ;; k" := (sbind r (fun x => k)) (at level 61, r at next level, right associativity).

(** ** struct literals *)
Definition mk_Record (n : name) (k : record_kind) (targs fields : list (name * N)) (parents : list N)
  (def : file_range) (refs : list file_range) : entry := mkEntry n def refs (PRecord k targs fields parents).
Definition mk_RecordField (n : name) (typ : name) (parent : N) (def : file_range) (refs : list file_range) : entry :=
  mkEntry n def refs (PRecordField typ parent).
Definition mk_TemplateArgument (n : name) (typ : name) (has_default_value : bool) (def : file_range)
  (refs : list file_range) : entry := mkEntry n def refs (PTemplateArg typ).
Definition mk_Variable (n : name) (typ : name) (kind : unit) (def : file_range) (refs : list file_range) : entry :=
  mkEntry n def refs (PVariable typ).
Definition mk_Defset (n : name) (typ : name) (defs : list N) (def : file_range) (refs : list file_range) : entry :=
  mkEntry n def refs (PDefset typ defs).
Definition mk_Multiclass (n : name) (targs : list (name * N)) (parents : list N) (def : file_range)
  (refs : list file_range) : entry := mkEntry n def refs (PMulticlass targs parents).
Definition mk_Defm (n : name) (parents : list N) (def : file_range) (refs : list file_range) : entry :=
  mkEntry n def refs (PDefm parents).

(** ** field getters that SymbolMap.v does not have in total form *)
Definition rec_kind (e : entry) : record_kind := match e_payload e with PRecord k _ _ _ => k | _ => RKDef end.
Definition field_parent (e : entry) : N := match e_payload e with PRecordField _ r => r | _ => 0 end.
Definition record_kind_eqb (a b : record_kind) : bool :=
  match a, b with RKClass, RKClass | RKDef, RKDef => true | _, _ => false end.

(** ** field setters (kind-specific: the static type of the Rust value decides which one is used) *)
Definition set_refs (e : entry) (r : list file_range) : entry := mkEntry (e_name e) (e_def e) r (e_payload e).
Definition rec_set_targs (e : entry) (t : list (name * N)) : entry :=
  upd_payload (fun p => match p with PRecord k _ f ps => PRecord k t f ps | _ => p end) e.
Definition rec_set_fields (e : entry) (f : list (name * N)) : entry :=
  upd_payload (fun p => match p with PRecord k t _ ps => PRecord k t f ps | _ => p end) e.
Definition rec_set_parents (e : entry) (ps : list N) : entry :=
  upd_payload (fun p => match p with PRecord k t f _ => PRecord k t f ps | _ => p end) e.
Definition defset_set_defs (e : entry) (ds : list N) : entry :=
  upd_payload (fun p => match p with PDefset ty _ => PDefset ty ds | _ => p end) e.
Definition mc_set_targs (e : entry) (t : list (name * N)) : entry :=
  upd_payload (fun p => match p with PMulticlass _ ps => PMulticlass t ps | _ => p end) e.
Definition mc_set_parents (e : entry) (ps : list N) : entry :=
  upd_payload (fun p => match p with PMulticlass t _ => PMulticlass t ps | _ => p end) e.
Definition defm_set_parents (e : entry) (ps : list N) : entry :=
  upd_payload (fun p => match p with PDefm _ => PDefm ps | _ => p end) e.

(** ** arenas: `get_mut(id).expect(..)` yields a borrow = the id of the borrowed entry; a method called through a
    borrow rewrites that entry in place *)
Definition arena_borrow (S : symbol_map) (k : sym_kind) (id : N) : sres symbol_id :=
  match get_entry S (k, id) with Some _ => SOk (k, id) | None => SErr (EInvalidId k) end.
Definition update_entry_m (S : symbol_map) (b : symbol_id) (f : entry -> sres entry) : sres symbol_map :=
  match get_entry S b with
  | Some e => e' <- f e ;; SOk (update_entry S b (fun _ => e'))
  | None => SErr (EInvalidId (fst b))
  end.

(** ** `self.pos_to_symbol_map.entry(file).or_insert_with(IntervalMap::new).insert(range, id)` *)
Definition pos_insert (S : symbol_map) (f : fileid) (lo hi : N) (s : symbol_id) : sres symbol_map :=
  let m := match fmap_get (sm_pos S) f with Some m => m | None => [] end in
  m' <- ivl_insert_checked m lo hi s ;; SOk (set_pos S (fmap_set (sm_pos S) f m')).

(** ** `HashSet<RecordId>::insert`: true when the value was not present (the set is a list, newest first) *)
Definition hs_insert (vis : list N) (x : N) : bool * list N :=
  if vis_mem x vis then (false, vis) else (true, x :: vis).

(** ** `for x in xs { body }` with `continue`, `break` and early `return` *)
Inductive lctl (St R : Type) : Type := LContinue (s : St) | LBreak (s : St) | LReturn (r : R).
Arguments LContinue {St R} s.
Arguments LBreak {St R} s.
Arguments LReturn {St R} r.
Fixpoint for_loop_r {A St R : Type} (xs : list A) (body : A -> St -> sres (lctl St R)) (s : St) : sres (St + R) :=
  match xs with
  | [] => SOk (inl s)
  | x :: r =>
      c <- body x s ;;
      match c with
      | LContinue s' => for_loop_r r body s'
      | LBreak s' => SOk (inl s')
      | LReturn v => SOk (inr v)
      end
  end.

(** ** a struct method called on the target of the last `*_mut` borrow (the cursor of the op-log model) *)
Definition with_cur_m (S : symbol_map) (k : sym_kind) (f : entry -> sres entry) : sres symbol_map :=
  match sm_cur S with
  | Some (k', id) => if sym_kind_eqb k k' then update_entry_m S (k, id) f else SErr ENoCursor
  | None => SErr ENoCursor
  end.
