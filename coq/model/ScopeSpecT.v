(** ScopeSpecT: the declarative resolver of ScopeSpec.v extended with FIELD ACCESS `v.f`.
    A field access needs to know which class / def a value belongs to; the environment therefore records, next to
    every frame, what is known about the type of each of its declarations ([tframe], [sty]: nothing, the k-th class,
    the k-th def - counted in the order of declaration), and, next to the defs, their flattened field tables
    ([e_dtbl]).  The type of a declaration is known when it is written down: a field / template argument declared
    with a class type, a defvar (or statement-level defvar) whose initialiser is an identifier or a class value; a
    def name used as a value is that def; a class value `A<..>` is of class A; a field inherited from a parent class
    has the type it was declared with there (the class tables carry the types of their fields, [ci_ftys], [align]) and a
    field `let` keeps the type of the field it re-declares.  [spec_sufs]: a suffix `.f` on a
    value of a known record type denotes the field f of its flattened table; on anything else (and after any other
    suffix, or after another `.f`) nothing is known and the use is listed as unresolved.
    Everything else is ScopeSpec.v verbatim (same rules; the comment there applies). *)
From Coq Require Import List NArith Bool.
From TG.Model Require Import CoreAst.
Import ListNotations.
Open Scope N_scope.

Definition ev : Type := (rng * option rng)%type.          (* use, declaration it resolves to *)

Fixpoint lookup {V} (k : name) (l : list (name * V)) : option V :=
  match l with [] => None | (k', v) :: r => if name_eqb k k' then Some v else lookup k r end.

Record frame : Type := mkFrame {
  fr_vars : list (name * rng); fr_fields : list (name * rng); fr_targs : list (name * rng) }.
Definition frame_lookup (n : name) (fr : frame) : option rng :=
  match lookup n (fr_vars fr) with
  | Some r => Some r
  | None => match lookup n (fr_fields fr) with
            | Some r => Some r
            | None => lookup n (fr_targs fr)
            end
  end.


(** What is known about the type of a declaration: nothing, or that it is the k-th class / the k-th def of the
    workspace (counted in the order of declaration; a later declaration of the same name is another class). *)
Inductive sty : Type := TUnk | TCls (k : nat) | TDef (k : nat) | TList (t : sty).
(** a class: where it is declared, its flattened field table and the types of those fields *)
Record cinfo : Type := mkCi { ci_rng : rng; ci_fields : list (name * rng); ci_ftys : list (name * sty) }.
(** the types of the declarations of a frame (same names, same order as the frame) *)
Record tframe : Type := mkTF {
  tf_vars : list (name * sty); tf_fields : list (name * sty); tf_targs : list (name * sty) }.
Definition tframe_lookup (n : name) (tf : tframe) : option sty :=
  match lookup n (tf_vars tf) with
  | Some t => Some t
  | None => match lookup n (tf_fields tf) with
            | Some t => Some t
            | None => lookup n (tf_targs tf)
            end
  end.

Record env : Type := mkEnv {
  e_frames : list frame;                (* innermost first *)
  e_tfr : list tframe;                  (* the types of the frames' declarations *)
  e_cls : list (name * cinfo);
  e_mcs : list (name * rng);
  e_defs : list (name * rng);
  e_dtbl : list (name * cinfo);     (* the flattened field table of every def, with types (same order as e_defs) *)
  e_dsets : list (name * rng) }.

Definition env0 : env := mkEnv [mkFrame [] [] []] [mkTF [] [] []] [] [] [] [] [].

Fixpoint first_some {A B} (f : A -> option B) (l : list A) : option B :=
  match l with [] => None | x :: r => match f x with Some y => Some y | None => first_some f r end end.

(** what an identifier used as a value denotes *)
Definition lookup_id (e : env) (n : name) : option rng :=
  match first_some (frame_lookup n) (e_frames e) with
  | Some r => Some r
  | None => match lookup n (e_defs e) with
            | Some r => Some r
            | None => lookup n (e_dsets e)
            end
  end.
Definition lookup_class (e : env) (n : name) : option rng := option_map ci_rng (lookup n (e_cls e)).
Definition lookup_mc (e : env) (n : name) : option rng := lookup n (e_mcs e).

(** ---- types (only what a field access needs: which class / which def a record-typed value belongs to) *)
(** the number of the declaration a name denotes in a table: the tables grow at the front, the oldest entry is number 0 *)
Fixpoint pos_of {V} (n : name) (l : list (name * V)) : option nat :=
  match l with [] => None | (k, _) :: r => if name_eqb n k then Some (length r) else pos_of n r end.
Definition nth_decl {V} (l : list (name * V)) (k : nat) : option (name * V) :=
  if Nat.ltb k (length l) then nth_error l (length l - S k) else None.
Definition class_ty (e : env) (n : name) : sty :=
  match pos_of n (e_cls e) with Some k => TCls k | None => TUnk end.
(** the type of an identifier used as a value: that of the local declaration it denotes, else the def of that name *)
Definition type_of_id (e : env) (n : name) : sty :=
  match first_some (frame_lookup n) (e_frames e) with
  | Some _ => match first_some (tframe_lookup n) (e_tfr e) with Some t => t | None => TUnk end
  | None => match pos_of n (e_defs e) with Some k => TDef k | None => TUnk end
  end.
(** the flattened field table of a record type *)
Definition fields_of (e : env) (t : sty) : option (list (name * rng)) :=
  match t with
  | TUnk => None
  | TCls k => option_map (fun p => ci_fields (snd p)) (nth_decl (e_cls e) k)
  | TDef k => option_map (fun p => ci_fields (snd p)) (nth_decl (e_dtbl e) k)
  | TList _ => None
  end.
(** ... and the types of those fields (known for classes) *)
Definition ftys_of (e : env) (t : sty) : option (list (name * sty)) :=
  match t with
  | TCls k => option_map (fun p => ci_ftys (snd p)) (nth_decl (e_cls e) k)
  | TDef k => option_map (fun p => ci_ftys (snd p)) (nth_decl (e_dtbl e) k)
  | _ => None
  end.
Definition elem_sty (t : sty) : sty := match t with TList t' => t' | _ => TUnk end.
(** what is known about the type a suffix yields: a field has the type it was declared with, a single subscript
    yields an element of the list *)
Definition suf_sty (e : env) (t : sty) (sf : suffix) : sty :=
  match sf with
  | SufField i _ =>
    match ftys_of e t with
    | Some ft => match lookup (i_name i) ft with Some x => x | None => TUnk end
    | None => TUnk
    end
  | SufSlice true => elem_sty t
  | _ => TUnk
  end.
Fixpoint sty_of_ty (e : env) (t : ty) : sty :=
  match t with TyClass i => class_ty e (i_name i) | TyList t' => TList (sty_of_ty e t') | _ => TUnk end.

Definition with_frames (e : env) (fs : list frame) (ts : list tframe) : env :=
  mkEnv fs ts (e_cls e) (e_mcs e) (e_defs e) (e_dtbl e) (e_dsets e).
Definition unk (vs : list (name * rng)) : list (name * sty) := map (fun p => (fst p, TUnk)) vs.
Definition ttop (g : tframe -> tframe) (l : list tframe) : list tframe :=
  match l with tf :: t => g tf :: t | [] => [] end.
(** a new block whose variables are [vs] (newest first; nothing is known about their types) *)
Definition push_vars (e : env) (vs : list (name * rng)) : env :=
  with_frames e (mkFrame vs [] [] :: e_frames e) (mkTF (unk vs) [] [] :: e_tfr e).
(** a new block with one variable of a known type (the variable of a foreach over a list) *)
Definition push_tvar (e : env) (n : name) (r : rng) (ty : sty) : env :=
  with_frames e (mkFrame [(n, r)] [] [] :: e_frames e) (mkTF [(n, ty)] [] [] :: e_tfr e).
(** declare a variable in the innermost block *)
Definition add_var (e : env) (n : name) (r : rng) : env :=
  match e_frames e with
  | fr :: t => with_frames e (mkFrame ((n, r) :: fr_vars fr) (fr_fields fr) (fr_targs fr) :: t) (e_tfr e)
  | [] => e
  end.
Definition add_field (e : env) (n : name) (r : rng) : env :=
  match e_frames e with
  | fr :: t => with_frames e (mkFrame (fr_vars fr) ((n, r) :: fr_fields fr) (fr_targs fr) :: t) (e_tfr e)
  | [] => e
  end.
(** ... and what is known about its type (always together with the declaration itself) *)
Definition with_tfr (e : env) (ts : list tframe) : env := with_frames e (e_frames e) ts.
Definition tset_var (e : env) (n : name) (ty : sty) : env :=
  with_tfr e (ttop (fun tf => mkTF ((n, ty) :: tf_vars tf) (tf_fields tf) (tf_targs tf)) (e_tfr e)).
Definition tset_field (e : env) (n : name) (ty : sty) : env :=
  with_tfr e (ttop (fun tf => mkTF (tf_vars tf) ((n, ty) :: tf_fields tf) (tf_targs tf)) (e_tfr e)).
Definition tset_targ (e : env) (n : name) (ty : sty) : env :=
  with_tfr e (ttop (fun tf => mkTF (tf_vars tf) (tf_fields tf) ((n, ty) :: tf_targs tf)) (e_tfr e)).
(** the types [ft] recorded for the names of the table [fs] (nothing for a name [ft] does not mention) *)
Definition align (fs : list (name * rng)) (ft : list (name * sty)) : list (name * sty) :=
  map (fun p => (fst p, match lookup (fst p) ft with Some t => t | None => TUnk end)) fs.
Definition add_inherited (e : env) (fs : list (name * rng)) (ft : list (name * sty)) : env :=
  match e_frames e with
  | fr :: t => with_frames e (mkFrame (fr_vars fr) (fr_fields fr ++ fs) (fr_targs fr) :: t)
                           (ttop (fun tf => mkTF (tf_vars tf) (tf_fields tf ++ align fs ft) (tf_targs tf)) (e_tfr e))
  | [] => e
  end.
(** a template argument re-declared under the same name replaces the earlier one in place; a new one is added
    behind the earlier ones (the order of declaration does not matter for lookup by name) *)
Definition add_targ (e : env) (n : name) (r : rng) : env :=
  match e_frames e with
  | fr :: t => with_frames e (mkFrame (fr_vars fr) (fr_fields fr) ((n, r) :: fr_targs fr) :: t) (e_tfr e)
  | [] => e
  end.
Definition top_fields (e : env) : list (name * rng) :=
  match e_frames e with fr :: _ => fr_fields fr | [] => [] end.
Definition top_tfields (e : env) : list (name * sty) :=
  match e_tfr e with tf :: _ => tf_fields tf | [] => [] end.

Definition at_file (f : N) (r : rng) : rng := mkR f (r_lo r) (r_hi r).
Definition NAME : name := [78; 65; 77; 69].

(** which operators take a `<type>` (TableGen: !cast, !isa, !exists, !getdagarg, !getdagop) *)
Definition op_takes_type (op : bop) : bool :=
  match op with XCast | XIsA | XExists | XGetDagArg | XGetDagOp => true | _ => false end.

Definition first_ident (v : value) : option ident :=
  match v with Val _ (Inner (SId i) _ :: _) => Some i | _ => None end.

Fixpoint spec_ty (f : N) (e : env) (t : ty) : list ev :=
  match t with
  | TyList t' => spec_ty f e t'
  | TyClass i => [(at_file f (i_rng i), lookup_class e (i_name i))]
  | _ => []
  end.

(** what is known about the type of a simple value / a value *)
Definition sty_simple (e : env) (sv : simple) : sty :=
  match sv with
  | SId i => type_of_id e (i_name i)
  | SClassVal i _ _ => class_ty e (i_name i)
  | _ => TUnk
  end.
Definition sty_sufs (e : env) (t : sty) (sufs : list suffix) : sty := fold_left (suf_sty e) sufs t.
(** a value that is one simple value with suffixes (anything else: nothing known) *)
Definition sty_value (e : env) (v : value) : sty :=
  match v with Val _ [Inner sv sufs] => sty_sufs e (sty_simple e sv) sufs | _ => TUnk end.
(** the suffixes of a value: `.f` on a value of a known record type denotes the field f of its (flattened) table;
    the type of what the suffix yields is [suf_sty] *)
Fixpoint spec_sufs (f : N) (e : env) (t : sty) (sufs : list suffix) : list ev :=
  match sufs with
  | [] => []
  | SufField i fr :: r =>
    (at_file f (i_rng i), match fields_of e t with Some tb => lookup (i_name i) tb | None => None end)
      :: spec_sufs f e (suf_sty e t (SufField i fr)) r
  | sf :: r => spec_sufs f e (suf_sty e t sf) r
  end.

Fixpoint spec_value (f : N) (e : env) (v : value) {struct v} : list ev :=
  match v with
  | Val _ inners => flat_map (spec_inner f e) inners
  end
with spec_inner (f : N) (e : env) (x : inner) {struct x} : list ev :=
  match x with
  | Inner sv sufs => spec_simple f e sv ++ spec_sufs f e (sty_simple e sv) sufs
  end
with spec_simple (f : N) (e : env) (sv : simple) {struct sv} : list ev :=
  match sv with
  | SInt | SString | SCode | SBool | SUninit => []
  | SBits vs | SList vs | SDag vs | SCond vs => flat_map (spec_value f e) vs
  | SId i =>
    match lookup_id e (i_name i) with
    | None => if name_eqb (i_name i) NAME then [] else [(at_file f (i_rng i), None)]
    | Some d => [(at_file f (i_rng i), Some d)]
    end
  | SClassVal i args _ =>
    (at_file f (i_rng i), lookup_class e (i_name i)) :: flat_map (spec_arg f e) args
  | SBang op annot vs _ =>
    (match annot with
     | Some (t, _) => if op_takes_type op then spec_ty f e t else []
     | None => []
     end)
    ++ match op, vs with
       | XForEach, [var; sq; body] | XFilter, [var; sq; body] =>
         spec_value f e sq
         ++ match first_ident var with
            | Some i => spec_value f (push_vars e [(i_name i, at_file f (i_rng i))]) body
            | None => []
            end
       | XFoldl, [init; sq; acc; var; body] =>
         spec_value f e init ++ spec_value f e sq
         ++ match first_ident acc, first_ident var with
            | Some ia, Some iv =>
              spec_value f (push_vars e [(i_name iv, at_file f (i_rng iv)); (i_name ia, at_file f (i_rng ia))]) body
            | _, _ => []
            end
       | XForEach, _ | XFilter, _ | XFoldl, _ => []
       | _, _ => flat_map (spec_value f e) vs
       end
  end
with spec_arg (f : N) (e : env) (a : arg) {struct a} : list ev :=
  match a with
  | APos v _ | ANamed _ v _ => spec_value f e v
  | ANamedBad _ => []
  end.

Definition spec_values (f : N) (e : env) (vs : list value) : list ev := flat_map (spec_value f e) vs.
Definition spec_args (f : N) (e : env) (l : list arg) : list ev := flat_map (spec_arg f e) l.

(** a reference to a class / multiclass with template arguments *)
Definition spec_classref (f : N) (e : env) (c : classref) : list ev :=
  match c with CRef i args _ => (at_file f (i_rng i), lookup_class e (i_name i)) :: spec_args f e args end.
Definition spec_mcref (f : N) (e : env) (c : classref) : list ev :=
  match c with CRef i args _ => (at_file f (i_rng i), lookup_mc e (i_name i)) :: spec_args f e args end.
Definition classref_fields (e : env) (c : classref) : list (name * rng) :=
  match c with CRef i _ _ => match lookup (i_name i) (e_cls e) with Some ci => ci_fields ci | None => [] end end.
Definition classref_ftys (e : env) (c : classref) : list (name * sty) :=
  match c with CRef i _ _ => match lookup (i_name i) (e_cls e) with Some ci => ci_ftys ci | None => [] end end.

(** parent classes of a record: each reference is resolved in the environment extended with the fields of the
    parents before it; the fields of a parent are visible behind the record's own declarations *)
Fixpoint spec_parents (f : N) (e : env) (ps : list classref) : list ev * env :=
  match ps with
  | [] => ([], e)
  | c :: r =>
    let ev1 := spec_classref f e c in
    let '(ev2, e2) := spec_parents f (add_inherited e (classref_fields e c) (classref_ftys e c)) r in
    (ev1 ++ ev2, e2)
  end.

Definition spec_targ (f : N) (e : env) (a : targ) : list ev * env :=
  match a with
  | TArg t i d =>
    let e1 := tset_targ (add_targ e (i_name i) (at_file f (i_rng i))) (i_name i) (sty_of_ty e t) in
    (spec_ty f e t ++ match d with Some v => spec_value f e1 v | None => [] end, e1)
  end.
Fixpoint spec_targs (f : N) (e : env) (l : list targ) : list ev * env :=
  match l with
  | [] => ([], e)
  | a :: r => let '(ev1, e1) := spec_targ f e a in let '(ev2, e2) := spec_targs f e1 r in (ev1 ++ ev2, e2)
  end.

Definition spec_item (f : N) (e : env) (it : item) : list ev * env :=
  match it with
  | IField t i v =>
    let e1 := tset_field (add_field e (i_name i) (at_file f (i_rng i))) (i_name i) (sty_of_ty e t) in
    (spec_ty f e t ++ match v with Some v' => spec_value f e1 v' | None => [] end, e1)
  | ILet i v =>
    let e1 := tset_field (add_field e (i_name i) (at_file f (i_rng i))) (i_name i)
                         (match lookup (i_name i) (top_tfields e) with Some t => t | None => TUnk end) in
    ((at_file f (i_rng i), lookup (i_name i) (top_fields e)) :: spec_value f e1 v, e1)
  | IDefvar i v => (spec_value f e v, tset_var (add_var e (i_name i) (at_file f (i_rng i))) (i_name i) (sty_value e v))
  | IAssert c m => (spec_value f e m ++ spec_value f e c, e)      (* the message is read first *)
  | IDump v => (spec_value f e v, e)
  end.
Fixpoint spec_items (f : N) (e : env) (l : list item) : list ev * env :=
  match l with
  | [] => ([], e)
  | a :: r => let '(ev1, e1) := spec_item f e a in let '(ev2, e2) := spec_items f e1 r in (ev1 ++ ev2, e2)
  end.

(** the name of a def / defm: the identifier the name starts with (the rest of a pasted name is not a use) *)
Definition name_ident (nm : option value) : option ident :=
  match nm with Some v => first_ident v | None => None end.

Definition set_cls (e : env) (n : name) (ci : cinfo) : env :=
  mkEnv (e_frames e) (e_tfr e) ((n, ci) :: e_cls e) (e_mcs e) (e_defs e) (e_dtbl e) (e_dsets e).
Definition set_mc (e : env) (n : name) (r : rng) : env :=
  mkEnv (e_frames e) (e_tfr e) (e_cls e) ((n, r) :: e_mcs e) (e_defs e) (e_dtbl e) (e_dsets e).
Definition set_def (e : env) (n : name) (r : rng) : env :=
  mkEnv (e_frames e) (e_tfr e) (e_cls e) (e_mcs e) ((n, r) :: e_defs e) ((n, mkCi r [] []) :: e_dtbl e) (e_dsets e).
(** the field table of the newest def, once its body has been read *)
Definition set_dtbl (e : env) (tb : list (name * rng)) (ft : list (name * sty)) : env :=
  mkEnv (e_frames e) (e_tfr e) (e_cls e) (e_mcs e) (e_defs e)
        (match e_dtbl e with (n, ci) :: t => (n, mkCi (ci_rng ci) tb ft) :: t | [] => [] end) (e_dsets e).
Definition set_dset (e : env) (n : name) (r : rng) : env :=
  mkEnv (e_frames e) (e_tfr e) (e_cls e) (e_mcs e) (e_defs e) (e_dtbl e) ((n, r) :: e_dsets e).
(** leaving a block: the globals declared inside stay, the frames are those of the outside *)
Definition leave (outer inner : env) : env := with_frames inner (e_frames outer) (e_tfr outer).

Fixpoint spec_stmt (f : N) (e : env) (x : stmt) {struct x} : list ev * env :=
  let stmts := fix go (e : env) (l : list stmt) {struct l} : list ev * env :=
                 match l with
                 | [] => ([], e)
                 | y :: r => let '(ev1, e1) := spec_stmt f e y in let '(ev2, e2) := go e1 r in (ev1 ++ ev2, e2)
                 end in
  let mcrefs := fix go (e : env) (l : list classref) : list ev :=
                  match l with [] => [] | c :: r => spec_mcref f e c ++ go e r end in
  match x with
  | SInclude _ _ => ([], e)                       (* not at the top level of a file: outside the fragment *)
  | SAssert c m => (spec_value f e m ++ spec_value f e c, e)
  | SClass i targs ps b =>
    let loc := at_file f (i_rng i) in
    let e0 := set_cls e (i_name i) (mkCi loc [] []) in
    let e1 := push_vars e0 [] in
    let '(ev1, e2) := match targs with Some l => spec_targs f e1 l | None => ([], e1) end in
    let '(ev2, e3) := spec_parents f e2 ps in
    let '(ev3, e4) := spec_items f e3 b in
    (ev1 ++ ev2 ++ ev3, set_cls e (i_name i) (mkCi loc (top_fields e4) (top_tfields e4)))
  | SDef nm _ ps b =>
    let e0 := match name_ident nm with Some i => set_def e (i_name i) (at_file f (i_rng i)) | None => e end in
    let e1 := push_vars e0 [] in
    let '(ev2, e3) := spec_parents f e1 ps in
    let '(ev3, e4) := spec_items f e3 b in
    (ev2 ++ ev3, match name_ident nm with Some _ => set_dtbl e0 (top_fields e4) (top_tfields e4) | None => e0 end)
  | SDefm _ _ ps => (mcrefs (push_vars e []) ps, e)
  | SDefset t i b =>
    let e0 := set_dset e (i_name i) (at_file f (i_rng i)) in
    let '(ev1, e1) := stmts (push_vars e0 []) b in
    (spec_ty f e t ++ ev1, leave e0 e1)
  | SDefvar i v => (spec_value f e v, tset_var (add_var e (i_name i) (at_file f (i_rng i))) (i_name i) (sty_value e v))
  | SDump v => (spec_value f e v, e)
  | SForeach i init b =>
    let ev0 := match init with FeRange => [] | FeValue v => spec_value f e v end in
    let vty := match init with FeRange => TUnk | FeValue v => elem_sty (sty_value e v) end in
    let '(ev1, e1) := stmts (push_tvar e (i_name i) (at_file f (i_rng i)) vty) b in
    (ev0 ++ ev1, leave e e1)
  | SIf c th el =>
    let '(ev1, e1) := stmts (push_vars e []) th in
    let '(ev2, e2) := match el with
                      | Some b => stmts (push_vars (leave e e1) []) b
                      | None => ([], e1)
                      end in
    (spec_value f e c ++ ev1 ++ ev2, leave e e2)
  | SLet vs b =>
    let '(ev1, e1) := stmts (push_vars e []) b in
    (spec_values f e vs ++ ev1, leave e e1)
  | SMulticlass i targs ps b =>
    let e0 := set_mc e (i_name i) (at_file f (i_rng i)) in
    let e1 := push_vars e0 [] in
    let '(ev1, e2) := match targs with Some l => spec_targs f e1 l | None => ([], e1) end in
    let ev2 := mcrefs e2 ps in
    let '(ev3, e3) := stmts e2 b in
    (ev1 ++ ev2 ++ ev3, leave e0 e3)
  end.

Fixpoint spec_stmts (f : N) (e : env) (l : list stmt) : list ev * env :=
  match l with
  | [] => ([], e)
  | y :: r => let '(ev1, e1) := spec_stmt f e y in let '(ev2, e2) := spec_stmts f e1 r in (ev1 ++ ev2, e2)
  end.

(** Several files.  An `include` at the top level of a file stands for the statements of the included file, the
    FIRST time the file is reached (a file that has been read before is skipped; the root file counts as read).
    [flat_file files k f ix l]: the statements [l] of file [f] with the includes expanded, each statement with the
    number of the file it is written in; [ix] = the files read so far; [k] bounds the nesting of includes. *)
Fixpoint flat_list (inc : N -> list N -> list (N * stmt) * list N) (f : N) (ix : list N) (l : list stmt)
  : list (N * stmt) * list N :=
  match l with
  | [] => ([], ix)
  | SInclude _ (Some g) :: r =>
    if existsb (N.eqb g) ix then flat_list inc f ix r
    else let '(a, ix1) := inc g (g :: ix) in
         let '(b, ix2) := flat_list inc f ix1 r in (a ++ b, ix2)
  | SInclude _ None :: r => flat_list inc f ix r
  | x :: r => let '(b, ix2) := flat_list inc f ix r in ((f, x) :: b, ix2)
  end.
Definition file_body (files : list (list stmt)) (g : N) : list stmt :=
  match nth_error files (N.to_nat g) with Some b => b | None => [] end.
Fixpoint flat_file (files : list (list stmt)) (k : nat) (f : N) (ix : list N) (l : list stmt)
  : list (N * stmt) * list N :=
  match k with
  | O => ([], ix)
  | S k' => flat_list (fun g ix' => flat_file files k' g ix' (file_body files g)) f ix l
  end.
Fixpoint spec_flat (e : env) (l : list (N * stmt)) : list ev * env :=
  match l with
  | [] => ([], e)
  | (f, x) :: r => let '(ev1, e1) := spec_stmt f e x in let '(ev2, e2) := spec_flat e1 r in (ev1 ++ ev2, e2)
  end.
Definition ws_flat (w : workspace) : list (N * stmt) :=
  match ws_files w with root :: _ => fst (flat_file (ws_files w) (ws_fuel w) 0 [0] root) | [] => [] end.

(** the uses of a workspace, in order *)
Definition spec_uses (w : workspace) : list ev := fst (spec_flat env0 (ws_flat w)).

Definition resolved (e : ev) : bool := match snd e with Some _ => true | None => false end.
(** every used name is in scope at its use *)
Definition well_scoped (w : workspace) : bool := forallb resolved (spec_uses w).

(** ---------------------------------------------------------------------------------------------
    the fragment the agreement theorem covers (syntactic): no field access, no include, def / defm names that
    start with an identifier (or are absent), variable-binding operators with exactly their operands, an
    identifier as variable and a list literal as sequence (so that its element type is known without typing) *)
Definition is_list_literal (v : value) : bool :=
  match v with Val _ [Inner (SList _) []] | Val _ [Inner (SBits _) []] => true | _ => false end.
Definition is_plain_literal (v : value) : bool :=
  match v with
  | Val _ [Inner (SInt | SString | SCode | SBool | SList _ | SBits _) []] => true
  | _ => false
  end.
Definition is_ident_first (v : value) : bool := match first_ident v with Some _ => true | None => false end.

Fixpoint frag_value (v : value) {struct v} : bool :=
  match v with Val _ inners => forallb frag_inner inners && negb (match inners with [] => true | _ => false end) end
with frag_inner (x : inner) {struct x} : bool :=
  match x with
  | Inner sv sufs => frag_simple sv
  end
with frag_simple (sv : simple) {struct sv} : bool :=
  match sv with
  | SInt | SString | SCode | SBool | SUninit | SId _ => true
  | SBits vs | SList vs | SDag vs | SCond vs => forallb frag_value vs
  | SClassVal _ args _ => forallb frag_arg args
  | SBang op _ vs _ =>
    forallb frag_value vs &&
    match op, vs with
    | XForEach, [var; sq; _] | XFilter, [var; sq; _] => is_ident_first var && is_list_literal sq
    | XFoldl, [init; sq; acc; var; _] =>
      is_plain_literal init && is_list_literal sq && is_ident_first acc && is_ident_first var
    | XForEach, _ | XFilter, _ | XFoldl, _ => false
    | _, _ => true
    end
  end
with frag_arg (a : arg) {struct a} : bool :=
  match a with APos v _ | ANamed _ v _ => frag_value v | ANamedBad _ => false end.

Definition frag_classref (c : classref) : bool := match c with CRef _ args _ => forallb frag_arg args end.
Definition frag_targ (a : targ) : bool :=
  match a with TArg _ _ d => match d with Some v => frag_value v | None => true end end.
Definition frag_item (it : item) : bool :=
  match it with
  | IField _ _ v => match v with Some v' => frag_value v' | None => true end
  | ILet _ v | IDefvar _ v | IDump v => frag_value v
  | IAssert c m => frag_value c && frag_value m
  end.
Definition frag_name (nm : option value) : bool :=
  match nm with Some v => is_ident_first v | None => true end.

Fixpoint frag_stmt (x : stmt) : bool :=
  let stmts := fix go (l : list stmt) : bool := match l with [] => true | y :: r => frag_stmt y && go r end in
  match x with
  | SInclude _ _ => false
  | SAssert c m => frag_value c && frag_value m
  | SClass _ targs ps b =>
    match targs with Some l => forallb frag_targ l | None => true end
    && forallb frag_classref ps && forallb frag_item b
  | SDef nm _ ps b => frag_name nm && forallb frag_classref ps && forallb frag_item b
  | SDefm nm _ ps => frag_name nm && forallb frag_classref ps
  | SDefset _ _ b => stmts b
  | SDefvar _ v | SDump v => frag_value v
  | SForeach _ init b => match init with FeRange => true | FeValue v => frag_value v end && stmts b
  | SIf c th el => frag_value c && stmts th && match el with Some b => stmts b | None => true end
  | SLet vs b => forallb frag_value vs && stmts b
  | SMulticlass _ targs ps b =>
    match targs with Some l => forallb frag_targ l | None => true end
    && forallb frag_classref ps && stmts b
  end.
Definition frag_ws (w : workspace) : bool := forallb (fun p => frag_stmt (snd p)) (ws_flat w).
