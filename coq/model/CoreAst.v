(** CoreAst: typed AST of the Core fragment (DESIGN Appendix D), as seen through the typed
    accessors of crates/syntax/src/ast.rs.  Every identifier occurrence carries its name and its
    (file, lo, hi) byte range; every node whose range the indexer uses for a diagnostic carries it.
    The real parse tree is converted to this type by harness/src/bin/coreast.rs (through the real
    accessors) and read by coq/extract/scope_driver.ml.  Executable definitions only. *)
From Coq Require Import List NArith Bool.
Import ListNotations.
Open Scope N_scope.

Definition name := list N.                         (* Unicode scalar values of the identifier text *)

Fixpoint name_eqb (a b : name) : bool :=
  match a, b with
  | [], [] => true
  | x :: a', y :: b' => (x =? y) && name_eqb a' b'
  | _, _ => false
  end.

Record rng : Type := mkR { r_file : N; r_lo : N; r_hi : N }.
Definition rng_eqb (a b : rng) : bool :=
  (r_file a =? r_file b) && (r_lo a =? r_lo b) && (r_hi a =? r_hi b).
Definition rng_empty (r : rng) : bool := r_hi r <=? r_lo r.
Definition rng_has (r : rng) (f p : N) : bool := (r_file r =? f) && (r_lo r <=? p) && (p <? r_hi r).
(** [covers a b]: a covers b (same file) *)
Definition rng_covers (a b : rng) : bool :=
  (r_file a =? r_file b) && (r_lo a <=? r_lo b) && (r_hi b <=? r_hi a).

Record ident : Type := mkId { i_rng : rng; i_name : name }.

(** bang operators that have an arm in index/bang_operator.rs (all 50 lexer operators except !cond,
    which is the separate CondOperator node) *)
Inductive bop : Set :=
| XAdd | XAnd | XMul | XOr | XXor | XDiv | XSub | XSrl | XSra | XShl
| XCast | XCon | XDag | XEmpty | XEq | XNe | XExists | XFilter | XFind | XFoldl | XForEach
| XGe | XGt | XLe | XLt | XGetDagArg | XGetDagName | XGetDagOp | XHead | XIf | XInitialized
| XInterleave | XIsA | XListConcat | XListFlatten | XListRemove | XListSplat | XLog2 | XNot
| XRange | XRepr | XSetDagArg | XSetDagName | XSetDagOp | XSize | XStrConcat | XSubst | XSubstr
| XTail | XToLower | XToUpper.

Inductive ty : Type :=
| TyBit | TyInt | TyString | TyCode | TyDag
| TyBits (n : N)
| TyList (t : ty)
| TyClass (i : ident).

(** Values.  [Val r inners]: r = range of the Value node; inners = the [#]-pasted inner values. *)
Inductive value : Type :=
| Val (r : rng) (inners : list inner)
with inner : Type :=
| Inner (s : simple) (sufs : list suffix)
with simple : Type :=
| SInt | SString | SCode | SBool | SUninit
| SBits (vs : list value)
| SList (vs : list value)
| SDag (vs : list value)                     (* operator value (if it has one) then the argument values, in order *)
| SId (i : ident)
| SClassVal (i : ident) (args : list arg) (r : rng)
| SBang (op : bop) (annot : option (ty * rng)) (vs : list value) (r : rng)
| SCond (vs : list value)                    (* condition, value, condition, value, ... *)
with suffix : Type :=
| SufRange
| SufSlice (single : bool)
| SufField (i : ident) (r : rng)
with arg : Type :=
| APos (v : value) (r : rng)
| ANamed (n : name) (v : value) (r : rng)
| ANamedBad (r : rng).

Inductive classref : Type := CRef (i : ident) (args : list arg) (r : rng).

Inductive targ : Type := TArg (t : ty) (i : ident) (dflt : option value).

Inductive item : Type :=
| IField (t : ty) (i : ident) (v : option value)
| ILet (i : ident) (v : value)
| IDefvar (i : ident) (v : value)
| IAssert (c m : value)
| IDump (v : value).

Inductive feinit : Type := FeRange | FeValue (v : value).

Inductive stmt : Type :=
| SInclude (r : rng) (target : option N)
| SAssert (c m : value)
| SClass (i : ident) (targs : option (list targ)) (parents : list classref) (body : list item)
| SDef (nm : option value) (r : rng) (parents : list classref) (body : list item)
| SDefm (nm : option value) (r : rng) (parents : list classref)
| SDefset (t : ty) (i : ident) (body : list stmt)
| SDefvar (i : ident) (v : value)
| SDump (v : value)
| SForeach (i : ident) (init : feinit) (body : list stmt)
| SIf (c : value) (th : list stmt) (el : option (list stmt))
| SLet (vs : list value) (body : list stmt)
| SMulticlass (i : ident) (targs : option (list targ)) (parents : list classref) (body : list stmt).

(** A workspace: the statement lists of its files (file number = position, root = 0) and the parse
    errors reported for each file (range only; taken from the real parser, C04's subject). *)
Record workspace : Type := mkWs { ws_files : list (list stmt); ws_perrs : list rng }.

(** ------------------------------------------------------------------------------------------
    Size measures (fuel for the fuelled interpreters of model and spec). *)
Fixpoint ty_size (t : ty) : nat := match t with TyList t' => S (ty_size t') | _ => 1%nat end.

Fixpoint value_size (v : value) : nat :=
  match v with
  | Val _ inners => S ((fix go (l : list inner) : nat :=
                          match l with [] => 0%nat | x :: r => (inner_size x + go r)%nat end) inners)
  end
with inner_size (x : inner) : nat :=
  match x with
  | Inner s sufs => S (simple_size s)
  end
with simple_size (s : simple) : nat :=
  let vals := fix go (l : list value) : nat :=
                match l with [] => 0%nat | x :: r => (value_size x + go r)%nat end in
  let args := fix go (l : list arg) : nat :=
                match l with [] => 0%nat | x :: r => (arg_size x + go r)%nat end in
  match s with
  | SBits vs | SList vs | SDag vs | SCond vs => S (vals vs)
  | SBang _ _ vs _ => S (S (S (vals vs)))
  | SClassVal _ a _ => S (args a)
  | _ => 1%nat
  end
with arg_size (a : arg) : nat :=
  match a with
  | APos v _ | ANamed _ v _ => S (value_size v)
  | ANamedBad _ => 1%nat
  end.

Definition sum_sizes {A} (f : A -> nat) (l : list A) : nat := fold_right (fun x a => (f x + a)%nat) 0%nat l.
Definition opt_size {A} (f : A -> nat) (o : option A) : nat := match o with Some x => f x | None => 0%nat end.

Definition classref_size (c : classref) : nat := match c with CRef _ a _ => S (sum_sizes arg_size a) end.
Definition targ_size (t : targ) : nat := match t with TArg t _ d => S (ty_size t + opt_size value_size d) end.
Definition item_size (i : item) : nat :=
  match i with
  | IField t _ v => S (ty_size t + opt_size value_size v)
  | ILet _ v | IDefvar _ v | IDump v => S (value_size v)
  | IAssert c m => S (value_size c + value_size m)
  end.

Fixpoint stmt_size (s : stmt) : nat :=
  let stmts := fix go (l : list stmt) : nat :=
                 match l with [] => 0%nat | x :: r => (stmt_size x + go r)%nat end in
  match s with
  | SInclude _ _ => 1%nat
  | SAssert c m => S (value_size c + value_size m)
  | SClass _ ta ps b => S (opt_size (sum_sizes targ_size) ta + sum_sizes classref_size ps + sum_sizes item_size b)
  | SDef nm _ ps b => S (opt_size value_size nm + sum_sizes classref_size ps + sum_sizes item_size b)
  | SDefm nm _ ps => S (opt_size value_size nm + sum_sizes classref_size ps)
  | SDefset t _ b => S (ty_size t + stmts b)
  | SDefvar _ v | SDump v => S (value_size v)
  | SForeach _ i b => S (match i with FeRange => 0%nat | FeValue v => value_size v end + stmts b)
  | SIf c th el => S (value_size c + stmts th + match el with Some e => stmts e | None => 0%nat end)
  | SLet vs b => S (sum_sizes value_size vs + stmts b)
  | SMulticlass _ ta ps b => S (opt_size (sum_sizes targ_size) ta + sum_sizes classref_size ps + stmts b)
  end.

(** total fuel for a workspace: every file may be entered once, every node visited once; one extra
    unit per nesting level is covered because each constructor counts at least 1 *)
Definition ws_fuel (w : workspace) : nat :=
  S (S (sum_sizes (fun f => S (sum_sizes stmt_size f)) (ws_files w))).
