(** Side conditions on the op log of the indexer (group C03/C06/C17), as executable boolean predicates.
    They are the *checked hypotheses* of the theorems in props/C03.v, C06.v, C17.v: the checks evaluate them
    (extracted) on the real op log (hook H3) of every generated workspace, together with the token list
    and the texts the real lexer/parser produced.  Executable definitions only; no proofs here. *)
From Coq Require Import List NArith Bool.
From TG.Model Require Import Chars SymbolMap.
Import ListNotations.
Open Scope N_scope.

(** ---- identifier tokens of the workspace: (range, text) *)
Definition tok := (file_range * name)%type.

Fixpoint tok_name (toks : list tok) (r : file_range) : option name :=
  match toks with
  | [] => None
  | (r', n) :: t => if fr_eqb r' r then Some n else tok_name t r
  end.

(** tokens are non-empty and pairwise disjoint: checked on a list sorted by (file, lo) *)
Definition tok_before (a b : file_range) : bool :=
  (fr_file a <? fr_file b) || ((fr_file a =? fr_file b) && (fr_hi a <=? fr_lo b)).
Fixpoint toks_sorted (toks : list tok) : bool :=
  match toks with
  | [] => true
  | (r, _) :: t =>
      (fr_lo r <? fr_hi r) &&
      match t with
      | [] => true
      | (r', _) :: _ => tok_before r r'
      end && toks_sorted t
  end.

(** ---- exact-key lookup in the interval map *)
Fixpoint ivl_get (m : list ivl) (lo hi : N) : option symbol_id :=
  match m with
  | [] => None
  | (lo', hi', v) :: r => if (lo =? lo') && (hi =? hi') then Some v else ivl_get r lo hi
  end.
Definition pos_get (S : symbol_map) (r : file_range) : option symbol_id :=
  match fmap_get (sm_pos S) (fr_file r) with
  | None => None
  | Some m => ivl_get m (fr_lo r) (fr_hi r)
  end.

Definition opt_fr_eqb (a : option file_range) (b : file_range) : bool :=
  match a with Some x => fr_eqb x b | None => false end.
Definition opt_name_eqb (a : option name) (b : name) : bool :=
  match a with Some x => list_eqb x b | None => false end.

Definition valid_id (S : symbol_map) (k : sym_kind) (id : N) : bool := id <? next_id S k.

(** ---- C06: coherence side conditions *)
(** a definition may be keyed at [loc] when nothing is keyed there yet, or the symbol keyed there is itself
    defined at [loc] (the same declaration indexed again) *)
Definition key_ok_for_def (S : symbol_map) (loc : file_range) : bool :=
  match pos_get S loc with
  | None => true
  | Some s' => opt_fr_eqb (sym_def S s') loc
  end.
(** a reference to [s] may be keyed at [loc] when nothing is keyed there, or the symbol keyed there has the
    same definition as [s] (same reference again), or is defined at [loc] itself (`let x = …` in a record
    body: the new field is defined at the token and the inherited field is referenced there) *)
Definition key_ok_for_ref (S : symbol_map) (s : symbol_id) (loc : file_range) : bool :=
  match pos_get S loc with
  | None => true
  | Some s' =>
      match sym_def S s', sym_def S s with
      | Some d', Some d => fr_eqb d' d || fr_eqb d' loc
      | _, _ => false
      end
  end.

Definition def_ok (toks : list tok) (S : symbol_map) (n : name) (loc : file_range) : bool :=
  opt_name_eqb (tok_name toks loc) n && key_ok_for_def S loc.

Definition op_coh_ok (toks : list tok) (S : symbol_map) (o : op) : bool :=
  match o with
  | OpAddRecord n _ loc _ _ | OpAddTemplateArg n _ loc _ | OpAddRecordField n _ loc _ _
  | OpAddVariable n _ loc _ | OpAddDefset n _ loc _ | OpAddMulticlass n loc _ | OpAddDefm n loc _ _ =>
      def_ok toks S n loc
  | OpAddReference s loc =>
      match get_entry S s with
      | None => false
      | Some e =>
          opt_name_eqb (tok_name toks loc) (e_name e) &&
          opt_name_eqb (tok_name toks (e_def e)) (e_name e) &&
          negb (fr_eqb (e_def e) loc) &&
          key_ok_for_ref S s loc
      end
  | _ => true
  end.

(** ---- C03: ids valid, cursor discipline (since fix 1b571ae the parent relation need not be acyclic) *)
Definition cur_is (S : symbol_map) (k : sym_kind) : option N :=
  match sm_cur S with
  | Some (k', id) => if sym_kind_eqb k k' && valid_id S k id then Some id else None
  | None => None
  end.

Definition op_ids_ok (S : symbol_map) (o : op) : bool :=
  match o with
  | OpAddRecord _ _ _ _ id | OpAddAnonymousDef _ _ id => id =? next_id S KRecord
  | OpAddTemplateArg _ _ _ id => id =? next_id S KTemplateArg
  | OpAddRecordField _ _ _ parent id => (id =? next_id S KRecordField) && valid_id S KRecord parent
  | OpAddVariable _ _ _ id => id =? next_id S KVariable
  | OpAddDefset _ _ _ id => id =? next_id S KDefset
  | OpAddMulticlass _ _ id => id =? next_id S KMulticlass
  | OpAddDefm _ _ _ id | OpAddAnonymousDefm _ _ id => id =? next_id S KDefm
  | OpAddReference s _ => valid_id S (fst s) (snd s)
  | OpRecordMut id => valid_id S KRecord id
  | OpDefsetMut id => valid_id S KDefset id
  | OpMulticlassMut id => valid_id S KMulticlass id
  | OpDefmMut id => valid_id S KDefm id
  | OpRecAddTemplateArg _ id =>
      match cur_is S KRecord with Some _ => valid_id S KTemplateArg id | None => false end
  | OpRecAddField _ id =>
      match cur_is S KRecord with Some _ => valid_id S KRecordField id | None => false end
  | OpRecAddParent p =>
      match cur_is S KRecord with Some _ => valid_id S KRecord p | None => false end
  | OpDefsetAddDef id =>
      match cur_is S KDefset with Some _ => valid_id S KRecord id | None => false end
  | OpMcAddTemplateArg _ id =>
      match cur_is S KMulticlass with Some _ => valid_id S KTemplateArg id | None => false end
  | OpMcAddParent p =>
      match cur_is S KMulticlass with Some _ => valid_id S KMulticlass p | None => false end
  | OpDefmAddParent p =>
      match cur_is S KDefm with Some _ => valid_id S KMulticlass p | None => false end
  | OpError _ => true
  end.

(** ---- C17: ranges of the ops lie in the texts of the workspace, on character boundaries *)
Definition wtext := (fileid * text)%type.
Fixpoint is_boundary (t : text) (o : N) : bool :=
  match t with
  | [] => o =? 0
  | c :: r => (o =? 0) || ((utf8_len c <=? o) && is_boundary r (o - utf8_len c))
  end.
Definition range_valid (ws : list wtext) (r : file_range) : bool :=
  match fmap_get ws (fr_file r) with
  | None => false
  | Some t => (fr_lo r <=? fr_hi r) && is_boundary t (fr_lo r) && is_boundary t (fr_hi r)
  end.
Definition op_range (o : op) : option file_range :=
  match o with
  | OpAddRecord _ _ loc _ _ | OpAddAnonymousDef _ loc _ | OpAddTemplateArg _ _ loc _
  | OpAddRecordField _ _ loc _ _ | OpAddVariable _ _ loc _ | OpAddDefset _ _ loc _
  | OpAddMulticlass _ loc _ | OpAddDefm _ loc _ _ | OpAddAnonymousDefm _ loc _
  | OpAddReference _ loc | OpError loc => Some loc
  | _ => None
  end.
Definition op_range_ok (ws : list wtext) (o : op) : bool :=
  match op_range o with Some r => range_valid ws r | None => true end.

(** ---- running the side conditions along the log: [None] = all hold, [Some i] = first op that fails *)
Fixpoint first_bad_from (ok : symbol_map -> op -> bool) (S : symbol_map) (ops : list op) (i : N) : option N :=
  match ops with
  | [] => None
  | o :: r =>
      if ok S o then
        match apply_op S o with
        | SOk S' => first_bad_from ok S' r (i + 1)
        | SErr _ => Some i
        end
      else Some i
  end.

Fixpoint ops_ok_from (ok : symbol_map -> op -> bool) (S : symbol_map) (ops : list op) : bool :=
  match ops with
  | [] => true
  | o :: r =>
      ok S o &&
      match apply_op S o with
      | SOk S' => ops_ok_from ok S' r
      | SErr _ => false
      end
  end.

Definition op_wf (toks : list tok) (S : symbol_map) (o : op) : bool := op_ids_ok S o && op_coh_ok toks S o.
(** the hypothesis of C06 / C03 *)
Definition ops_wf (toks : list tok) (ops : list op) : bool := ops_ok_from (op_wf toks) sm_empty ops.
(** the hypothesis of C03 alone *)
Definition ops_ids_wf (ops : list op) : bool := ops_ok_from op_ids_ok sm_empty ops.
(** the hypothesis of C17 *)
Definition ops_ranges_wf (ws : list wtext) (ops : list op) : bool := forallb (op_range_ok ws) ops.

(** ---- the four clauses of C06 as an executable oracle on a model state (used by the correspondence run
    to cross-check the theorem on real logs; [offs] = offsets to probe) *)
Definition covers (r : file_range) (f : fileid) (p : N) : bool := (fr_file r =? f) && (fr_lo r <=? p) && (p <? fr_hi r).
Fixpoint tok_at (toks : list tok) (f : fileid) (p : N) : option tok :=
  match toks with
  | [] => None
  | (r, n) :: t => if covers r f p then Some (r, n) else tok_at t f p
  end.
Definition goto_is (S : symbol_map) (f : fileid) (p : N) (t : file_range) : bool :=
  match goto_definition S f p with SOk (Some t') => fr_eqb t' t | _ => false end.
Definition coherent_at (toks : list tok) (S : symbol_map) (f : fileid) (p : N) : bool :=
  match goto_definition S f p, references S f p with
  | SOk None, SOk None => true
  | SOk (Some t), SOk (Some rs) =>
      match tok_at toks f p with
      | None => false
      | Some (c, n) =>
          opt_name_eqb (tok_name toks t) n &&
          forallb (fun r => opt_name_eqb (tok_name toks r) n && goto_is S (fr_file r) (fr_lo r) t) rs &&
          (fr_eqb t c || existsb (fr_eqb c) rs)
      end
  | _, _ => false
  end.
