(** M-prims: hand model of crates/syntax/src/parser.rs (ParserBase over PreProcessor<Lexer>) and of
    rowan's GreenNodeBuilder (token / start_node / start_node_at(checkpoint) / finish_node / finish).
    Every place where the Rust code can panic is an explicit [None] (assert!, expect, unwrap). *)
From Coq Require Import List NArith Bool String.
From TG.Gen Require Import GenTokens GenLexTables.
From TG.Model Require Import Chars Lexer Prep Tree.
Import ListNotations.
Open Scope N_scope.

(** rowan::GreenNodeBuilder: [parents] = stack of (kind, first_child index), [children] = pending
    children of all open nodes, most recent FIRST (reversed w.r.t. rowan's Vec) *)
Record builder := { parents : list (SyntaxKind * nat); children : list tree }.
Definition builder_init : builder := {| parents := []; children := [] |}.

Definition b_token (b : builder) (k : SyntaxKind) (txt : text) : builder :=
  {| parents := parents b; children := Tok k txt :: children b |}.
Definition b_start_node (b : builder) (k : SyntaxKind) : builder :=
  {| parents := (k, List.length (children b)) :: parents b; children := children b |}.
Definition b_checkpoint (b : builder) : nat := List.length (children b).
(** start_node_at: `assert!(checkpoint <= self.children.len())` and, when a parent is open,
    `assert!(checkpoint >= first_child)` *)
Definition b_start_node_at (b : builder) (cp : nat) (k : SyntaxKind) : option builder :=
  if Nat.leb cp (List.length (children b)) then
    match parents b with
    | (_, first) :: _ => if Nat.leb first cp then Some {| parents := (k, cp) :: parents b; children := children b |} else None
    | [] => Some {| parents := (k, cp) :: parents b; children := children b |}
    end
  else None.
(** finish_node: `self.parents.pop().unwrap()`; drains children[first..] into a new node *)
Definition b_finish_node (b : builder) : option builder :=
  match parents b with
  | [] => None
  | (k, first) :: ps =>
      let n := List.length (children b) - first in
      Some {| parents := ps; children := Node k (rev (firstn n (children b))) :: skipn n (children b) |}
  end%nat.
(** finish: `assert_eq!(self.children.len(), 1)`; the single child must be a node *)
Definition b_finish (b : builder) : option tree :=
  match children b with
  | [Node k cs] => match parents b with [] => Some (Node k cs) | _ => Some (Node k cs) end
  | _ => None
  end.

Inductive parse_msg :=
| MLit (s : string)                 (* a message literal of the grammar *)
| MExpected (k : TokenKind)         (* eco_format!("expected {kind:?}") *)
| MTok (e : any_err).               (* message taken from the lexer / preprocessor *)

Record pst := {
  raw : list rtok;                  (* raw tokens not yet read by the preprocessor *)
  src : text;                       (* source text from the stream cursor on (what `text[cursor..]` is) *)
  pp : pstate;
  cursor : N;                       (* token_stream.cursor() *)
  cur : TokenKind; cur_lo : N; cur_text : text;   (* current, current_range = cur_lo .. cur_lo + bytes cur_text *)
  bld : builder;
  errs : list (N * N * parse_msg);  (* most recent first *)
  after_err : bool;
  nlex : N; nstart : N              (* work counters: ParserBase::lex / start_node calls *)
}.
Definition cur_hi (s : pst) : N := cur_lo s + bytes (cur_text s).

Definition raw_text (r : list rtok) : text := List.concat (map rtext r).

(** `&text[start..end]` relative to the cursor: the characters of [t] that cover the next [n] bytes
    (and the rest).  The token text handed to the builder is this slice of the SOURCE, as in
    ParserBase::save (`self.token_stream.text(self.current_range)`), not the lexemes of the lexer:
    that both agree is part of the tiling invariant (proofs/ParserTile.v). *)
Fixpoint take_bytes (n : N) (t : text) : text * text :=
  match t with
  | [] => ([], [])
  | c :: r => if n =? 0 then ([], t) else let '(a, b) := take_bytes (n - utf8_len c) r in (c :: a, b)
  end.

(** ParserBase::lex *)
Definition p_lex (s : pst) : pst :=
  let '(k, len, pp', raw') := prep_next (pp s) (raw s) in
  let '(tx, src') := take_bytes len (src s) in
  {| raw := raw'; src := src'; pp := pp'; cursor := cursor s + len;
     cur := k; cur_lo := cursor s; cur_text := tx;
     bld := bld s; errs := errs s; after_err := after_err s; nlex := nlex s + 1; nstart := nstart s |}.

(** ParserBase::new *)
Definition p_new (txt : text) : pst :=
  p_lex {| raw := raw_lex txt; src := txt; pp := pinit; cursor := 0; cur := T_Eof; cur_lo := 0; cur_text := [];
           bld := builder_init; errs := []; after_err := false; nlex := 0; nstart := 0 |}.

Definition p_error (s : pst) (m : parse_msg) : pst :=
  {| raw := raw s; src := src s; pp := pp s; cursor := cursor s; cur := cur s; cur_lo := cur_lo s; cur_text := cur_text s;
     bld := bld s; errs := (cur_lo s, cur_hi s, m) :: errs s; after_err := true; nlex := nlex s; nstart := nstart s |}.

Definition with_bld (s : pst) (b : builder) : pst :=
  {| raw := raw s; src := src s; pp := pp s; cursor := cursor s; cur := cur s; cur_lo := cur_lo s; cur_text := cur_text s;
     bld := b; errs := errs s; after_err := after_err s; nlex := nlex s; nstart := nstart s |}.
Definition with_pp_after (s : pst) (p : pstate) (a : bool) : pst :=
  {| raw := raw s; src := src s; pp := p; cursor := cursor s; cur := cur s; cur_lo := cur_lo s; cur_text := cur_text s;
     bld := bld s; errs := errs s; after_err := a; nlex := nlex s; nstart := nstart s |}.

(** ParserBase::save; None = `expect("error token without message")` failed *)
Definition p_save (s : pst) : option pst :=
  let s1 := with_bld s (b_token (bld s) (sk_of_tk (cur s)) (cur_text s)) in
  if tk_eqb (cur s) T_Error then
    match take_error (pp s1) with
    | (Some e, pp') => Some (p_error (with_pp_after s1 pp' (after_err s1)) (MTok e))
    | (None, _) => None
    end
  else Some (with_pp_after s1 (pp s1) false).

(** ParserBase::skip: `while self.current.is_trivia() { save; lex }`.  Structural on a fuel LIST; the
    callers pass [eof_tok :: raw s], i.e. 1 + the number of unread raw tokens (every trivia token
    read consumes at least one raw token: proofs/ParserTile.v shows the fuel never runs out). *)
Fixpoint p_skip (fuel : list rtok) (s : pst) : option pst :=
  match fuel with
  | [] => if is_trivia (cur s) then None else Some s
  | _ :: n => if is_trivia (cur s) then
                match p_save s with Some s1 => p_skip n (p_lex s1) | None => None end
              else Some s
  end.
Definition p_skip_all (s : pst) : option pst := p_skip (eof_tok :: raw s) s.

(** ParserBase::eat *)
Definition p_eat (s : pst) : option pst :=
  match p_save s with
  | Some s1 => p_skip_all (p_lex s1)
  | None => None
  end.

Definition p_at (s : pst) (k : TokenKind) : bool := tk_eqb (cur s) k.
Definition p_at_set (s : pst) (ks : list TokenKind) : bool := existsb (tk_eqb (cur s)) ks.
Definition p_eof (s : pst) : bool := p_at s T_Eof.

Definition p_start_node (s : pst) (k : SyntaxKind) : pst :=
  let s1 := with_bld s (b_start_node (bld s) k) in
  {| raw := raw s1; src := src s1; pp := pp s1; cursor := cursor s1; cur := cur s1; cur_lo := cur_lo s1; cur_text := cur_text s1;
     bld := bld s1; errs := errs s1; after_err := after_err s1; nlex := nlex s1; nstart := nstart s1 + 1 |}.
Definition p_start_node_at (s : pst) (cp : nat) (k : SyntaxKind) : option pst :=
  match b_start_node_at (bld s) cp k with Some b => Some (with_bld s b) | None => None end.
Definition p_finish_node (s : pst) : option pst :=
  match b_finish_node (bld s) with Some b => Some (with_bld s b) | None => None end.

(** error_and_eat: error; start_node(Error); eat; finish_node  (direct builder calls: not counted in nstart) *)
Definition p_error_and_eat (s : pst) (m : parse_msg) : option pst :=
  let s1 := p_error s m in
  let s2 := with_bld s1 (b_start_node (bld s1) S_Error) in
  match p_eat s2 with
  | Some s3 => p_finish_node s3
  | None => None
  end.

Definition p_error_and_recover (recover : list TokenKind) (s : pst) (m : parse_msg) : option pst :=
  let s1 := p_error s m in
  if negb (p_at_set s1 recover) && negb (p_eof s1) then
    let s2 := with_bld s1 (b_start_node (bld s1) S_Error) in
    match p_eat s2 with
    | Some s3 => p_finish_node s3
    | None => None
    end
  else Some s1.

(** eat_if returns (bool, state) *)
Definition p_eat_if (s : pst) (k : TokenKind) : option (bool * pst) :=
  if p_at s k then match p_eat s with Some s1 => Some (true, s1) | None => None end
  else Some (false, s).
(** assert: `assert!(self.eat_if(kind))` *)
Definition p_assert (s : pst) (k : TokenKind) : option pst :=
  match p_eat_if s k with
  | Some (true, s1) => Some s1
  | _ => None
  end.
Definition p_expect (s : pst) (k : TokenKind) (m : parse_msg) : option pst :=
  match p_eat_if s k with
  | Some (true, s1) => Some s1
  | Some (false, s1) => if after_err s1 then Some s1 else Some (p_error s1 m)
  | None => None
  end.

(** Parser::finish *)
Definition p_finish (s : pst) : option (tree * list (N * N * parse_msg)) :=
  match b_finish (bld s) with
  | Some t => Some (t, rev (errs s))
  | None => None
  end.

(** the text of a syntax error message: a literal of the grammar, `eco_format!("expected {kind:?}")`, or the
    message parked by the lexer / preprocessor *)
Definition msg_text (m : parse_msg) : string :=
  match m with
  | MLit s => s
  | MExpected k => String.append "expected " (tk_name k)
  | MTok e => any_err_msg e
  end.
