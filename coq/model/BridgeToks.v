(** The identifier tokens of a workspace, computed from the MODEL parse trees: the [toks] argument of group
    symmap's side conditions (model/SymbolWf.v: [toks_sorted], [op_coh_ok]) as a function of the trees.
    File number = position of the tree.  Executable definitions only. *)
From Coq Require Import List NArith Bool.
From TG.Gen Require Import GenTokens.
From TG.Model Require Import Chars Tree SymbolMap SymbolWf.
Import ListNotations.
Open Scope N_scope.

(** the non-empty Id leaves of one tree, in document order *)
Definition sel_id_toks (f : N) (ls : list (SyntaxKind * N * N * text)) : list tok :=
  flat_map (fun l : SyntaxKind * N * N * text =>
              let '(k, lo, hi, tx) := l in
              if sk_eqb k S_Id && (lo <? hi) then [(mkFR f lo hi, tx)] else []) ls.
Definition id_toks_of (f : N) (t : tree) : list tok := sel_id_toks f (leaves t).

Fixpoint ws_id_toks_from (f : N) (trees : list tree) : list tok :=
  match trees with
  | [] => []
  | t :: r => id_toks_of f t ++ ws_id_toks_from (f + 1) r
  end.
Definition ws_id_toks (trees : list tree) : list tok := ws_id_toks_from 0 trees.
