(** M-host, contracts used by the GENERATED rendering of file_system.rs / analysis.rs / vfs.rs
    (coq/gen/GenFileSystem.v, written by tools/translate/t_filesystem.py on every run).

    These are the trusted, hand-written meanings of the std / salsa / AST operations the three
    files use; everything else in the rendering comes from the Rust text.
    - [HashMap<K,V>]: the list of its insertions, NEWEST FIRST; [get] = first entry with an equal key
      ([insert] of an existing key therefore replaces); iteration order ([keys]) is unspecified in
      Rust - the rendering exposes the list and no theorem depends on its order.
    - [Vec] / [VecDeque]: lists, [push] / [push_back] append; [pop_front] only inside [while_pop].
    - loops: [for_each] (no early exit), [for_find] (a [return] inside the body), [while_pop]
      (`while let Some(x) = q.pop_front()`, with fuel: Rust has none; C16_terminates shows it suffices).
    - salsa inputs: [db_parse] = read of file_content (panics when unset) - the parse itself is
      abstracted to the content's item list; [db_set_resolved_include_map] stores the map as the list
      of its insertions OLDEST first (Includes.im_get lets the last insertion win).
    - [env_include_dir]: `env::var("INCLUDE_DIR")` = the world's [extra] list (0 or 1 element).
    - [disk_read]: `fs::read_to_string` = the world's static [disk].
    - [FileSystemOps]: the three methods of `trait FileSystem` as operations on an abstract file
      system state; `read_content(&self)` may log (the harness' MemFs does, through a RefCell). *)
From Coq Require Import List NArith Bool.
From TG.Model Require Import Includes.
Import ListNotations.
Open Scope N_scope.

Definition bind {A B : Type} (m : outcome A) (f : A -> outcome B) : outcome B :=
  match m with
  | Done a => f a
  | OutOfFuel => OutOfFuel
  | Panic e => Panic e
  end.

(** ** HashMap *)
Section HM.
Context {K V : Type}.
Definition hm_new : list (K * V) := [].
Definition hm_insert (m : list (K * V)) (k : K) (v : V) : list (K * V) := (k, v) :: m.
Variable eqb : K -> K -> bool.
Fixpoint hm_get (m : list (K * V)) (k : K) : option V :=
  match m with
  | [] => None
  | (k', v) :: r => if eqb k' k then Some v else hm_get r k
  end.
Definition hm_contains_key (m : list (K * V)) (k : K) : bool :=
  match hm_get m k with Some _ => true | None => false end.
Definition hm_remove (m : list (K * V)) (k : K) : list (K * V) * option V :=
  (filter (fun e => negb (eqb (fst e) k)) m, hm_get m k).
(** `map[key]`: panics when the key is absent *)
Definition hm_index (m : list (K * V)) (k : K) : outcome V :=
  match hm_get m k with Some v => Done v | None => Panic PNoPath end.
Definition hm_keys (m : list (K * V)) : list K := map fst m.
End HM.

(** ** Vec / VecDeque *)
Definition vec_push {A : Type} (l : list A) (x : A) : list A := l ++ [x].

(** ** Option::expect on the result of Path::parent *)
Definition expect_parent {A : Type} (o : option A) : outcome A :=
  match o with Some a => Done a | None => Panic PNoParent end.

(** ** loops *)
Inductive step (S R : Type) :=
| Next (s : S)
| Return (s : S) (r : R).
Arguments Next {S R} s.
Arguments Return {S R} s r.

Fixpoint for_each {A S : Type} (xs : list A) (body : A -> S -> S) (st : S) : S :=
  match xs with
  | [] => st
  | x :: r => for_each r body (body x st)
  end.

Fixpoint for_find {A S R : Type} (xs : list A) (body : A -> S -> step S R) (st : S) : step S R :=
  match xs with
  | [] => Next st
  | x :: r => match body x st with
              | Next st' => for_find r body st'
              | Return st' v => Return st' v
              end
  end.

(** `while let Some(x) = q.pop_front() { body }`: [body x q' st] returns the queue and the state after
    one iteration (`continue` = returning early) *)
Fixpoint while_pop {A S : Type} (fuel : nat) (body : A -> list A -> S -> outcome (list A * S))
         (q : list A) (st : S) : outcome S :=
  match q with
  | [] => Done st
  | x :: q' =>
      match fuel with
      | O => OutOfFuel
      | S n => match body x q' st with
               | Done (q'', st') => while_pop n body q'' st'
               | OutOfFuel => OutOfFuel
               | Panic e => Panic e
               end
      end
  end.

Section Ops.
Context {path istr : Type} {PA : PathAlg path istr}.
Notation content := (content istr).
Notation item := (item istr).
Notation world := (world path istr).
Notation inputs := (@inputs path istr).

(** ** salsa inputs and the parse abstraction *)
Definition db_parse (db : inputs) (f : N) : outcome content :=
  match fc db f with Some c => Done c | None => Panic PUnsetContent end.
Definition db_set_file_content (db : inputs) (f : N) (c : content) : inputs := set_fc db f c.
Definition db_set_resolved_include_map (db : inputs) (f : N) (m : list (rng * N)) : inputs :=
  set_rim db f (rev m).

(** `list_includes(parse.syntax_node())`: the Include descendants with a file name, in document
    order (t_filesystem.py checks that the Rust fn has exactly the reference shape: descendants,
    ast::Include::cast, SyntaxNodePtr of the node, `path()?.value()`) *)
Definition ast_list_includes (c : content) : list (rng * istr) := list_includes (c_items c).

Definition env_include_dir (w : world) : list path := extra w.
Definition disk_read (w : world) (p : path) : option content := disk w p.

(** ** trait FileSystem *)
Record FileSystemOps (FS : Type) := {
  fso_assign : FS -> path -> N * FS;               (* assign_or_get_file_id(&mut self, path) *)
  fso_path_for_file : FS -> N -> outcome path;     (* path_for_file(&self, id): panics on an unknown id *)
  fso_read_content : FS -> path -> FS * option content   (* read_content(&self, path) (+ read log) *)
}.

(** [assign_or_get_file_id] in the rendering's convention: in-out receiver first, then the value *)
Definition fs_assign {FS : Type} (o : FileSystemOps FS) (fs : FS) (p : path) : FS * N :=
  let '(f, fs') := fso_assign FS o fs p in (fs', f).

End Ops.
Arguments fso_assign {path istr FS} f _ _.
Arguments fso_path_for_file {path istr FS} f _ _.
Arguments fso_read_content {path istr FS} f _ _.
Arguments fs_assign {path istr FS} o _ _.
